// Package c25 checks property C25: dedicated clients are isolated and single-use.
//
// One history per synctest bubble: 2-16 dedicated sessions (Dedicated(fn) and
// Dedicate()) run concurrently with shared-pipeline callers, blocking-tagged
// callers (they borrow connections from the same pool), a publisher and a
// writer. The pool is small, so connections are reused. The oracle reads the
// server's per-connection command log.
package c25

import (
	"context"
	"encoding/json"
	"errors"
	"fmt"
	"math/rand"
	"os"
	"regexp"
	"runtime"
	"sort"
	"strconv"
	"strings"
	"sync"
	"sync/atomic"
	"testing"
	"time"

	"github.com/redis/rueidis"
	"verifh/drv"
	"verifh/fakeredis"
	"verifh/mon"
	"verifh/resp"
)

const (
	primary = "127.0.0.1:7001"
	cntKey  = "{t}cnt"
	echoKey = "{t}k"
)

type scen struct {
	idx      int
	topo     string // single | standalone | sentinel | cluster
	resp2    bool
	noCache  bool
	pool     int
	sessions int
	queue    string
	seed     int64
	retryFn  rueidis.RetryDelayFn // non-nil: retries enabled with this RetryDelay hook
}

func (sc scen) String() string {
	return fmt.Sprintf("#%d topo=%s resp2=%v nocache=%v pool=%d sessions=%d queue=%s", sc.idx, sc.topo, sc.resp2, sc.noCache, sc.pool, sc.sessions, sc.queue)
}

type hookCall struct {
	stamp int64
	m     rueidis.PubSubMessage
}

// session is one dedicated client from acquisition to release and what was done with it afterwards.
type session struct {
	id       int
	viaFn    bool // Dedicated(fn) instead of Dedicate()
	endClose bool // DedicatedClient.Close() instead of release
	ops      []string
	issued   [][]string // argv of every command issued through the dedicated client, in order
	failed   bool       // some command returned a non-redis error: the issued list is only an upper bound

	acqStart, acqEnd, relStart, relEnd int64
	connID                             int64 // learnt with CLIENT ID inside the session
	atStart                            fakeredis.SessionInfo
	atStartOK                          bool
	firstReply                         string

	usedSub, usedInval, leftMulti bool
	channel                       string
	hookMu                        sync.Mutex
	hookCalls                     []hookCall
	invalCalls                    []int64
	hookCh, invalCh               <-chan error

	txOK, txAbort int

	after map[string]string // method -> error observed after release
}

var tokRe = regexp.MustCompile(`(^|[{}:])(S\d+|B\d+|P\d+)\.`)

// ownerOf finds the uid token of a command: "S12" (session), "B3" (blocking caller), "P1" (pipeline caller), "" (none).
func ownerOf(argv []string) string {
	for _, a := range argv[1:] {
		if m := tokRe.FindStringSubmatch(a); m != nil {
			return m[2]
		}
	}
	return ""
}

type world struct {
	run    *mon.Run
	sc     scen
	s      *fakeredis.Server
	client rueidis.Client
	node   *fakeredis.Node
	ctx    context.Context

	sessions   []*session
	incrOK     atomic.Int64
	blockingN  atomic.Int64
	pipelineN  atomic.Int64
	stop       atomic.Bool
	afterUIDs  sync.Map
	leakQueued atomic.Int64
}

func (w *world) wit(extra map[string]any) map[string]any {
	m := map[string]any{"scenario": w.sc.String()}
	for k, v := range extra {
		m[k] = v
	}
	return m
}

func yield(n int) {
	for i := 0; i < n; i++ {
		runtime.Gosched()
	}
}

func setup(sc scen) (*fakeredis.Server, rueidis.Client, error) {
	s := fakeredis.New(fakeredis.Options{Seed: sc.seed, ChunkWrites: sc.idx%2 == 0}, primary)
	opt := drv.Option(s, primary)
	opt.DisableRetry = sc.retryFn == nil
	opt.RetryDelay = sc.retryFn
	opt.PipelineMultiplex = -1
	opt.BlockingPoolSize = sc.pool
	opt.AlwaysRESP2 = sc.resp2
	opt.DisableCache = sc.noCache || sc.resp2
	switch sc.topo {
	case "single":
		opt.ForceSingleClient = true
	case "standalone":
		s.AddNode("127.0.0.1:7002", "slave", s.Node(primary))
		opt.Standalone.ReplicaAddress = []string{"127.0.0.1:7002"}
		opt.SendToReplicas = func(cmd rueidis.Completed) bool { return false }
	case "sentinel":
		sn := s.AddNode("127.0.0.1:26379", "sentinel", nil)
		sn.ConfigureSentinel("mymaster", primary, nil, nil)
		opt.InitAddress = []string{"127.0.0.1:26379"}
		opt.Sentinel.MasterSet = "mymaster"
	case "cluster":
		s.AddNode("127.0.0.1:7003", "master", nil)
		s.EnableCluster()
	}
	c, err := rueidis.NewClient(opt)
	if err != nil {
		s.Close()
		return nil, nil, err
	}
	return s, c, nil
}

// do issues one command through the dedicated client and records its argv.
func (ss *session) do(w *world, dc rueidis.DedicatedClient, cmd rueidis.Completed) rueidis.RedisResult {
	ss.issued = append(ss.issued, append([]string(nil), cmd.Commands()...))
	res := dc.Do(w.ctx, cmd)
	if res.NonRedisError() != nil {
		ss.failed = true
	}
	return res
}

func (ss *session) doMulti(w *world, dc rueidis.DedicatedClient, cmds ...rueidis.Completed) []rueidis.RedisResult {
	for _, c := range cmds {
		ss.issued = append(ss.issued, append([]string(nil), c.Commands()...))
	}
	rs := dc.DoMulti(w.ctx, cmds...)
	for _, r := range rs {
		if r.NonRedisError() != nil {
			ss.failed = true
		}
	}
	return rs
}

func (ss *session) uid(n *int) string { *n++; return fmt.Sprintf("S%d.%d", ss.id, *n) }

// body is what runs between acquisition and release.
func (ss *session) body(w *world, dc rueidis.DedicatedClient) {
	n := 0
	u := ss.uid(&n)
	// the begin marker: the first command of the session, with a key so that a cluster client can pick the node
	first := ss.do(w, dc, dc.B().Arbitrary("VERIF.ECHO").Keys(echoKey).Args(u, "str").Build())
	ss.firstReply, _ = first.ToString()
	if ss.firstReply != "echo:"+u {
		if ss.firstReply == "QUEUED" {
			w.leakQueued.Add(1)
		}
		w.run.Violation("transaction-state-leaked-to-next-holder", "dedicated-session|first-reply="+short(ss.firstReply), w.wit(map[string]any{"session": ss.id, "uid": u, "reply": ss.firstReply, "err": fmt.Sprint(first.Error())}))
	}
	if id, err := ss.do(w, dc, dc.B().Arbitrary("CLIENT").Args("ID").Build()).AsInt64(); err == nil {
		ss.connID = id
		ss.atStart, ss.atStartOK = w.s.Session(id)
	}
	for _, op := range ss.ops {
		switch op {
		case "tx":
			for try := 0; try < 6; try++ {
				ss.do(w, dc, dc.B().Arbitrary("WATCH").Keys(cntKey, fmt.Sprintf("{t}S%d.w", ss.id)).Build())
				v, _ := ss.do(w, dc, dc.B().Arbitrary("GET").Keys(cntKey).Build()).AsInt64()
				yield(3)
				rs := ss.doMulti(w, dc, dc.B().Arbitrary("MULTI").Build(), dc.B().Arbitrary("SET").Keys(cntKey).Args(strconv.FormatInt(v+1, 10)).Build(), dc.B().Arbitrary("EXEC").Build())
				if arr, err := rs[2].ToArray(); err == nil && len(arr) == 1 {
					ss.txOK++
					break
				} else if rueidis.IsRedisNil(rs[2].Error()) {
					ss.txAbort++
				} else {
					w.run.Violation("transaction-broken", "exec-reply", w.wit(map[string]any{"session": ss.id, "exec": fmt.Sprint(rs[2].Error()), "multi": fmt.Sprint(rs[0].Error()), "set": fmt.Sprint(rs[1].Error())}))
					break
				}
			}
		case "echo":
			u := ss.uid(&n)
			if got, err := ss.do(w, dc, dc.B().Arbitrary("VERIF.ECHO").Keys(echoKey).Args(u, "str").Build()).ToString(); err == nil && got != "echo:"+u {
				w.run.Violation("wrong-reply", "dedicated-echo", w.wit(map[string]any{"session": ss.id, "uid": u, "got": got}))
			}
		case "sub":
			ss.usedSub = true
			ss.channel = fmt.Sprintf("{t}S%d.ch", ss.id)
			ss.hookCh = dc.SetPubSubHooks(rueidis.PubSubHooks{OnMessage: func(m rueidis.PubSubMessage) {
				ss.hookMu.Lock()
				ss.hookCalls = append(ss.hookCalls, hookCall{mon.Stamp(), m})
				ss.hookMu.Unlock()
			}})
			ss.do(w, dc, dc.B().Subscribe().Channel(ss.channel).Build())
			if ss.id%2 == 0 {
				ss.do(w, dc, dc.B().Psubscribe().Pattern(fmt.Sprintf("{t}S%d.p*", ss.id)).Build())
			}
			w.s.Publish(ss.channel, "in-session")
		case "inval":
			ss.usedInval = true
			ss.invalCh = dc.SetOnInvalidations(func(ms []rueidis.RedisMessage) {
				ss.hookMu.Lock()
				ss.invalCalls = append(ss.invalCalls, mon.Stamp())
				ss.hookMu.Unlock()
			})
			if w.sc.noCache {
				ss.do(w, dc, dc.B().Arbitrary("CLIENT").Args("TRACKING", "ON").Build())
				ss.do(w, dc, dc.B().Arbitrary("GET").Keys(fmt.Sprintf("{t}S%d.tracked", ss.id)).Build())
			} else {
				ss.doMulti(w, dc, dc.B().Arbitrary("CLIENT").Args("CACHING", "YES").Build(), dc.B().Arbitrary("GET").Keys(fmt.Sprintf("{t}S%d.tracked", ss.id)).Build())
			}
			w.node.Exec("SET", fmt.Sprintf("{t}S%d.tracked", ss.id), "x")
		case "leave-multi":
			// the session walks away in the middle of a transaction
			ss.leftMulti = true
			ss.doMulti(w, dc, dc.B().Arbitrary("MULTI").Build(), dc.B().Arbitrary("SET").Keys(fmt.Sprintf("{t}S%d.never", ss.id)).Args("x").Build())
		}
		yield(2)
	}
}

// invalShape names how the session's invalidation callback stood at release: "callback-installed" or
// "callback-replaced-by-later-SetPubSubHooks" (SetPubSubHooks after SetOnInvalidations drops the callback).
func (ss *session) invalShape() string {
	seen := false
	shape := "callback-installed"
	for _, o := range ss.ops {
		if o == "inval" {
			seen, shape = true, "callback-installed"
		} else if o == "sub" && seen {
			shape = "callback-replaced-by-later-SetPubSubHooks"
		}
	}
	return shape
}

func short(s string) string {
	if len(s) > 24 {
		return s[:24]
	}
	return s
}

// afterRelease calls every method of the recycled client; none may reach the server.
func (ss *session) afterRelease(w *world, dc rueidis.DedicatedClient) {
	ss.after = map[string]string{}
	mk := func(m string) string {
		u := fmt.Sprintf("S%d.after.%s", ss.id, m)
		w.afterUIDs.Store(u, ss.id)
		return u
	}
	ss.after["Do"] = fmt.Sprint(dc.Do(w.ctx, dc.B().Arbitrary("VERIF.ECHO").Keys(echoKey).Args(mk("do"), "str").Build()).Error())
	for i, r := range dc.DoMulti(w.ctx, dc.B().Arbitrary("VERIF.ECHO").Keys(echoKey).Args(mk("m1"), "str").Build(), dc.B().Arbitrary("VERIF.ECHO").Keys(echoKey).Args(mk("m2"), "str").Build()) {
		ss.after[fmt.Sprintf("DoMulti[%d]", i)] = fmt.Sprint(r.Error())
	}
	rctx, cancel := context.WithCancel(w.ctx)
	rdone := make(chan error, 1)
	go func() {
		rdone <- dc.Receive(rctx, dc.B().Subscribe().Channel("{t}"+mk("recv")).Build(), func(rueidis.PubSubMessage) {})
	}()
	time.Sleep(10 * time.Millisecond) // virtual
	select {
	case e := <-rdone:
		ss.after["Receive"] = fmt.Sprint(e)
	default:
		cancel()
		ss.after["Receive"] = "blocked until cancelled: " + fmt.Sprint(<-rdone)
	}
	cancel()
	rd := func(ch <-chan error) string {
		if ch == nil {
			return "nil channel"
		}
		select {
		case e, ok := <-ch:
			if !ok {
				return "closed without error"
			}
			return fmt.Sprint(e)
		default:
			return "no error delivered"
		}
	}
	ss.after["SetPubSubHooks"] = rd(dc.SetPubSubHooks(rueidis.PubSubHooks{OnMessage: func(rueidis.PubSubMessage) {}}))
	ss.after["SetOnInvalidations"] = rd(dc.SetOnInvalidations(func([]rueidis.RedisMessage) {}))
}

func (w *world) runSession(ss *session) {
	ss.acqStart = mon.Stamp()
	if ss.viaFn {
		var esc rueidis.DedicatedClient
		w.client.Dedicated(func(dc rueidis.DedicatedClient) error {
			ss.acqEnd = mon.Stamp()
			esc = dc
			ss.body(w, dc)
			ss.relStart = mon.Stamp()
			return nil
		})
		ss.relEnd = mon.Stamp()
		ss.afterRelease(w, esc)
		return
	}
	dc, release := w.client.Dedicate()
	ss.acqEnd = mon.Stamp()
	ss.body(w, dc)
	ss.relStart = mon.Stamp()
	if ss.endClose {
		dc.Close()
	} else {
		release()
	}
	ss.relEnd = mon.Stamp()
	if ss.usedSub {
		// whoever holds the connection now must not get this; the released hook neither
		w.s.Publish(ss.channel, "after-release")
	}
	release() // releasing twice is harmless
	ss.afterRelease(w, dc)
}

func runScenario(run *mon.Run, sc scen) *world {
	rng := run.Rand(fmt.Sprintf("scenario-%d", sc.idx))
	if os.Getenv("VERIF_DEBUG") != "" {
		fmt.Println("DEBUG scenario", sc.String())
	}
	rueidis.VerifSetQueueType(sc.queue)
	defer rueidis.VerifSetQueueType("")
	s, client, err := setup(sc)
	if err != nil {
		run.Inconclusive("client setup failed (" + sc.topo + "): " + err.Error())
		return nil
	}
	defer s.Close()
	w := &world{run: run, sc: sc, s: s, client: client, ctx: context.Background()}
	w.node = s.Node(primary)
	if sc.topo == "cluster" {
		w.node = s.Node(s.SlotOwner(fakeredis.Slot(cntKey)))
	}
	w.node.Exec("SET", cntKey, "0")

	opsPool := []string{"tx", "tx", "echo", "sub", "inval", "leave-multi", "echo"}
	for i := 0; i < sc.sessions; i++ {
		ss := &session{id: i + 1, viaFn: rng.Intn(2) == 0}
		if !ss.viaFn && rng.Intn(8) == 0 {
			ss.endClose = true
		}
		k := 1 + rng.Intn(4)
		for j := 0; j < k; j++ {
			op := opsPool[rng.Intn(len(opsPool))]
			if op == "inval" && sc.resp2 {
				op = "tx"
			}
			if op == "leave-multi" {
				// an abandoned MULTI is not survivable by later holders of the connection (two findings, probed in isolation
				// by leakProbe in a child process): keep it out of the shared history
				op = "echo"
			}
			ss.ops = append(ss.ops, op)
		}
		w.sessions = append(w.sessions, ss)
	}

	var wg, bg sync.WaitGroup
	// shared-pipeline callers (with INCRs on the watched key) and blocking callers (same pool as the dedicated clients)
	for g := 0; g < 2; g++ {
		bg.Add(1)
		go func() {
			defer bg.Done()
			for i := 0; !w.stop.Load() && i < 150; i++ {
				u := fmt.Sprintf("P%d.%d", g, i)
				got, err := client.Do(w.ctx, client.B().Arbitrary("VERIF.ECHO").Keys(echoKey).Args(u, "str").Build()).ToString()
				if err != nil || got != "echo:"+u {
					run.Violation("wrong-reply", "pipeline-echo", w.wit(map[string]any{"uid": u, "got": got, "err": fmt.Sprint(err)}))
				}
				w.pipelineN.Add(1)
				if i%3 == 0 {
					if err := client.Do(w.ctx, client.B().Incr().Key(cntKey).Build()).Error(); err == nil {
						w.incrOK.Add(1)
					}
				}
				yield(5)
			}
		}()
	}
	for g := 0; g < 2; g++ {
		bg.Add(1)
		go func() {
			defer bg.Done()
			for i := 0; !w.stop.Load() && i < 60; i++ {
				u := fmt.Sprintf("B%d.%d", g, i)
				res := client.Do(w.ctx, client.B().Arbitrary("VERIF.ECHO").Keys(echoKey).Args(u, "str").Blocking())
				got, err := res.ToString()
				if err != nil || got != "echo:"+u {
					if got == "QUEUED" {
						w.leakQueued.Add(1)
					}
					run.Violation("transaction-state-leaked-to-next-holder", "blocking-call|first-reply="+short(got), w.wit(map[string]any{"uid": u, "reply": got, "err": fmt.Sprint(err)}))
				}
				w.blockingN.Add(1)
				yield(9)
			}
		}()
	}
	for _, ss := range w.sessions {
		if os.Getenv("VERIF_DEBUG") != "" {
			fmt.Printf("DEBUG  session S%d fn=%v close=%v ops=%v\n", ss.id, ss.viaFn, ss.endClose, ss.ops)
		}
		wg.Add(1)
		go func() {
			defer wg.Done()
			yield(rng2(ss.id, 40))
			w.runSession(ss)
		}()
	}
	wg.Wait()
	w.stop.Store(true)
	bg.Wait()
	time.Sleep(500 * time.Millisecond) // virtual: the bubble settles
	w.evaluate()
	client.Close()
	time.Sleep(3 * time.Second)
	return w
}

func rng2(a, n int) int { return (a*7919 + 13) % n }

// ------------------------------------------------------------------ the oracle

type rcmd struct {
	seq  int64
	argv []string
}

func isBarePing(a []string) bool { return len(a) == 1 && strings.EqualFold(a[0], "PING") }

func isCleanup(a []string) bool {
	switch strings.ToUpper(a[0]) {
	case "UNSUBSCRIBE", "PUNSUBSCRIBE", "SUNSUBSCRIBE", "DISCARD":
		return len(a) == 1
	case "CLIENT":
		return len(a) == 3 && strings.EqualFold(a[1], "TRACKING") && strings.EqualFold(a[2], "OFF")
	}
	return false
}

func isPubSubCmd(a []string) bool {
	n := strings.ToUpper(a[0])
	return strings.HasSuffix(n, "SUBSCRIBE")
}

func eq(a, b []string) bool {
	if len(a) != len(b) {
		return false
	}
	for i := range a {
		if a[i] != b[i] {
			return false
		}
	}
	return true
}

type stats struct {
	sessions, viaFn, closed, reused, connections, txOK, txAbort, afterCalls, cleanupZones, subSessions, invalSessions, leftMulti int
	hookMsgs, blocking, pipeline, holdersOnReused, trackingOffSeen, sessionStateChecked                                            int
}

var total stats

func (w *world) evaluate() {
	run := w.run
	log := w.s.Log()
	conns := map[int64][]rcmd{}
	uidCount := map[string]int{}
	for _, e := range log {
		if e.Kind != "recv" || e.Conn == 0 || isBarePing(e.Argv) {
			continue
		}
		conns[e.Conn] = append(conns[e.Conn], rcmd{e.Seq, e.Argv})
		for _, a := range e.Argv[1:] {
			if strings.Contains(a, ".after.") {
				run.Violation("recycled-client-reached-server", "uid="+a[strings.Index(a, ".after."):], w.wit(map[string]any{"argv": e.Argv, "conn": e.Conn}))
			}
		}
		if o := ownerOf(e.Argv); o != "" {
			uidCount[o]++
		}
	}
	type holder struct {
		owner    string
		firstSeq int64
		idx      int
		sess     *session
	}
	holdersOf := map[int64][]holder{}
	find := func(argv []string) (int64, int) {
		for id, cs := range conns {
			for i, c := range cs {
				if eq(c.argv, argv) {
					return id, i
				}
			}
		}
		return 0, -1
	}
	byID := map[int]*session{}
	for _, ss := range w.sessions {
		byID[ss.id] = ss
	}
	for _, ss := range w.sessions {
		total.sessions++
		total.txOK += ss.txOK
		total.txAbort += ss.txAbort
		if ss.viaFn {
			total.viaFn++
		}
		if ss.endClose {
			total.closed++
		}
		base := map[string]any{"session": fmt.Sprintf("S%d viaFn=%v close=%v ops=%v", ss.id, ss.viaFn, ss.endClose, ss.ops)}
		// --- single use
		for m, e := range ss.after {
			total.afterCalls++
			if e != rueidis.ErrDedicatedClientRecycled.Error() {
				run.Violation("recycled-client-accepted-call", m+"|"+w.sc.topo, w.wit(merge(base, map[string]any{"method": m, "returned": e})))
			}
		}
		// --- isolation: the connection saw exactly the session's commands, in order, nothing in between
		main, pubsub := ss.issued, [][]string(nil)
		if w.sc.resp2 {
			main = nil
			for _, a := range ss.issued {
				if isPubSubCmd(a) {
					pubsub = append(pubsub, a)
				} else {
					main = append(main, a)
				}
			}
		}
		cid, idx := find(main[0])
		if idx < 0 {
			if !ss.failed {
				run.Violation("session-command-missing", "begin-marker|"+w.sc.topo, w.wit(base))
			}
			continue
		}
		cs := conns[cid]
		if ss.connID != 0 && ss.connID != cid {
			run.Violation("session-on-two-connections", "client-id|"+w.sc.topo, w.wit(merge(base, map[string]any{"client_id": ss.connID, "marker_on": cid})))
		}
		holdersOf[cid] = append(holdersOf[cid], holder{owner: fmt.Sprintf("S%d", ss.id), firstSeq: cs[idx].seq, idx: idx, sess: ss})
		okSeq := true
		for j, want := range main {
			if idx+j >= len(cs) {
				if !ss.failed {
					run.Violation("session-command-missing", "tail|"+w.sc.topo, w.wit(merge(base, map[string]any{"missing": want})))
				}
				okSeq = false
				break
			}
			got := cs[idx+j].argv
			if !eq(got, want) {
				who := ownerOf(got)
				cls := "unknown:" + strings.ToUpper(got[0])
				switch {
				case strings.HasPrefix(who, "P"):
					cls = "shared-pipeline-command"
				case strings.HasPrefix(who, "B"):
					cls = "blocking-pool-command"
				case strings.HasPrefix(who, "S"):
					cls = "other-session-command"
				case isCleanup(got):
					cls = "cleanup-command"
				}
				run.Violation("foreign-command-inside-dedicated-session", cls+"|"+w.sc.topo, w.wit(merge(base, map[string]any{"connection": cid, "position": j, "expected": want, "found": got, "around": window(cs, idx+j)})))
				okSeq = false
				break
			}
		}
		if !okSeq {
			continue
		}
		// --- between the session's last command and the next holder: only rueidis's own cleanup
		k := idx + len(main)
		var zone [][]string
		for k < len(cs) && isCleanup(cs[k].argv) {
			zone = append(zone, cs[k].argv)
			k++
		}
		total.cleanupZones++
		if k < len(cs) {
			next := cs[k]
			o := ownerOf(next.argv)
			legit := strings.HasPrefix(o, "B") || (strings.HasPrefix(o, "S") && o != fmt.Sprintf("S%d", ss.id) && strings.HasSuffix(uidOf(next.argv), ".1"))
			if !legit {
				run.Violation("foreign-command-before-next-holder", strings.ToUpper(next.argv[0])+"|"+w.sc.topo, w.wit(merge(base, map[string]any{"connection": cid, "found": next.argv, "around": window(cs, k)})))
			} else if next.seq < ss.relStart {
				run.Violation("two-holders-at-once", "next-holder-before-release|"+w.sc.topo, w.wit(merge(base, map[string]any{"connection": cid, "next": next.argv, "next_seq": next.seq, "release_started": ss.relStart})))
			}
			if !ss.endClose {
				total.reused++
				has := func(name string) bool {
					for _, z := range zone {
						if strings.EqualFold(z[0], name) {
							return true
						}
					}
					return false
				}
				if ss.usedInval {
					if has("CLIENT") {
						total.trackingOffSeen++
					} else {
						run.Violation("cleanup-missing", "CLIENT TRACKING OFF|"+ss.invalShape()+"|"+w.sc.topo, w.wit(merge(base, map[string]any{"connection": cid, "zone": zone, "next": next.argv})))
					}
				}
				if ss.leftMulti && !w.sc.resp2 && !has("DISCARD") {
					run.Violation("cleanup-missing", "DISCARD|"+w.sc.topo, w.wit(merge(base, map[string]any{"connection": cid, "zone": zone, "next": next.argv})))
				}
				if ss.usedSub && !w.sc.resp2 && !has("UNSUBSCRIBE") {
					run.Violation("cleanup-missing", "UNSUBSCRIBE|"+w.sc.topo, w.wit(merge(base, map[string]any{"connection": cid, "zone": zone, "next": next.argv})))
				}
			}
		}
		// --- RESP2: the pub/sub commands travel on the wire's second connection, equally exclusive
		if len(pubsub) > 0 {
			pc, pi := find(pubsub[0])
			if pi < 0 {
				if !ss.failed {
					run.Violation("session-command-missing", "pubsub|"+w.sc.topo, w.wit(base))
				}
			} else {
				holdersOf[pc] = append(holdersOf[pc], holder{owner: fmt.Sprintf("S%d", ss.id), firstSeq: conns[pc][pi].seq, idx: pi, sess: ss})
				for j, want := range pubsub {
					if pi+j >= len(conns[pc]) || !eq(conns[pc][pi+j].argv, want) {
						run.Violation("foreign-command-inside-dedicated-session", "resp2-pubsub-connection|"+w.sc.topo, w.wit(merge(base, map[string]any{"connection": pc, "position": j, "expected": want, "around": window(conns[pc], pi+j)})))
						break
					}
				}
			}
		}
		// --- every uid-carrying command of the session reached the server exactly once
		want := 0
		for _, a := range ss.issued {
			if ownerOf(a) == fmt.Sprintf("S%d", ss.id) {
				want++
			}
		}
		if got := uidCount[fmt.Sprintf("S%d", ss.id)]; got != want && !ss.failed {
			run.Violation("session-command-count", fmt.Sprintf("got-vs-issued|%s", w.sc.topo), w.wit(merge(base, map[string]any{"server_saw": got, "issued": want})))
		}
		// --- hooks never run after the release, and only for the session's own channels
		ss.hookMu.Lock()
		for _, h := range ss.hookCalls {
			total.hookMsgs++
			if h.stamp > ss.relEnd {
				run.Violation("hook-called-after-release", fmt.Sprintf("OnMessage|resp2=%v|%s", w.sc.resp2, w.sc.topo), w.wit(merge(base, map[string]any{"message": h.m})))
			}
			if !strings.HasPrefix(h.m.Channel, fmt.Sprintf("{t}S%d.", ss.id)) {
				run.Violation("foreign-subscription-delivered", fmt.Sprintf("OnMessage|resp2=%v|%s", w.sc.resp2, w.sc.topo), w.wit(merge(base, map[string]any{"message": h.m})))
			}
		}
		for _, st := range ss.invalCalls {
			if st > ss.relEnd && !ss.endClose {
				run.Violation("hook-called-after-release", "OnInvalidations|"+w.sc.topo, w.wit(base))
			}
		}
		ss.hookMu.Unlock()
		if ss.usedSub {
			total.subSessions++
		}
		if ss.usedInval {
			total.invalSessions++
		}
		if ss.leftMulti {
			total.leftMulti++
		}
	}
	// --- the state a holder finds: replay subscriptions / tracking per connection from the execution log
	type cstate struct {
		subs     map[string]bool
		tracking bool
	}
	states := map[int64]*cstate{}
	holderAt := map[int64]map[int64]holder{} // conn -> firstSeq -> holder
	for c, hs := range holdersOf {
		holderAt[c] = map[int64]holder{}
		for _, h := range hs {
			holderAt[c][h.firstSeq] = h
		}
		sort.Slice(hs, func(i, j int) bool { return hs[i].firstSeq < hs[j].firstSeq })
		holdersOf[c] = hs
		if len(hs) > 1 {
			total.holdersOnReused += len(hs)
		}
	}
	prevInval := map[int64]string{}
	for _, e := range log {
		if e.Conn == 0 {
			continue
		}
		st := states[e.Conn]
		if st == nil {
			st = &cstate{subs: map[string]bool{}}
			states[e.Conn] = st
		}
		switch e.Kind {
		case "recv":
			h, ok := holderAt[e.Conn][e.Seq]
			if !ok {
				continue
			}
			if len(st.subs) > 0 {
				var left []string
				for c := range st.subs {
					left = append(left, c)
				}
				sort.Strings(left)
				run.Violation("subscriptions-survived-release", fmt.Sprintf("resp2=%v|%s", w.sc.resp2, w.sc.topo), w.wit(map[string]any{"connection": e.Conn, "next_holder": h.owner, "still_subscribed": left}))
			}
			if prevInval[e.Conn] != "" && st.tracking {
				run.Violation("tracking-survived-release", "log|"+prevInval[e.Conn]+"|"+w.sc.topo, w.wit(map[string]any{"connection": e.Conn, "next_holder": h.owner}))
			}
			if h.sess != nil && h.sess.connID == e.Conn {
				prevInval[e.Conn] = ""
				if h.sess.usedInval && !h.sess.endClose {
					prevInval[e.Conn] = h.sess.invalShape()
				}
			}
		case "exec":
			if len(e.Argv) == 0 {
				continue
			}
			n := strings.ToUpper(e.Argv[0])
			switch {
			case n == "SUBSCRIBE" || n == "PSUBSCRIBE" || n == "SSUBSCRIBE":
				for _, c := range e.Argv[1:] {
					st.subs[n[:1]+":"+c] = true
				}
			case n == "UNSUBSCRIBE" || n == "PUNSUBSCRIBE" || n == "SUNSUBSCRIBE":
				p := n[:1]
				if n == "UNSUBSCRIBE" {
					p = "S"
				} else if n == "SUNSUBSCRIBE" {
					p = "SS"
				}
				_ = p
				kind := map[string]string{"UNSUBSCRIBE": "S", "PUNSUBSCRIBE": "P", "SUNSUBSCRIBE": "S"}[n]
				if len(e.Argv) == 1 {
					for c := range st.subs {
						if strings.HasPrefix(c, kind+":") {
							delete(st.subs, c)
						}
					}
				}
				for _, c := range e.Argv[1:] {
					delete(st.subs, kind+":"+c)
				}
			case n == "CLIENT" && len(e.Argv) >= 3 && strings.EqualFold(e.Argv[1], "TRACKING"):
				st.tracking = strings.EqualFold(e.Argv[2], "ON")
			}
		}
	}
	// --- what the session itself saw through s.Session(id) right after it got the connection
	for c, hs := range holdersOf {
		for i, h := range hs {
			if h.sess == nil || !h.sess.atStartOK || h.sess.connID != c {
				continue
			}
			total.sessionStateChecked++
			if h.sess.atStart.Subs != 0 {
				run.Violation("subscriptions-survived-release", "session-state|"+w.sc.topo, w.wit(map[string]any{"connection": c, "holder": h.owner, "session": h.sess.atStart}))
			}
			if i > 0 && hs[i-1].sess != nil && hs[i-1].sess.usedInval && !hs[i-1].sess.endClose && h.sess.atStart.Tracking {
				run.Violation("tracking-survived-release", "session-state|"+hs[i-1].sess.invalShape()+"|"+w.sc.topo, w.wit(map[string]any{"connection": c, "holder": h.owner, "previous": hs[i-1].owner, "session": h.sess.atStart}))
			}
		}
	}
	// --- no lost update on the watched counter
	final, _ := strconv.ParseInt(w.node.Exec("GET", cntKey).S, 10, 64)
	succ := int64(0)
	for _, ss := range w.sessions {
		succ += int64(ss.txOK)
	}
	if want := succ + w.incrOK.Load(); final != want {
		run.Violation("lost-update", "watch-multi-exec|"+w.sc.topo, w.wit(map[string]any{"final_counter": final, "successful_exec": succ, "successful_incr": w.incrOK.Load()}))
	}
	total.connections += len(holdersOf)
	total.blocking += int(w.blockingN.Load())
	total.pipeline += int(w.pipelineN.Load())
	for _, ss := range w.sessions {
		run.Case(fmt.Sprintf("%s|resp2=%v|nocache=%v|fn=%v|close=%v|ops=%s|abort=%v", w.sc.topo, w.sc.resp2, w.sc.noCache, ss.viaFn, ss.endClose, strings.Join(ss.ops, ","), ss.txAbort > 0), len(ss.issued) > 2)
	}
}

func uidOf(argv []string) string {
	for _, a := range argv[1:] {
		if tokRe.MatchString(a) {
			return a
		}
	}
	return ""
}

func window(cs []rcmd, i int) []string {
	var out []string
	for j := max(0, i-4); j < min(len(cs), i+4); j++ {
		mark := "  "
		if j == i {
			mark = "=>"
		}
		out = append(out, fmt.Sprintf("%s seq=%d %s", mark, cs[j].seq, strings.Join(cs[j].argv, " ")))
	}
	return out
}

func merge(a, b map[string]any) map[string]any {
	m := map[string]any{}
	for k, v := range a {
		m[k] = v
	}
	for k, v := range b {
		m[k] = v
	}
	return m
}

func lastBubble(stacks string) string {
	gs := strings.Split(stacks, "\n\n")
	best := -1
	id := func(g string) int {
		i := strings.Index(g, "synctest bubble ")
		if i < 0 {
			return -1
		}
		n := 0
		for _, c := range g[i+len("synctest bubble "):] {
			if c < '0' || c > '9' {
				break
			}
			n = n*10 + int(c-'0')
		}
		return n
	}
	for _, g := range gs {
		if n := id(g); n > best {
			best = n
		}
	}
	var keep []string
	for _, g := range gs {
		if id(g) == best {
			keep = append(keep, g)
		}
	}
	return strings.Join(keep, "\n\n")
}

// retryReleaseProbe: a dedicated call sits in its retry back-off (a retryable command answered LOADING, retries
// enabled, ClientOption.RetryDelay hook) while the dedicated client is released or closed - by the hook itself or by
// another goroutine during a long (virtual) back-off. Meanwhile the pooled connection (BlockingPoolSize 1) gets its
// next holder. Required: the call returns ErrDedicatedClientRecycled and nothing of that session reaches the server
// after the release began. (Only the dedicated client's own release / Close: what retries do after the PARENT
// client's Close is property C28's business.)
func retryReleaseProbe(t *testing.T, run *mon.Run, topo, api, how string, resp2 bool) {
	name := fmt.Sprintf("%s|%s|%s|resp2=%v", api, how, topo, resp2)
	var relStamp atomic.Int64
	var hookCalls atomic.Int64
	var actions sync.Map // uid -> func() time.Duration, run by the RetryDelay hook
	sc := scen{idx: 9100, topo: topo, pool: 1, queue: "flowbuffer", noCache: true, resp2: resp2}
	sc.retryFn = func(attempts int, cmd rueidis.Completed, err error) time.Duration {
		for _, a := range cmd.Commands() {
			if f, ok := actions.Load(a); ok {
				hookCalls.Add(1)
				return f.(func() time.Duration)()
			}
		}
		return -1 // no retry for anything else
	}
	type outcome struct {
		errs    []string
		replies []string
	}
	var out outcome
	var returned bool
	var wire []string
	var late []string
	var nextReply string
	dl, stacks := drv.Bubble(t, func() {
		s, client, err := setup(sc)
		if err != nil {
			run.Inconclusive("retry probe setup failed (" + topo + "): " + err.Error())
			return
		}
		ctx := context.Background()
		dc, release := client.Dedicate()
		dc.Do(ctx, dc.B().Arbitrary("VERIF.ECHO").Keys(echoKey).Args("S1.1", "str").Build())
		end := func() {
			relStamp.CompareAndSwap(0, mon.Stamp())
			if strings.HasSuffix(how, "close") {
				dc.Close()
			} else {
				release()
			}
		}
		const uid = "S1.retry"
		loading := respErr("LOADING Redis is loading the dataset in memory")
		s.Plan(&fakeredis.Rule{Name: "loading-once", Match: fakeredis.MatchArg(uid), Times: 1, Action: fakeredis.Action{Reply: &loading}})
		switch {
		case strings.HasPrefix(how, "hook-"):
			actions.Store(uid, func() time.Duration { end(); return 20 * time.Millisecond })
		default: // another goroutine ends the session during a long back-off
			actions.Store(uid, func() time.Duration { return 5 * time.Second })
		}
		done := make(chan struct{})
		go func() {
			defer close(done)
			switch api {
			case "Do":
				r := dc.Do(ctx, dc.B().Arbitrary("VERIF.ECHO").Keys(echoKey).Args(uid, "str").ReadOnly())
				s, _ := r.ToString()
				out.errs, out.replies = []string{fmt.Sprint(r.Error())}, []string{s}
			case "DoMulti":
				for _, r := range dc.DoMulti(ctx, dc.B().Arbitrary("VERIF.ECHO").Keys(echoKey).Args(uid, "str").ReadOnly(), dc.B().Arbitrary("VERIF.ECHO").Keys(echoKey).Args("S1.retry2", "str").ReadOnly()) {
					s, _ := r.ToString()
					out.errs, out.replies = append(out.errs, fmt.Sprint(r.Error())), append(out.replies, s)
				}
			}
		}()
		if strings.HasPrefix(how, "bg-") {
			time.Sleep(time.Second) // virtual: the call is in its back-off now
			end()
		}
		time.Sleep(100 * time.Millisecond)
		// the next holder of the pooled connection, while / before the retry would fire
		ndone := make(chan struct{})
		go func() {
			defer close(ndone)
			client.Dedicated(func(d2 rueidis.DedicatedClient) error {
				nextReply, _ = d2.Do(ctx, d2.B().Arbitrary("VERIF.ECHO").Keys(echoKey).Args("S2.1", "str").Build()).ToString()
				time.Sleep(8 * time.Second) // it keeps the connection while the retry fires
				d2.Do(ctx, d2.B().Arbitrary("VERIF.ECHO").Keys(echoKey).Args("S2.2", "str").Build())
				return nil
			})
		}()
		time.Sleep(20 * time.Second)
		select {
		case <-done:
			returned = true
		default:
		}
		rs := relStamp.Load()
		for _, e := range s.Log() {
			if e.Kind == "recv" && e.Conn != 0 && ownerOf(e.Argv) != "" {
				wire = append(wire, fmt.Sprintf("seq=%d conn=%d %s", e.Seq, e.Conn, strings.Join(e.Argv, " ")))
				if ownerOf(e.Argv) == "S1" && rs != 0 && e.Seq > rs {
					late = append(late, fmt.Sprintf("seq=%d conn=%d %s", e.Seq, e.Conn, strings.Join(e.Argv, " ")))
				}
			}
		}
		cdone := make(chan struct{})
		go func() { client.Close(); close(cdone) }()
		time.Sleep(10 * time.Second)
		s.Close()
	})
	run.Case("retry-release-probe|"+name, true)
	run.Observe("retry_release_probes", 1)
	wit := map[string]any{"history": "Dedicate (BlockingPoolSize 1); VERIF.ECHO S1.1; " + api + "(read-only VERIF.ECHO S1.retry) answered LOADING once -> RetryDelay hook; the dedicated client is ended (" + how + "); Dedicated(next holder: S2.1, holds 8s, S2.2)",
		"variant": name, "returned": returned, "errors": out.errs, "replies": out.replies, "release_began_at": relStamp.Load(), "session_commands_after_release": late, "next_holder_first_reply": nextReply, "wire": wire, "retry_hook_calls": hookCalls.Load()}
	if dl != "" {
		stacks = lastBubble(stacks)
		if frames := drv.RueidisFrames(stacks); len(frames) > 0 {
			run.Violation("hang-or-leak", "retry-release-probe|"+name, merge(wit, map[string]any{"synctest": dl, "rueidis_frames": frames}))
		} else {
			run.Inconclusive("retry probe: bubble deadlock without rueidis frames: " + name)
		}
		return
	}
	if hookCalls.Load() == 0 || relStamp.Load() == 0 {
		run.Inconclusive("retry probe: the RetryDelay hook was never reached (" + name + ")")
		return
	}
	run.Observe("retry_release_hook_reached", 1)
	if !returned {
		run.Violation("hang-or-leak", "retry-release-probe|call-did-not-return|"+name, wit)
		return
	}
	if len(late) > 0 {
		run.Violation("recycled-client-reached-server", "retry-after-release|"+name, wit)
	}
	for i, e := range out.errs {
		if e != rueidis.ErrDedicatedClientRecycled.Error() {
			run.Violation("recycled-client-accepted-call", fmt.Sprintf("%s[%d]-retry-after-release|%s", api, i, name), wit)
			break
		}
	}
	if nextReply != "echo:S2.1" {
		run.Violation("wrong-reply", "next-holder-after-retry-release|"+name, wit)
	}
}

func respErr(s string) resp.V { return resp.Err(s) }

// probeResult is what the child process of a leak probe prints.
type probeResult struct {
	Replies []string
	Wire    []string
	Err     string
	Dl      string
}

// probeChild is the deterministic history behind the findings about an abandoned MULTI: session A = VERIF.ECHO, MULTI,
// SET (no EXEC), release; then the next users of the pooled connection (BlockingPoolSize 1): a blocking-tagged
// VERIF.ECHO and a second dedicated session's VERIF.ECHO. With pipelining, A first installs pub/sub hooks, which
// starts the wire's reader (pipelining mode). It runs in a child process because rueidis may panic in its reader.
func probeChild(t *testing.T) {
	parts := strings.Split(os.Getenv("VERIF_PROBE"), ",")
	topo, pipelining, resp2 := parts[0], parts[1] == "true", parts[2] == "true"
	sc := scen{idx: 9000, topo: topo, pool: 1, queue: "flowbuffer", noCache: true, resp2: resp2}
	var res probeResult
	res.Dl, _ = drv.Bubble(t, func() {
		s, client, err := setup(sc)
		if err != nil {
			res.Err = "setup: " + err.Error()
			return
		}
		ctx := context.Background()
		dc, release := client.Dedicate()
		dc.Do(ctx, dc.B().Arbitrary("VERIF.ECHO").Keys(echoKey).Args("S1.1", "str").Build())
		if pipelining {
			dc.SetPubSubHooks(rueidis.PubSubHooks{OnMessage: func(rueidis.PubSubMessage) {}})
			dc.Do(ctx, dc.B().Subscribe().Channel("{t}S1.ch").Build())
		}
		dc.DoMulti(ctx, dc.B().Arbitrary("MULTI").Build(), dc.B().Arbitrary("SET").Keys("{t}S1.never").Args("x").Build())
		release()
		r1, _ := client.Do(ctx, client.B().Arbitrary("VERIF.ECHO").Keys(echoKey).Args("B1.1", "str").Blocking()).ToString()
		var r2 string
		client.Dedicated(func(d2 rueidis.DedicatedClient) error {
			r2, _ = d2.Do(ctx, d2.B().Arbitrary("VERIF.ECHO").Keys(echoKey).Args("S2.1", "str").Build()).ToString()
			return nil
		})
		res.Replies = []string{r1, r2}
		for _, e := range s.Log() {
			if e.Kind == "recv" && e.Conn != 0 && (ownerOf(e.Argv) != "" || isCleanup(e.Argv) || isBarePing(e.Argv) || strings.EqualFold(e.Argv[0], "MULTI")) {
				res.Wire = append(res.Wire, fmt.Sprintf("conn=%d %s", e.Conn, strings.Join(e.Argv, " ")))
			}
		}
		client.Close()
		time.Sleep(3 * time.Second)
		s.Close()
	})
	b, _ := json.Marshal(res)
	fmt.Printf("PROBE-RESULT %s\n", b)
}

func leakProbe(run *mon.Run, topo string, pipelining, resp2 bool) {
	out, _ := drv.RunChild("TestC25", map[string]string{"VERIF_PROBE": fmt.Sprintf("%s,%v,%v", topo, pipelining, resp2)}, 2048)
	run.Case(fmt.Sprintf("leak-probe|%s|pipelining=%v|resp2=%v", topo, pipelining, resp2), true)
	run.Observe("leak_probe_runs", 1)
	mode := "sync-mode-wire"
	if pipelining {
		mode = "pipelining-wire"
	}
	if resp2 {
		mode = "resp2-" + mode
	}
	wit := map[string]any{"history": "A=Dedicate(): VERIF.ECHO S1.1; [SetPubSubHooks+SUBSCRIBE when pipelining]; MULTI; SET (no EXEC); release. Then blocking VERIF.ECHO B1.1 and Dedicated(VERIF.ECHO S2.1) on the same pooled connection (BlockingPoolSize=1)",
		"topology": topo, "resp2": resp2, "wire_pipelining_before_release": pipelining, "expected_replies": []string{"echo:B1.1", "echo:S2.1"}}
	var res probeResult
	if i := strings.Index(out, "PROBE-RESULT "); i >= 0 {
		line := out[i+len("PROBE-RESULT "):]
		if j := strings.IndexByte(line, '\n'); j >= 0 {
			line = line[:j]
		}
		_ = json.Unmarshal([]byte(line), &res)
	} else {
		// the child died
		if k := strings.Index(out, "panic: "); k >= 0 {
			msg := out[k:]
			if j := strings.IndexByte(msg, '\n'); j >= 0 {
				msg = msg[:j]
			}
			run.Observe("release_panics", 1)
			run.Violation("panic-on-release", fmt.Sprintf("%s|abandoned-MULTI|%s", mode, strings.TrimPrefix(msg, "panic: ")), merge(wit, map[string]any{"child_output": drv.Tail(out, 3000)}))
			return
		}
		run.Inconclusive("leak probe child gave no result: " + drv.Tail(out, 300))
		return
	}
	wit["replies_of_next_holders"], wit["commands_on_the_wire"] = res.Replies, res.Wire
	switch {
	case res.Err != "":
		run.Inconclusive("leak probe: " + res.Err)
	case res.Dl != "":
		run.Violation("hang-or-leak", "leak-probe|"+mode, merge(wit, map[string]any{"synctest": res.Dl}))
	case len(res.Replies) == 2 && (res.Replies[0] != "echo:B1.1" || res.Replies[1] != "echo:S2.1"):
		run.Observe("leak_reproduced", 1)
		run.Violation("transaction-state-leaked-to-next-holder", fmt.Sprintf("%s|abandoned-MULTI|next-holder-reply=%s", mode, short(res.Replies[0])), wit)
	default:
		run.Observe("leak_probe_clean", 1)
	}
}

func TestC25(t *testing.T) {
	if drv.IsChild() {
		probeChild(t)
		return
	}
	run := mon.Start(t, "C25", "exploration",
		"one history per synctest bubble: 2-16 concurrent dedicated sessions (Dedicated(fn) / Dedicate()+release / DedicatedClient.Close), each a random sequence of WATCH-GET-MULTI-SET-EXEC on a shared counter (retried on abort), VERIF.ECHO, SetPubSubHooks+SUBSCRIBE/PSUBSCRIBE, SetOnInvalidations+tracked read, an abandoned MULTI; "+
			"concurrently 2 shared-pipeline callers (VERIF.ECHO + INCR of the watched counter), 2 blocking-tagged callers borrowing from the same pool (BlockingPoolSize 1-3, so connections are reused), publishes and tracked-key writes; after release every method of the client is called again; "+
			"single / standalone+replica / sentinel / cluster clients, RESP3 with and without client-side caching and AlwaysRESP2, ring and flowbuffer; a case = one session (topology, RESP, cache, acquisition API, ending, op sequence, aborted?)")
	defer run.Finish()
	run.Assume("fakeredis logs every received command per connection id in arrival order; every session command carries the session's uid or is compared by position in the session's issued list",
		"rueidis's own traffic on a dedicated connection is limited to bare PING keep-alives and, between holders, UNSUBSCRIBE / PUNSUBSCRIBE / SUNSUBSCRIBE / DISCARD / CLIENT TRACKING OFF")
	n := run.N(60, 2500)
	rng := run.Rand("scenarios")
	topos := []string{"single", "single", "single", "standalone", "sentinel", "cluster"}
	for i := 0; i < n; i++ {
		sc := scen{idx: i, topo: topos[i%len(topos)], resp2: rng.Intn(5) == 0, noCache: rng.Intn(3) == 0, pool: 1 + rng.Intn(3), sessions: 2 + rng.Intn(15),
			queue: []string{"flowbuffer", "ring"}[rng.Intn(2)], seed: run.Seed*100000 + int64(i)}
		var pan any
		var w *world
		dl, stacks := drv.Bubble(t, func() {
			defer func() {
				if p := recover(); p != nil {
					pan = p
				}
			}()
			w = runScenario(run, sc)
		})
		if pan != nil {
			run.Violation("panic", sc.topo, map[string]any{"scenario": sc.String(), "panic": fmt.Sprint(pan)})
			continue
		}
		if dl != "" {
			stacks = lastBubble(stacks)
			if frames := drv.RueidisFrames(stacks); len(frames) > 0 {
				run.Violation("hang-or-leak", fmt.Sprintf("%s|resp2=%v", sc.topo, sc.resp2), map[string]any{"scenario": sc.String(), "synctest": dl, "rueidis_frames": frames, "stacks": drv.Tail(stacks, 16000)})
			} else {
				run.Inconclusive("bubble deadlock without rueidis frames (harness): " + sc.String())
			}
			continue
		}
		if w != nil && i < 4 {
			run.Sample(map[string]any{"scenario": sc.String(), "sessions": len(w.sessions), "pipeline_calls": w.pipelineN.Load(), "blocking_calls": w.blockingN.Load()})
		}
	}
	for _, v := range [][3]string{{"single", "Do", "hook-release"}, {"single", "Do", "bg-release"}, {"single", "Do", "hook-close"}, {"single", "Do", "bg-close"}, {"single", "DoMulti", "hook-release"}, {"single", "DoMulti", "bg-release"},
		{"sentinel", "Do", "bg-release"}, {"standalone", "Do", "hook-release"}, {"cluster", "Do", "hook-release"}, {"cluster", "Do", "bg-release"}, {"cluster", "DoMulti", "bg-close"}} {
		retryReleaseProbe(t, run, v[0], v[1], v[2], false)
	}
	retryReleaseProbe(t, run, "single", "Do", "bg-release", true)
	for _, topo := range []string{"single", "cluster"} {
		leakProbe(run, topo, false, false)
		leakProbe(run, topo, true, false)
	}
	leakProbe(run, "single", false, true)
	leakProbe(run, "sentinel", true, true)
	run.Observe("sessions", int64(total.sessions))
	run.Observe("sessions_via_Dedicated_fn", int64(total.viaFn))
	run.Observe("sessions_ended_by_Close", int64(total.closed))
	run.Observe("connections_reused_by_a_next_holder", int64(total.reused))
	run.Observe("dedicated_connections", int64(total.connections))
	run.Observe("exec_succeeded", int64(total.txOK))
	run.Observe("exec_aborted_by_watch", int64(total.txAbort))
	run.Observe("calls_after_release", int64(total.afterCalls))
	run.Observe("sessions_with_subscriptions", int64(total.subSessions))
	run.Observe("sessions_with_invalidation_callback", int64(total.invalSessions))
	run.Observe("sessions_abandoning_multi", int64(total.leftMulti))
	run.Observe("tracking_off_seen_before_next_holder", int64(total.trackingOffSeen))
	run.Observe("hook_messages", int64(total.hookMsgs))
	run.Observe("blocking_calls", int64(total.blocking))
	run.Observe("pipeline_calls", int64(total.pipeline))
	run.Observe("session_state_snapshots_checked", int64(total.sessionStateChecked))
	run.Require("sessions", "sessions_via_Dedicated_fn", "sessions_ended_by_Close", "connections_reused_by_a_next_holder", "exec_succeeded", "exec_aborted_by_watch", "calls_after_release",
		"sessions_with_subscriptions", "sessions_with_invalidation_callback", "tracking_off_seen_before_next_holder", "hook_messages", "blocking_calls", "pipeline_calls", "session_state_snapshots_checked", "leak_probe_runs", "retry_release_probes", "retry_release_hook_reached")
	_ = errors.New
	_ = rand.Int
}
