//go:build verif

// Package c29 checks property C29: DoStream / DoMultiStream write exactly each string / integer / float
// reply's payload to the writer, report nil and error replies as errors, take one WriteTo per command, and
// give the connection back to the pool exactly once after the last reply - closed first when a reply could
// not be consumed completely.
//
// Every case is one short history in a synctest bubble (virtual time, hang detection) against fakeredis.
// The server's log says which connection served which command and which connections are still open.
package c29

import (
	"bytes"
	"context"
	"errors"
	"fmt"
	"io"
	"math/rand"
	"runtime"
	"strconv"
	"strings"
	"testing"
	"time"

	"github.com/redis/rueidis"
	"verifh/drv"
	"verifh/fakeredis"
	"verifh/mon"
	"verifh/resp"
)

const addr = "127.0.0.1:6379"

type cmdSpec struct {
	kind    string // str | int | double | simple | stream | big | nil | err | arr | map
	key     string
	uid     string // what identifies the command in the server log (the key for GET, the uid argument for VERIF.ECHO)
	payload []byte // the bytes a faithful stream writes (kinds with a payload)
	errText string
}

func (c cmdSpec) hasPayload() bool {
	switch c.kind {
	case "nil", "err", "arr", "map":
		return false
	}
	return true
}

type opSpec struct {
	cmds        []cmdSpec
	multi       bool
	fault       string // "" | cut | closebefore | writer | deadline | killidle | cancelled | slowsetup
	faultAt     int
	k           int // cut after k reply bytes / writer accepts k bytes
	plainWriter bool
	blockingTag bool
}

// plainW is an io.Writer without ReadFrom; it can be told to fail after limit bytes.
type plainW struct {
	buf   []byte
	limit int // <0: never fails
	calls int
}

var errWriter = errors.New("c29: writer refuses more bytes")

func (w *plainW) Write(p []byte) (int, error) {
	w.calls++
	if w.limit >= 0 && len(w.buf)+len(p) > w.limit {
		n := w.limit - len(w.buf)
		if n < 0 {
			n = 0
		}
		w.buf = append(w.buf, p[:n]...)
		return n, errWriter
	}
	w.buf = append(w.buf, p...)
	return len(p), nil
}

type result struct {
	hasNextBefore bool
	n             int64
	err           error
	got           []byte
}

var alphabet = []byte("abcXYZ0159\r\n$*:+-_;?.,!=(%~>| ")

func genPayload(r *rand.Rand, n int) []byte {
	b := make([]byte, n)
	switch r.Intn(3) {
	case 0: // looks like protocol
		pat := []byte("\r\n$5\r\nhello\r\n*2\r\n:1\r\n-ERR x\r\n;4\r\n")
		off := r.Intn(len(pat))
		for i := range b {
			b[i] = pat[(i+off)%len(pat)]
		}
	case 1:
		for i := range b {
			b[i] = alphabet[r.Intn(len(alphabet))]
		}
	default:
		x := uint32(r.Int31())
		for i := range b {
			x = x*1664525 + 1013904223
			b[i] = byte(x >> 24)
		}
	}
	return b
}

var sizesSmall = []int{0, 0, 1, 2, 3, 5, 8, 13, 30, 31, 32, 33, 62, 63, 64, 65, 66, 100, 127, 128, 129, 200, 1000}
var sizesEdge = []int{4094, 4095, 4096, 4097, 4098, 32766, 32767, 32768, 32769, 65534, 65535, 65536, 65537, 524286, 524287, 524288, 524289, 524290}

type world struct {
	run    *mon.Run
	t      *testing.T
	id     int
	rng    *rand.Rand
	srv    *fakeredis.Server
	node   *fakeredis.Node
	client rueidis.Client
	resp2  bool
	rbuf   int
	seq    int
	pooled int64 // id of the idle streaming connection we expect to be reused, 0 = none
	dead   map[int64]string
	faults map[string]int
	desc   []string

	aborted   bool
	faultSeen string
}

func (w *world) newCmd(kind string, size int) cmdSpec {
	w.seq++
	uid := fmt.Sprintf("s%d.%d;", w.id, w.seq)
	c := cmdSpec{kind: kind, key: "k:" + uid, uid: uid}
	switch kind {
	case "str":
		c.payload = genPayload(w.rng, size)
		c.uid = c.key
		w.node.Exec("SET", c.key, string(c.payload))
	case "int":
		c.payload = []byte(strconv.FormatInt(fakeredis.EchoValue(uid, "int").I, 10))
	case "double":
		c.payload = []byte(fakeredis.EchoValue(uid, "double").S)
	case "simple", "stream", "big":
		c.payload = []byte(fakeredis.EchoValue(uid, kind).S)
	case "err":
		c.errText = fakeredis.EchoValue(uid, "err").S
	}
	return c
}

func (w *world) build(c cmdSpec, blocking bool) rueidis.Completed {
	if c.kind == "str" {
		if blocking {
			return w.client.B().Arbitrary("GET").Keys(c.key).Blocking()
		}
		return w.client.B().Get().Key(c.key).Build()
	}
	a := w.client.B().Arbitrary("VERIF.ECHO").Keys(c.key).Args(c.uid, c.kind)
	if blocking {
		return a.Blocking()
	}
	return a.ReadOnly()
}

// encodedLen is the number of bytes the reply of c occupies on the wire.
func (w *world) encodedLen(c cmdSpec) int {
	var v resp.V
	if c.kind == "str" {
		v = resp.Bulk(string(c.payload))
	} else {
		v = fakeredis.EchoValue(c.uid, c.kind)
	}
	if w.resp2 {
		v = resp.ToRESP2(v)
	} else if v.IsNull() {
		v = resp.Null()
	}
	return len(resp.Encode(nil, v))
}

func (w *world) pickKind() string {
	kinds := []string{"str", "str", "str", "str", "int", "double", "simple", "stream", "nil", "err", "big"}
	return kinds[w.rng.Intn(len(kinds))]
}

func (w *world) pickSize(allowHuge bool) int {
	switch x := w.rng.Intn(100); {
	case x < 60:
		return sizesSmall[w.rng.Intn(len(sizesSmall))]
	case x < 85:
		return w.rng.Intn(5000)
	case x < 97 || !allowHuge:
		return sizesEdge[w.rng.Intn(len(sizesEdge))]
	default:
		return 1 << 20
	}
}

func (w *world) connsOpen() map[int64]bool {
	m := map[int64]bool{}
	for _, id := range w.srv.Conns(addr) {
		m[id] = true
	}
	return m
}

func opKey(op opSpec) string {
	s := "DoStream"
	if op.multi {
		s = "DoMultiStream"
	}
	if op.fault != "" {
		s += "/" + op.fault
	}
	return s
}

func errStr(err error) string {
	if err == nil {
		return ""
	}
	return err.Error()
}

// runOp performs one streaming call and checks everything observable about it.
func (w *world) runOp(op opSpec) {
	run := w.run
	key := opKey(op)
	if w.faultSeen != "" {
		key += "|after=" + w.faultSeen // an earlier call of this case met that fault
	}
	defer func() {
		if op.fault != "" {
			w.faultSeen = op.fault
		}
	}()
	logFrom := w.srv.LogLen()
	openBefore := w.connsOpen()
	pooledBefore := w.pooled

	// faults on the server side
	switch op.fault {
	case "cut":
		w.srv.Plan(&fakeredis.Rule{Name: "cut", Match: fakeredis.MatchArg(op.cmds[op.faultAt].uid), Times: 1, Action: fakeredis.Action{CloseAfter: op.k}})
	case "closebefore":
		w.srv.Plan(&fakeredis.Rule{Name: "closebefore", Match: fakeredis.MatchArg(op.cmds[op.faultAt].uid), Times: 1, Action: fakeredis.Action{DelayBefore: 10 * time.Millisecond, Close: true, ExecFirst: op.k%2 == 1}}) // the delay lets earlier replies of the pipeline reach the client
	case "deadline":
		w.srv.Plan(&fakeredis.Rule{Name: "slow", Match: fakeredis.MatchArg(op.cmds[op.faultAt].uid), Times: 1, Action: fakeredis.Action{DelayReply: 3 * time.Second}})
	case "slowsetup":
		// the next new connection needs longer than the caller's deadline to get ready
		w.srv.Plan(&fakeredis.Rule{Name: "slowhello", Match: func(c *fakeredis.Conn, a []string) bool {
			return strings.EqualFold(a[0], "HELLO") || strings.EqualFold(a[0], "AUTH")
		}, Times: 1, Action: fakeredis.Action{DelayReply: 3 * time.Second}})
	case "killidle":
		if w.pooled != 0 {
			w.srv.Kill(w.pooled)
			time.Sleep(time.Millisecond)
		}
	}
	w.faults[op.fault]++

	ctx := context.Background()
	var cancel context.CancelFunc = func() {}
	switch op.fault {
	case "deadline", "slowsetup":
		ctx, cancel = context.WithTimeout(ctx, 500*time.Millisecond)
	case "cancelled":
		ctx, cancel = context.WithCancel(ctx)
		cancel()
	default:
		if w.rng.Intn(3) == 0 {
			ctx, cancel = context.WithTimeout(ctx, time.Minute)
		}
	}
	defer cancel()

	cmds := make([]rueidis.Completed, len(op.cmds))
	for i, c := range op.cmds {
		cmds[i] = w.build(c, op.blockingTag)
	}
	res := make([]result, len(op.cmds))
	var hasNextAfter bool
	var extraN, extra2N int64
	var extraErr, extra2Err error
	extra := &plainW{limit: -1}
	if !w.guard(key, func() {
		var st rueidis.RedisResultStream
		if op.multi {
			st = w.client.DoMultiStream(ctx, cmds...)
		} else {
			st = w.client.DoStream(ctx, cmds[0])
		}
		for i := range op.cmds {
			res[i].hasNextBefore = st.HasNext()
			var wr io.Writer
			var pw *plainW
			var bb *bytes.Buffer
			switch {
			case op.fault == "writer" && i == op.faultAt:
				pw = &plainW{limit: op.k}
				wr = pw
			case op.plainWriter:
				pw = &plainW{limit: -1}
				wr = pw
			default:
				bb = &bytes.Buffer{}
				wr = bb
			}
			res[i].n, res[i].err = st.WriteTo(wr)
			if pw != nil {
				res[i].got = pw.buf
			} else {
				res[i].got = bb.Bytes()
			}
		}
		hasNextAfter = st.HasNext()
		extraN, extraErr = st.WriteTo(extra)
		extra2N, extra2Err = st.WriteTo(extra)
	}) {
		return
	}

	time.Sleep(5 * time.Second) // virtual: lets the server notice closed connections (also past a delayed reply)
	w.srv.ClearPlan()

	// which connection(s) served this call
	served := map[int64]bool{}
	reached := map[string]bool{}
	for _, e := range w.srv.Log()[logFrom:] {
		if e.Kind != "recv" {
			continue
		}
		for _, c := range op.cmds {
			for _, a := range e.Argv[1:] {
				if a == c.uid {
					served[e.Conn] = true
					reached[c.uid] = true
				}
			}
		}
	}
	openAfter := w.connsOpen()

	wit := func(i int, extraKV map[string]any) map[string]any {
		m := map[string]any{"case": w.id, "history": w.desc, "resp2": w.resp2, "read_buffer": w.rbuf, "call": key, "commands": len(op.cmds), "fault_at": op.faultAt, "k": op.k, "plain_writer": op.plainWriter}
		if i >= 0 {
			c := op.cmds[i]
			m["index"] = i
			m["kind"] = c.kind
			m["payload_len"] = len(c.payload)
			m["written_len"] = len(res[i].got)
			m["n"] = res[i].n
			m["err"] = errStr(res[i].err)
			m["payload_head"] = drv.Hexs(drv.Trunc(c.payload, 48))
			m["written_head"] = drv.Hexs(drv.Trunc(res[i].got, 48))
			if d := firstDiff(c.payload, res[i].got); d >= 0 {
				m["first_difference_at"] = d
			}
		}
		for k, v := range extraKV {
			m[k] = v
		}
		return m
	}

	// ---- per command: bytes and errors
	broken := false // an earlier reply of this call could not be consumed
	if op.fault == "cancelled" || op.fault == "slowsetup" {
		broken = true
	}
	if op.fault == "killidle" && pooledBefore != 0 {
		broken = true
	}
	allClean := !broken
	maybeBroken := false // a writer refused bytes: the client may discard the rest and go on, or give the connection up
	for i, c := range op.cmds {
		r := res[i]
		faultHere := op.fault != "" && i == op.faultAt && (op.fault == "cut" || op.fault == "closebefore" || op.fault == "writer" || op.fault == "deadline")
		if op.fault == "writer" && i == op.faultAt && op.k >= len(c.payload) {
			faultHere = false // the writer's limit was never reached
		}
		if op.fault == "writer" && i == op.faultAt && !c.hasPayload() {
			faultHere = false
		}
		run.Case(fmt.Sprintf("%s|%s|size=%d|resp2=%v|rbuf=%d|fault=%s@%v|k=%s|plain=%v|pos=%s/%d|broken=%v", key, c.kind, sizeClass(len(c.payload)), w.resp2, w.rbuf, op.fault, faultHere, kClass(op.k, w.encodedLen(c)), op.plainWriter, posClass(i, len(op.cmds)), lenClass(len(op.cmds)), broken), true)
		if int64(len(r.got)) != r.n {
			run.Violation("n-differs-from-bytes-written", key+"|"+c.kind, wit(i, nil))
		}
		// never foreign bytes: whatever reached the writer is a prefix of this command's payload
		if !bytes.HasPrefix(c.payload, r.got) {
			run.Violation("wrong-bytes", key+"|"+c.kind+"|after-broken="+strconv.FormatBool(broken), wit(i, nil))
		}
		if op.fault == "cut" && i < op.faultAt && !broken && !okOutcome(c, r) && r.err != nil {
			// fakeredis counts the k bytes from what its writer has not yet picked up, so with a slow reader the cut
			// can fall into an earlier reply of the same pipeline: still a reply cut mid-way
			faultHere = true
			run.Observe("cut_fell_into_earlier_reply", 1)
		}
		switch {
		case maybeBroken && r.err != nil && len(r.got) == 0 && !okOutcome(c, r):
			// the stream was given up after the writer failure: allowed
			run.Observe("writeto_after_writer_failure_rejected", 1)
		case broken:
			// the stream is dead: nothing may be delivered any more, an error must be reported
			if r.err == nil {
				run.Violation("success-after-unconsumed-reply", key+"|"+c.kind, wit(i, nil))
			}
			if len(r.got) != 0 {
				run.Violation("bytes-after-unconsumed-reply", key+"|"+c.kind, wit(i, nil))
			}
			if r.hasNextBefore {
				run.Violation("hasnext-after-failure", key, wit(i, nil))
			}
			run.Observe("writeto_on_dead_stream", 1)
		case faultHere:
			if r.err == nil {
				run.Violation("fault-not-reported", key+"|"+c.kind, wit(i, nil))
			}
			if op.fault == "writer" && !errors.Is(r.err, errWriter) && r.err != nil {
				run.Observe("writer_error_replaced_by_other_error", 1)
			}
			if !r.hasNextBefore {
				run.Violation("hasnext-false-before-last", key, wit(i, nil))
			}
			if op.fault == "writer" {
				maybeBroken, allClean = true, false
			} else {
				broken, allClean = true, false
			}
			run.Observe("fault_"+op.fault+"_hit", 1)
		default:
			if !r.hasNextBefore && !maybeBroken {
				run.Violation("hasnext-false-before-last", key, wit(i, nil))
			}
			if maybeBroken {
				run.Observe("writeto_after_writer_failure_served", 1)
			}
			switch c.kind {
			case "nil":
				if !rueidis.IsRedisNil(r.err) {
					run.Violation("nil-not-reported", key, wit(i, nil))
				}
				run.Observe("nil_replies", 1)
			case "err":
				re, ok := rueidis.IsRedisErr(r.err)
				if !ok || re.Error() != c.errText {
					run.Violation("error-reply-not-reported", key, wit(i, map[string]any{"expected_error": c.errText}))
				}
				run.Observe("error_replies", 1)
			case "arr", "map":
				if r.err == nil {
					run.Violation("aggregate-not-reported", key, wit(i, nil))
				}
				run.Observe("aggregate_replies", 1)
			default:
				if r.err != nil || !bytes.Equal(r.got, c.payload) {
					run.Violation("payload-differs", key+"|"+c.kind, wit(i, nil))
				}
				run.Observe("payloads_exact", 1)
				run.Observe("payload_bytes", int64(len(c.payload)))
				if c.kind == "stream" {
					run.Observe("streamed_strings", 1)
				}
				if len(c.payload) >= 1<<20 {
					run.Observe("payloads_1MiB_or_more", 1)
				}
			}
		}
	}
	// ---- after the last reply
	if hasNextAfter {
		run.Violation("hasnext-after-last", key, wit(-1, nil))
	}
	_ = maybeBroken
	if len(extra.buf) != 0 || extraN != 0 || extra2N != 0 {
		run.Violation("extra-writeto-delivered-bytes", key, wit(-1, map[string]any{"extra_bytes": len(extra.buf)}))
	}
	if extraErr == nil || extra2Err == nil {
		run.Violation("extra-writeto-without-error", key, wit(-1, nil))
	}
	if allClean && op.fault == "" {
		if extraErr != io.EOF || extra2Err != io.EOF {
			run.Violation("no-eof-after-last", key, wit(-1, map[string]any{"extra_err": errStr(extraErr), "extra2_err": errStr(extra2Err)}))
		}
		run.Observe("eof_after_last", 1)
	}

	// ---- connection accounting
	if len(served) > 1 {
		run.Violation("call-spread-over-connections", key, wit(-1, map[string]any{"connections": keys(served)}))
	}
	var id int64
	for c := range served {
		id = c
	}
	for c := range served {
		if why, ok := w.dead[c]; ok {
			run.Violation("closed-connection-reused", key, wit(-1, map[string]any{"connection": c, "closed_because": why}))
		}
	}
	hadAggregate := false
	for _, c := range op.cmds {
		if c.kind == "arr" || c.kind == "map" {
			hadAggregate = true
		}
	}
	switch {
	case id == 0:
		// the call never reached the server (cancelled context, dead idle connection, failed setup)
		if pooledBefore != 0 && op.fault == "killidle" {
			w.dead[pooledBefore] = "killed while idle"
			w.pooled = 0
		}
		if op.fault == "" {
			run.Violation("call-never-reached-server", key, wit(-1, nil))
		}
	case allClean && !hadAggregate:
		if pooledBefore != 0 && id != pooledBefore {
			run.Violation("idle-connection-not-reused", key, wit(-1, map[string]any{"idle": pooledBefore, "used": id}))
		}
		if pooledBefore != 0 && id == pooledBefore {
			run.Observe("connections_reused", 1)
		}
		if !openAfter[id] {
			run.Violation("connection-closed-after-clean-stream", key, wit(-1, map[string]any{"connection": id}))
		}
		grow := len(openAfter) - len(openBefore)
		if (pooledBefore != 0 && grow != 0) || grow > 1 {
			run.Violation("connections-grow", key, wit(-1, map[string]any{"open_before": keys(openBefore), "open_after": keys(openAfter)}))
		}
		w.pooled = id
	case maybeBroken && !broken:
		// the rest of the refused payload may be discarded and the connection kept, or the connection given up
		if openAfter[id] {
			w.pooled = id
			run.Observe("writer_failure_then_connection_kept", 1)
		} else {
			w.dead[id] = "writer failure"
			w.pooled = 0
			run.Observe("unconsumed_connections_closed", 1)
		}
	case allClean && hadAggregate:
		// rueidis reads the whole aggregate, so keeping the connection is legitimate; closing it as well
		if openAfter[id] {
			w.pooled = id
			run.Observe("aggregate_then_connection_kept", 1)
		} else {
			w.dead[id] = "aggregate reply"
			w.pooled = 0
		}
	default:
		// a reply was not consumed: the server must see the connection closed, and it is never used again
		if openAfter[id] {
			run.Violation("unconsumed-connection-left-open", key, wit(-1, map[string]any{"connection": id, "open_after": keys(openAfter)}))
		} else {
			run.Observe("unconsumed_connections_closed", 1)
		}
		w.dead[id] = op.fault
		w.pooled = 0
	}
}

// okOutcome says whether r is the faithful outcome of c on a healthy stream.
func okOutcome(c cmdSpec, r result) bool {
	switch c.kind {
	case "nil":
		return rueidis.IsRedisNil(r.err)
	case "err":
		re, ok := rueidis.IsRedisErr(r.err)
		return ok && re.Error() == c.errText
	case "arr", "map":
		return r.err != nil && strings.Contains(r.err.Error(), "unsupported")
	}
	return r.err == nil && bytes.Equal(r.got, c.payload)
}

// guard runs a piece of client code in its own goroutine and gives it an hour of virtual time. When it is still
// blocked then, the call hangs: reported with the stacks, and the case is abandoned (the bubble's main goroutine
// must never block for ever).
func (w *world) guard(key string, fn func()) bool {
	done := make(chan struct{})
	var pv any
	go func() {
		defer close(done)
		defer func() { pv = recover() }()
		fn()
	}()
	tm := time.NewTimer(time.Hour)
	defer tm.Stop()
	select {
	case <-done:
		if pv != nil {
			panic(pv)
		}
		return true
	case <-tm.C:
	}
	buf := make([]byte, 1<<20)
	buf = buf[:runtime.Stack(buf, true)]
	var keep []string
	for _, g := range strings.Split(string(buf), "\n\n") {
		if strings.Contains(g, "/repo/") && strings.Contains(g, "c29_test.go") {
			keep = append(keep, g)
		}
	}
	var faults []string
	for f, n := range w.faults {
		if f != "" && n > 0 {
			faults = append(faults, f)
		}
	}
	w.run.Violation("hang", key+"|faults-in-case="+strings.Join(faults, "+"), map[string]any{"case": w.id, "history": w.desc, "blocked_for": "1h of virtual time", "rueidis_frames": drv.RueidisFrames(strings.Join(keep, "\n\n")), "stacks": drv.Tail(strings.Join(keep, "\n\n"), 6000)})
	w.aborted = true
	return false
}

func keys(m map[int64]bool) []int64 {
	var ks []int64
	for k := range m {
		ks = append(ks, k)
	}
	return ks
}

func firstDiff(want, got []byte) int {
	for i := range got {
		if i >= len(want) || want[i] != got[i] {
			return i
		}
	}
	return -1
}

func sizeClass(n int) int {
	switch {
	case n <= 66:
		return n
	case n < 4094:
		return 1000
	case n <= 4098:
		return n
	case n < 32766:
		return 10000
	case n <= 32769:
		return n
	case n < 65534:
		return 50000
	case n <= 65537:
		return n
	case n < 524286:
		return 100000
	case n <= 524290:
		return n
	}
	return 1 << 20
}

func kClass(k, enc int) string {
	switch {
	case k <= 8:
		return strconv.Itoa(k)
	case k >= enc-3:
		return "tail" + strconv.Itoa(enc-k)
	}
	return "mid"
}

func posClass(i, n int) string {
	switch {
	case n == 1:
		return "only"
	case i == 0:
		return "first"
	case i == n-1:
		return "last"
	}
	return "middle"
}

func lenClass(n int) int {
	if n > 4 {
		return 5
	}
	return n
}

// probePool opens as many streams at once as the pool has room for: every slot must still be usable
// (a connection returned twice, or never, shows here), on pairwise different connections.
func (w *world) probePool(cap int) {
	run := w.run
	key := "pool-probe"
	var faults []string
	for f, n := range w.faults {
		if f != "" && n > 0 {
			faults = append(faults, f)
		}
	}
	if len(faults) > 0 {
		key += "/after-" + strings.Join(faults, "+")
	}
	logFrom := w.srv.LogLen()
	type open struct {
		c  cmdSpec
		st rueidis.RedisResultStream
	}
	var os []open
	cancels := []context.CancelFunc{}
	for i := 0; i < cap; i++ {
		c := w.newCmd("str", 40+i)
		ctx, cancel := context.WithTimeout(context.Background(), time.Second)
		cancels = append(cancels, cancel)
		var st rueidis.RedisResultStream
		if !w.guard(key, func() { st = w.client.DoStream(ctx, w.build(c, false)) }) {
			return
		}
		os = append(os, open{c: c, st: st})
	}
	conns := map[string]int64{}
	for _, e := range w.srv.Log()[logFrom:] {
		if e.Kind == "recv" && len(e.Argv) == 2 {
			conns[e.Argv[1]] = e.Conn
		}
	}
	seen := map[int64]string{}
	for i, o := range os {
		var bb bytes.Buffer
		var err error
		if !w.guard(key, func() { _, err = o.st.WriteTo(&bb) }) {
			return
		}
		cancels[i]()
		wit := map[string]any{"case": w.id, "history": w.desc, "pool_size": cap, "probe_stream": i, "err": errStr(err), "faults_in_case": faults}
		if err != nil {
			if errors.Is(err, context.DeadlineExceeded) {
				run.Violation("pool-slot-lost", key, wit) // no connection could be had within a second although nothing is in use
			} else {
				run.Violation("probe-stream-failed", key, wit)
			}
			continue
		}
		if !bytes.Equal(bb.Bytes(), o.c.payload) {
			run.Violation("wrong-bytes", key, wit)
		}
		id := conns[o.c.key]
		if prev, dup := seen[id]; dup {
			wit["shared_with"] = prev
			wit["connection"] = id
			run.Violation("connection-held-by-two-streams", key, wit)
		}
		if why, ok := w.dead[id]; ok {
			wit["closed_because"] = why
			run.Violation("closed-connection-reused", key, wit)
		}
		seen[id] = o.c.key
		run.Observe("pool_probe_streams", 1)
	}
	run.Case(fmt.Sprintf("pool-probe|cap=%d|faults=%v", cap, faults), true)
}

func (w *world) genOp(faultKind string, withFault bool) opSpec {
	op := opSpec{plainWriter: w.rng.Intn(2) == 0}
	n := 1
	if w.rng.Intn(2) == 0 {
		op.multi = true
		switch x := w.rng.Intn(10); {
		case x < 6:
			n = 1 + w.rng.Intn(4)
		case x < 9:
			n = 5 + w.rng.Intn(8)
		default:
			n = 20
		}
	}
	huge := n <= 2
	for i := 0; i < n; i++ {
		k := w.pickKind()
		if w.rng.Intn(40) == 0 {
			k = []string{"arr", "map"}[w.rng.Intn(2)]
		}
		op.cmds = append(op.cmds, w.newCmd(k, w.pickSize(huge)))
	}
	if !withFault {
		return op
	}
	op.fault = faultKind
	op.faultAt = w.rng.Intn(n)
	if w.rng.Intn(3) == 0 {
		op.faultAt = 0
	}
	c := &op.cmds[op.faultAt]
	switch faultKind {
	case "cut":
		enc := w.encodedLen(*c)
		switch w.rng.Intn(4) {
		case 0:
			op.k = 1 + w.rng.Intn(min(enc-1, 6))
		case 1:
			op.k = enc - 1 - w.rng.Intn(min(enc-1, 3))
		default:
			op.k = 1 + w.rng.Intn(enc-1)
		}
	case "closebefore":
		op.k = w.rng.Intn(2)
	case "writer":
		// needs a payload worth failing on
		if !c.hasPayload() || len(c.payload) == 0 {
			*c = w.newCmd("str", 1+w.pickSize(huge))
		}
		// make what follows big enough that a reader which over-discards stays fed
		if op.multi && op.faultAt+1 < n && w.rng.Intn(2) == 0 {
			op.cmds[op.faultAt+1] = w.newCmd("str", 70000+w.rng.Intn(70000))
			if len(c.payload) < 40000 {
				*c = w.newCmd("str", 40000+w.rng.Intn(60000))
			}
		}
		switch w.rng.Intn(4) {
		case 0:
			op.k = 0
		case 1:
			op.k = len(c.payload) - 1
		default:
			op.k = w.rng.Intn(len(c.payload))
		}
		if w.rng.Intn(8) == 0 {
			op.blockingTag = true
		}
	}
	return op
}

func describe(op opSpec) string {
	var sb strings.Builder
	sb.WriteString(opKey(op))
	sb.WriteString("[")
	for i, c := range op.cmds {
		if i > 0 {
			sb.WriteByte(' ')
		}
		if i > 6 {
			fmt.Fprintf(&sb, "...+%d", len(op.cmds)-i)
			break
		}
		fmt.Fprintf(&sb, "%s:%d", c.kind, len(c.payload))
	}
	fmt.Fprintf(&sb, "]")
	if op.fault != "" {
		fmt.Fprintf(&sb, " fault@%d k=%d", op.faultAt, op.k)
	}
	if op.blockingTag {
		sb.WriteString(" blocking-tagged")
	}
	return sb.String()
}

var faultKinds = []string{"cut", "closebefore", "writer", "deadline", "killidle", "cancelled", "slowsetup", ""}

func runCase(t *testing.T, run *mon.Run, idx int, seed int64, huge bool) {
	rng := rand.New(rand.NewSource(seed))
	fk := faultKinds[idx%len(faultKinds)]
	w := &world{run: run, t: t, id: idx, rng: rng, dead: map[int64]string{}, faults: map[string]int{}}
	w.resp2 = idx%5 == 3
	w.rbuf = []int{0, 64, 4096, 0, 100, 65536}[idx%6]
	const poolCap = 2
	dl, stacks := drv.Bubble(t, func() {
		defer func() {
			if p := recover(); p != nil {
				run.Violation("panic", "fault="+fk, map[string]any{"case": idx, "history": w.desc, "panic": fmt.Sprint(p)})
			}
		}()
		w.srv = fakeredis.New(fakeredis.Options{Seed: seed, ChunkWrites: idx%2 == 0}, addr)
		defer w.srv.Close()
		w.node = w.srv.Node(addr)
		opt := drv.Option(w.srv, addr)
		opt.ForceSingleClient = true
		opt.PipelineMultiplex = -1
		opt.BlockingPoolSize = poolCap
		opt.ReadBufferEachConn = w.rbuf
		if w.resp2 {
			opt.AlwaysRESP2, opt.DisableCache = true, true
		}
		cl, err := rueidis.NewClient(opt)
		if err != nil {
			run.Inconclusive("client: " + err.Error())
			return
		}
		w.client = cl
		defer func() {
			// a stuck call must not keep the bubble alive: close the client from a goroutine, the deferred server
			// shutdown then cuts whatever is left
			go cl.Close()
			time.Sleep(2 * time.Second)
		}()
		nops := 4 + rng.Intn(5)
		for i := 0; i < nops; i++ {
			withFault := fk != "" && (i == 1 || rng.Intn(3) == 0)
			if fk == "slowsetup" {
				withFault = w.pooled == 0 && (i == 0 || rng.Intn(2) == 0) // only a new connection goes through setup
			}
			op := w.genOp(fk, withFault)
			if huge && i == 0 {
				op = opSpec{cmds: []cmdSpec{w.newCmd("str", 8<<20)}, plainWriter: idx%2 == 0}
			}
			w.desc = append(w.desc, describe(op))
			w.runOp(op)
			if w.aborted {
				return
			}
		}
		w.desc = append(w.desc, "pool-probe")
		w.probePool(poolCap)
	})
	if dl != "" {
		run.Violation("hang", "fault="+fk+"|last="+lastOf(w.desc), map[string]any{"case": idx, "history": w.desc, "synctest": dl, "rueidis_frames": drv.RueidisFrames(stacks), "stacks": drv.Tail(stacks, 12000)})
	}
	if idx < 6 {
		run.Sample(map[string]any{"case": idx, "fault_kind": fk, "resp2": w.resp2, "read_buffer": w.rbuf, "history": w.desc})
	}
}

func lastOf(d []string) string {
	if len(d) == 0 {
		return ""
	}
	s := d[len(d)-1]
	if i := strings.IndexByte(s, '['); i > 0 {
		s = s[:i]
	}
	return s
}

func TestC29(t *testing.T) {
	run := mon.Start(t, "C29", "fault_enumeration",
		"per case one client (pool of 2 streaming connections; RESP3/RESP2; read buffer 64 B..512 KiB; server writes chunked or not) and 4-8 DoStream / DoMultiStream(1-20) calls over reply kinds string (0 B..8 MiB incl. buffer-boundary sizes, protocol-looking bytes) / integer / double / simple / streamed string / nil / error / aggregate, "+
			"with one fault kind per case: reply cut after k bytes, connection closed before the reply, writer failing after k bytes, context deadline before the reply, idle connection killed, context already cancelled, connection setup slower than the deadline; a pool probe ends every case; "+
			"a case = (call kind, reply kind, size class, fault and its position, writer kind, position in the pipeline)")
	defer run.Finish()
	run.Assume("fakeredis logs which connection received which command and which connections are open", "writers honour the io.Writer contract (a short write comes with an error)")
	rueidis.VerifSetQueueType("flowbuffer")
	defer rueidis.VerifSetQueueType("")
	n := run.N(700, 12000)
	base := run.Rand("cases").Int63()
	for i := 0; i < n; i++ {
		runCase(t, run, i, base+int64(i)*7919, i%97 == 5)
	}
	run.Require("payloads_exact", "streamed_strings", "nil_replies", "error_replies", "connections_reused", "unconsumed_connections_closed", "eof_after_last", "payloads_1MiB_or_more",
		"fault_cut_hit", "fault_closebefore_hit", "fault_writer_hit", "fault_deadline_hit", "writeto_on_dead_stream", "pool_probe_streams", "aggregate_replies")
}
