// Package c09 checks single-flight behaviour of the client-side cache on one connection: while a cached read of a
// command is in flight, other cached reads of the same command send no request and get that request's reply or
// error; a failed / aborted request wakes every waiter with an error and leaves nothing cached.
package c09

import (
	"context"
	"fmt"
	"math/rand"
	"os"
	"sort"
	"strings"
	"sync"
	"testing"
	"testing/synctest"
	"time"

	"github.com/redis/rueidis"
	"verifh/drv"
	"verifh/fakeredis"
	"verifh/mon"
)

const addr = "127.0.0.1:6379"

type simpleMap struct {
	mu sync.Mutex
	m  map[string]rueidis.RedisMessage
}

func (s *simpleMap) Get(key string) rueidis.RedisMessage {
	s.mu.Lock()
	defer s.mu.Unlock()
	return s.m[key]
}
func (s *simpleMap) Set(key string, val rueidis.RedisMessage) {
	s.mu.Lock()
	s.m[key] = val
	s.mu.Unlock()
}
func (s *simpleMap) Del(key string) { s.mu.Lock(); delete(s.m, key); s.mu.Unlock() }
func (s *simpleMap) Flush()         { s.mu.Lock(); s.m = map[string]rueidis.RedisMessage{}; s.mu.Unlock() }

// ident is the cache identity of a single-key read: GET key [extra]. "GET k x" is a malformed GET (arity error when queued).
type ident struct{ key, extra string }

func (i ident) String() string {
	if i.extra != "" {
		return "GET " + i.key + " " + i.extra
	}
	return "GET " + i.key
}

const (
	kGet   = iota // DoCache(GET k)
	kMulti        // DoMultiCache(GET ..., GET ...)
	kMGet         // DoCache(MGET ...)
)

type call struct {
	kind   int
	ids    []ident
	static bool
	owner  bool
	ttl    time.Duration // client-side TTL of the call (default 1 h)
	joined string        // long-flight mode: when the call was issued relative to the owner's TTL instant

	// outcome
	vals    []string
	errs    []error
	started int64
	done    int64
}

func (c *call) String() string {
	n := []string{"DoCache", "DoMultiCache", "DoCache(MGET)"}[c.kind]
	var ks []string
	for _, i := range c.ids {
		ks = append(ks, i.String())
	}
	s := fmt.Sprintf("%s[%s]", n, strings.Join(ks, ", "))
	if c.static {
		s += "+static"
	}
	return s
}

const (
	mOK         = "ok"
	mAbort      = "exec-abort"      // EXEC answers a nil array (WATCH-style abort)
	mQueueErr   = "queue-error"     // the command is refused when queued -> EXECABORT
	mExecErr    = "exec-error"      // the command fails inside EXEC (WRONGTYPE): an error *reply*, only equality is demanded
	mStaticErr  = "static-error"    // static-TTL wire: the command's own reply is an error
	mKill       = "disconnect-kill" // connection dropped while the request is pending
	mCloseExec  = "disconnect-at-exec"
	mCloseMid   = "disconnect-mid-reply"
	mCtx        = "owner-ctx-cancelled"
	mLong       = "flight-longer-than-ttl" // the held request stays in flight for 2x-10x the client TTL; joiners arrive before, at and after the TTL instant
	sSame       = "same-command"
	sMultiDups  = "multicache-dups"
	sMGetOverlp = "mget-overlap"
)

type scenario struct {
	id      int
	store   string
	shape   string
	mode    string
	stagger bool
	static  bool
	n       int
	prepop  bool
	ttl     time.Duration // mLong: client TTL of every call
	holdX   int           // mLong: the request is held for holdX * ttl
	seed    int64
}

func (sc scenario) String() string {
	return fmt.Sprintf("#%d store=%s shape=%s mode=%s staggered=%v static=%v callers=%d prepopulated=%v seed=%d", sc.id, sc.store, sc.shape, sc.mode, sc.stagger, sc.static, sc.n, sc.prepop, sc.seed)
}

func val(k string) string { return "val:" + k }

func mkCacheable(c rueidis.Client, i ident, static bool) rueidis.Cacheable {
	var cc rueidis.Cacheable
	if i.extra == "" {
		cc = c.B().Get().Key(i.key).Cache()
	} else {
		cc = rueidis.Cacheable(c.B().Arbitrary("GET").Keys(i.key).Args(i.extra).ReadOnly())
	}
	if static {
		cc = cc.ToStaticTTL()
	}
	return cc
}

func doCall(ctx context.Context, client rueidis.Client, c *call) {
	ttl := time.Hour
	if c.ttl > 0 {
		ttl = c.ttl
	}
	c.started = mon.Stamp()
	c.vals = make([]string, len(c.ids))
	c.errs = make([]error, len(c.ids))
	put := func(i int, r rueidis.RedisResult) {
		m, err := r.ToMessage()
		if err != nil && !rueidis.IsRedisNil(err) {
			c.errs[i] = err
			return
		}
		if m.IsNil() {
			c.vals[i] = "<nil>"
		} else {
			c.vals[i], c.errs[i] = m.ToString()
		}
	}
	switch c.kind {
	case kGet:
		put(0, client.DoCache(ctx, mkCacheable(client, c.ids[0], c.static), ttl))
	case kMulti:
		cts := make([]rueidis.CacheableTTL, len(c.ids))
		for i, id := range c.ids {
			cts[i] = rueidis.CT(mkCacheable(client, id, c.static), ttl)
		}
		for i, r := range client.DoMultiCache(ctx, cts...) {
			put(i, r)
		}
	case kMGet:
		ks := make([]string, len(c.ids))
		for i, id := range c.ids {
			ks[i] = id.key
		}
		arr, err := client.DoCache(ctx, client.B().Mget().Key(ks...).Cache(), ttl).ToArray()
		for i := range c.ids {
			switch {
			case err != nil:
				c.errs[i] = err
			case i >= len(arr):
				c.errs[i] = fmt.Errorf("MGET reply has %d elements", len(arr))
			case arr[i].IsNil():
				c.vals[i] = "<nil>"
			default:
				c.vals[i], c.errs[i] = arr[i].ToString()
			}
		}
	}
	c.done = mon.Stamp()
}

// ---- what the server saw

type txn struct {
	conn    int64
	ids     []ident
	direct  bool   // not inside MULTI (static-TTL wire)
	outcome string // ok | null | error | none (no reply was produced: connection gone)
}

type wireView struct {
	requests map[ident]int
	txns     []*txn
}

func view(log []fakeredis.Event) wireView {
	v := wireView{requests: map[ident]int{}}
	type cs struct {
		inMulti bool
		cur     *txn
		direct  *txn
	}
	conns := map[int64]*cs{}
	for _, e := range log {
		if e.Conn == 0 || len(e.Argv) == 0 {
			continue
		}
		c := conns[e.Conn]
		if c == nil {
			c = &cs{}
			conns[e.Conn] = c
		}
		name := strings.ToUpper(e.Argv[0])
		switch e.Kind {
		case "recv":
			switch name {
			case "MULTI":
				c.inMulti = true
				c.cur = &txn{conn: e.Conn, outcome: "none"}
				v.txns = append(v.txns, c.cur)
			case "GET", "MGET":
				var ids []ident
				if name == "GET" {
					id := ident{key: e.Argv[1]}
					if len(e.Argv) > 2 {
						id.extra = strings.Join(e.Argv[2:], " ")
					}
					ids = []ident{id}
				} else {
					for _, k := range e.Argv[1:] {
						ids = append(ids, ident{key: k})
					}
				}
				for _, id := range ids {
					v.requests[id]++
				}
				if c.inMulti && c.cur != nil {
					c.cur.ids = append(c.cur.ids, ids...)
				} else {
					c.direct = &txn{conn: e.Conn, ids: ids, direct: true, outcome: "none"}
					v.txns = append(v.txns, c.direct)
				}
			case "EXEC":
				c.inMulti = false
			}
		case "exec":
			switch {
			case name == "EXEC" && c.cur != nil:
				switch {
				case e.Reply.Null2:
					c.cur.outcome = "null"
				case e.Reply.T == '-' || e.Reply.T == '!':
					c.cur.outcome = "error"
				default:
					c.cur.outcome = "ok"
				}
			case (name == "GET" || name == "MGET") && c.direct != nil && !c.inMulti && c.direct.outcome == "none":
				if e.Reply.T == '-' || e.Reply.T == '!' {
					c.direct.outcome = "error"
				} else {
					c.direct.outcome = "ok"
				}
			}
		case "reply":
			// an arity error of a queued command is answered without an exec event; EXEC then answers EXECABORT (seen above)
		}
	}
	return v
}

func runScenario(t *testing.T, run *mon.Run, sc scenario) {
	rng := rand.New(rand.NewSource(sc.seed))
	s := fakeredis.New(fakeredis.Options{Seed: sc.seed}, addr)
	defer func() { await(time.Hour, s.Close) }()
	node := s.Node(addr)
	keys := []string{"a", "b", "c", "d", "e"}
	for _, k := range keys {
		node.Exec("SET", k, val(k))
	}
	badKey := ""
	if sc.mode == mExecErr || sc.mode == mStaticErr {
		badKey = "a"
		node.Exec("DEL", "a")
		node.Exec("HSET", "a", "f", "v") // GET a -> WRONGTYPE
	}

	opt := drv.Option(s, addr)
	opt.ForceSingleClient = true
	opt.PipelineMultiplex = -1 // one wire
	opt.DisableRetry = true
	opt.Dialer.KeepAlive = -1
	if sc.store == "adapter" {
		opt.NewCacheStoreFn = func(rueidis.CacheStoreOption) rueidis.CacheStore {
			return rueidis.NewSimpleCacheAdapter(&simpleMap{m: map[string]rueidis.RedisMessage{}})
		}
	}
	client, err := rueidis.NewClient(opt)
	if err != nil {
		run.Inconclusive("client setup failed: " + err.Error())
		return
	}
	defer func() { await(time.Hour, client.Close) }()
	bg := context.Background()
	// the bubble's main goroutine never blocks for ever on the client: every wait is bounded in virtual time, which can
	// only run out when all goroutines are durably blocked (there are no periodic timers here)
	hung := func(what string) {
		stacks := bubbleStacks()
		run.Violation("hang", fmt.Sprintf("%s/%s/%s", sc.store, sc.shape, sc.mode), map[string]any{"scenario": sc.String(), "what": what, "rueidis_frames": drv.RueidisFrames(stacks), "stacks": drv.Tail(stacks, 12000)})
	}

	violation := func(class, key string, w map[string]any) {
		w["scenario"] = sc.String()
		run.Violation(class, fmt.Sprintf("%s/%s/%s/%s", sc.store, sc.shape, sc.mode, key), w)
	}

	// ---- optional warm entry: reads of it are hits and never touch the wire
	hit := map[ident]bool{}
	if sc.prepop {
		pre := &call{kind: kGet, ids: []ident{{key: "d"}}}
		if !await(time.Hour, func() { doCall(bg, client, pre) }) {
			hung("warm-up read never returned")
			return
		}
		if pre.errs[0] != nil || pre.vals[0] != val("d") {
			run.Inconclusive("prepopulation failed")
			return
		}
		hit[ident{key: "d"}] = true
		synctest.Wait()
	}
	start := s.LogLen()

	// ---- the calls of the window
	extra := ""
	if sc.mode == mQueueErr {
		extra = "x" // GET a x: refused at queue time
	}
	A := ident{key: "a", extra: extra}
	pick := func(n int, dups bool) []ident {
		var out []ident
		pool := []ident{A, {key: "b"}, {key: "c"}, {key: "d"}}
		if dups {
			for i := 0; i < n; i++ {
				out = append(out, pool[rng.Intn(len(pool))])
			}
			return out
		}
		for _, p := range rng.Perm(len(pool))[:min(n, len(pool))] {
			out = append(out, pool[p])
		}
		return out
	}
	var calls []*call
	switch sc.shape {
	case sSame:
		for i := 0; i < sc.n; i++ {
			calls = append(calls, &call{kind: kGet, ids: []ident{A}, static: sc.static})
		}
	case sMultiDups:
		calls = append(calls, &call{kind: kMulti, ids: []ident{A, {key: "b"}, A}, static: sc.static})
		for i := 1; i < sc.n; i++ {
			if rng.Intn(4) == 0 {
				calls = append(calls, &call{kind: kGet, ids: []ident{[]ident{A, {key: "b"}}[rng.Intn(2)]}, static: sc.static})
			} else {
				calls = append(calls, &call{kind: kMulti, ids: pick(1+rng.Intn(5), true), static: sc.static})
			}
		}
	case sMGetOverlp:
		calls = append(calls, &call{kind: kMGet, ids: []ident{{key: "a"}, {key: "b"}}})
		for i := 1; i < sc.n; i++ {
			switch rng.Intn(5) {
			case 0:
				calls = append(calls, &call{kind: kGet, ids: []ident{{key: []string{"a", "b", "c"}[rng.Intn(3)]}}})
			case 1:
				calls = append(calls, &call{kind: kMulti, ids: pick(1+rng.Intn(3), true)})
			default:
				calls = append(calls, &call{kind: kMGet, ids: pick(1+rng.Intn(4), false)})
			}
		}
	}
	calls[0].owner = true

	// ---- fault plan: the first cached request on the wire is held until the others have arrived
	stall := s.Plan(&fakeredis.Rule{Name: "hold-first-fetch", Times: 1, Match: func(c *fakeredis.Conn, a []string) bool {
		if len(a) >= 2 && strings.EqualFold(a[0], "CLIENT") && strings.EqualFold(a[1], "CACHING") {
			if sc.mode == mAbort {
				c.AbortNextExec = true
			}
			return true
		}
		return false
	}, Action: fakeredis.Action{Stall: true}})
	switch sc.mode {
	case mCloseExec:
		if sc.static {
			s.Plan(&fakeredis.Rule{Name: "close", Match: fakeredis.MatchCmd("GET"), Times: 1, Action: fakeredis.Action{Close: true}})
		} else {
			s.Plan(&fakeredis.Rule{Name: "close", Match: fakeredis.MatchCmd("EXEC"), Times: 1, Action: fakeredis.Action{Close: true}})
		}
	case mCloseMid:
		if sc.static {
			s.Plan(&fakeredis.Rule{Name: "cut", Match: fakeredis.MatchCmd("GET"), Times: 1, Action: fakeredis.Action{CloseAfter: 3}})
		} else {
			s.Plan(&fakeredis.Rule{Name: "cut", Match: fakeredis.MatchCmd("EXEC"), Times: 1, Action: fakeredis.Action{CloseAfter: 3}})
		}
	}

	ownerCtx, cancelOwner := context.WithCancel(bg)
	defer cancelOwner()
	var wg sync.WaitGroup
	launch := func(c *call) {
		wg.Add(1)
		go func() {
			defer wg.Done()
			ctx := bg
			if c.owner && sc.mode == mCtx {
				ctx = ownerCtx
			}
			doCall(ctx, client, c)
		}()
	}
	if sc.mode == mLong {
		// the owner's request is held for holdX*ttl of virtual time; joiners are issued before the owner's TTL instant
		// (t0+ttl), exactly at it, and after it. A pending entry must keep collecting them: its request is still in flight.
		for _, c := range calls {
			c.ttl = sc.ttl
		}
		t0 := time.Now()
		launch(calls[0])
		synctest.Wait()
		if s.RuleFired(stall) != 1 {
			run.Inconclusive("the first fetch never reached the server")
			s.Resume()
			await(time.Hour, wg.Wait)
			return
		}
		at := []struct {
			name string
			off  time.Duration
		}{{"before-ttl", 0}, {"before-ttl", sc.ttl / 2}, {"at-ttl", sc.ttl}, {"after-ttl", sc.ttl + time.Millisecond}, {"after-ttl", sc.ttl * 3 / 2}, {"after-ttl", sc.ttl*time.Duration(sc.holdX) - time.Millisecond}}
		// spread the other calls over the instants; there is always one joiner after the TTL instant and (with 3+ callers) one before it
		slots := make([][]*call, len(at))
		perm := rng.Perm(len(at))
		for i, c := range calls[1:] {
			k := perm[i%len(at)]
			if i == 0 {
				k = 3 + rng.Intn(3)
			} else if i == 1 {
				k = rng.Intn(2)
			}
			slots[k] = append(slots[k], c)
		}
		for k, a := range at {
			if d := a.off - time.Since(t0); d > 0 {
				time.Sleep(d)
			}
			for _, c := range slots[k] {
				c.joined = a.name
				launch(c)
				run.Observe("long_flight_joiners_"+a.name, 1)
			}
			synctest.Wait()
		}
		if d := sc.ttl*time.Duration(sc.holdX) - time.Since(t0); d > 0 {
			time.Sleep(d)
		}
		run.Observe("long_flight_windows", 1)
	} else if sc.stagger {
		launch(calls[0])
		synctest.Wait()
		if s.RuleFired(stall) != 1 {
			run.Inconclusive("the first fetch never reached the server")
			s.Resume()
			await(time.Hour, wg.Wait)
			return
		}
		for _, c := range calls[1:] {
			launch(c)
		}
	} else {
		for _, c := range calls {
			launch(c)
		}
	}
	synctest.Wait() // every caller is parked: the owner on its request, the others on the pending entry (or their own queued request)
	if s.RuleFired(stall) != 1 {
		run.Inconclusive("the first fetch never reached the server")
		s.Resume()
		await(time.Hour, wg.Wait)
		return
	}
	for _, c := range calls {
		if c.done != 0 {
			allHit := true
			for _, id := range c.ids {
				allHit = allHit && hit[id]
			}
			if !allHit {
				violation("returned-while-pending", c.String(), map[string]any{"what": "a call returned although the request it depends on is still held by the server", "vals": c.vals, "errs": fmt.Sprint(c.errs)})
			}
		}
	}
	switch sc.mode {
	case mKill:
		s.KillAll(addr)
	case mCtx:
		cancelOwner()
		synctest.Wait()
		s.Resume()
	default:
		s.Resume()
	}
	if !await(time.Hour, wg.Wait) {
		var stuck []string
		for _, c := range calls {
			if c.done == 0 {
				stuck = append(stuck, c.String())
			}
		}
		if sc.mode == mLong { // say what the server saw: a duplicate request usually comes with the orphaned waiters
			hung(fmt.Sprintf("the request was held for %d x ttl (%v) and then answered; these calls never returned: %v; requests seen by the server: %v", sc.holdX, sc.ttl, stuck, view(s.Log()[start:]).requests))
			return
		}
		hung(fmt.Sprintf("after the held request was released / failed (%s) these calls never returned: %v", sc.mode, stuck))
		return
	}
	synctest.Wait()

	// ---- evaluate the window from the server's log
	w := view(s.Log()[start:])
	failed := map[ident]bool{}
	disconnect := sc.mode == mKill || sc.mode == mCloseExec || sc.mode == mCloseMid
	switch {
	case disconnect:
	case sc.mode == mCtx:
		for _, id := range calls[0].ids {
			if !hit[id] {
				failed[id] = true
			}
		}
	default:
		for _, x := range w.txns {
			if x.outcome == "null" || x.outcome == "error" {
				for _, id := range x.ids {
					failed[id] = true
				}
			}
		}
	}
	// premise: the fault really happened
	switch sc.mode {
	case mAbort, mQueueErr, mStaticErr:
		if len(failed) == 0 {
			run.Inconclusive("fault did not take effect: " + sc.mode)
			return
		}
	}
	var wlog []string
	for _, x := range w.txns {
		wlog = append(wlog, fmt.Sprintf("conn%d %v direct=%v -> %s", x.conn, x.ids, x.direct, x.outcome))
	}
	readers := map[ident]int{}
	for _, c := range calls {
		for _, id := range c.ids {
			readers[id]++
		}
	}
	base := map[string]any{"requests_seen": fmt.Sprint(w.requests), "transactions": wlog}
	wit := func(extra map[string]any) map[string]any {
		m := map[string]any{}
		for k, v := range base {
			m[k] = v
		}
		for k, v := range extra {
			m[k] = v
		}
		var cs []string
		for _, c := range calls {
			cs = append(cs, fmt.Sprintf("%s %s -> vals=%q errs=%v", c.String(), c.joined, c.vals, c.errs))
		}
		m["calls"] = cs
		return m
	}
	shared := 0
	for id, n := range readers {
		req := w.requests[id]
		switch {
		case hit[id]:
			if req != 0 {
				violation("request-for-cached-entry", id.String(), wit(map[string]any{"ident": id.String(), "requests": req}))
			}
		case req > 1:
			violation("duplicate-request", id.String(), wit(map[string]any{"what": "more than one request for the same command while the first was in flight", "ident": id.String(), "requests": req, "readers": n}))
		case req == 0 && !disconnect:
			violation("no-request", id.String(), wit(map[string]any{"ident": id.String(), "readers": n}))
		}
		if n > 1 && req <= 1 {
			shared += n - 1
		}
	}
	run.Observe("reads_served_by_someone_elses_request", int64(shared))
	// results
	execErrText := ""
	nerr := 0
	for _, c := range calls {
		anyFailed := false
		for _, id := range c.ids {
			if !hit[id] && (failed[id] || disconnect) {
				anyFailed = true
			}
		}
		for i, id := range c.ids {
			wantErr := !hit[id] && (failed[id] || disconnect)
			if c.kind == kMGet { // an MGET is one reply: it fails as a whole
				wantErr = anyFailed
			}
			if c.owner && sc.mode == mCtx {
				wantErr = !hit[id] || c.kind == kMGet
			}
			got := c.errs[i]
			w0 := map[string]any{"call": c.String(), "position": i, "ident": id.String(), "got_val": c.vals[i], "got_err": fmt.Sprint(got)}
			if id.key == badKey && id.extra == "" && sc.mode == mExecErr {
				// an error reply delivered inside a successful EXEC: everybody must see that same reply
				if got == nil {
					violation("waiter-got-other-reply", "exec-error", wit(w0))
				} else if execErrText == "" {
					execErrText = got.Error()
				} else if got.Error() != execErrText {
					violation("waiter-got-other-reply", "exec-error", wit(w0))
				}
				nerr++
				continue
			}
			if wantErr {
				nerr++
				if got == nil {
					violation("failure-not-delivered", sc.mode2(c), wit(w0))
				}
				continue
			}
			if got != nil {
				violation("unexpected-error", sc.mode2(c), wit(w0))
			} else if c.vals[i] != val(id.key) {
				w0["want"] = val(id.key)
				violation("waiter-got-other-reply", sc.mode2(c), wit(w0))
			}
		}
	}
	if nerr > 0 {
		run.Observe("results_that_were_errors", int64(nerr))
	}
	nb := len(calls)
	bucket := "2"
	if nb > 4 {
		bucket = "5+"
	} else if nb > 2 {
		bucket = "3-4"
	}
	run.Case(fmt.Sprintf("%s|%s|%s|stagger=%v|static=%v|n=%s|prepop=%v", sc.store, sc.shape, sc.mode, sc.stagger, sc.static, bucket, sc.prepop), shared > 0 || disconnect)
	run.Observe("windows", 1)
	run.Observe("mode_"+sc.mode, 1)
	run.Observe("calls", int64(len(calls)))
	if sc.id%37 == 0 {
		run.Sample(wit(map[string]any{"scenario": sc.String()}))
	}

	// ---- after a failure nothing is cached: the next read of every failed command fetches again
	s.ClearPlan()
	var again []ident
	if disconnect {
		for id := range readers {
			if !hit[id] {
				again = append(again, id)
			}
		}
	} else {
		for id := range failed {
			again = append(again, id)
		}
	}
	sort.Slice(again, func(i, j int) bool { return again[i].String() < again[j].String() })
	for _, id := range again {
		before := view(s.Log()[start:]).requests[id]
		c := &call{kind: kGet, ids: []ident{id}, static: sc.static && sc.shape != sMGetOverlp}
		if !await(time.Hour, func() { doCall(bg, client, c) }) {
			hung("read after the failure never returned: " + c.String())
			return
		}
		synctest.Wait()
		after := view(s.Log()[start:]).requests[id]
		w0 := map[string]any{"ident": id.String(), "requests_before": before, "requests_after": after, "got_val": c.vals[0], "got_err": fmt.Sprint(c.errs[0]), "failed_by": sc.mode}
		run.Observe("refetch_after_failure_checked", 1)
		if after != before+1 {
			violation("failed-request-was-cached", id.String(), wit(w0))
			continue
		}
		wantErr := id.extra != "" || (id.key == badKey && badKey != "")
		if wantErr != (c.errs[0] != nil) || (!wantErr && c.vals[0] != val(id.key)) {
			violation("refetch-wrong-result", id.String(), wit(w0))
		}
	}
}

func (sc scenario) mode2(c *call) string {
	role := "waiter"
	if c.owner && sc.stagger {
		role = "owner"
	}
	return []string{"DoCache", "DoMultiCache", "MGET"}[c.kind] + "/" + role
}

// ---- real-time variant (no virtual clock, -race): n callers race for the same commands on one wire; with the
// built-in store every command must reach the server exactly once overall (a late caller gets the cached reply).
func runRealtime(run *mon.Run, id int, seed int64, flow bool) {
	rng := rand.New(rand.NewSource(seed))
	if flow {
		rueidis.VerifSetQueueType("flowbuffer")
		defer rueidis.VerifSetQueueType("")
	}
	s := fakeredis.New(fakeredis.Options{Seed: seed, ChunkWrites: true}, addr)
	defer s.Close()
	node := s.Node(addr)
	keys := []string{"a", "b", "c", "d", "e", "f"}
	for _, k := range keys {
		node.Exec("SET", k, val(k))
	}
	opt := drv.Option(s, addr)
	opt.ForceSingleClient = true
	opt.PipelineMultiplex = -1
	opt.DisableRetry = true
	client, err := rueidis.NewClient(opt)
	if err != nil {
		run.Inconclusive("client setup failed: " + err.Error())
		return
	}
	defer client.Close()
	start := s.LogLen()
	n := 4 + rng.Intn(12)
	var calls []*call
	for i := 0; i < n; i++ {
		c := &call{kind: rng.Intn(3)}
		nk := 1
		if c.kind != kGet {
			nk = 1 + rng.Intn(4)
		}
		perm := rng.Perm(len(keys))
		for j := 0; j < nk; j++ {
			k := keys[perm[j]]
			if c.kind == kMulti && rng.Intn(3) == 0 && j > 0 {
				k = c.ids[rng.Intn(j)].key // duplicate inside the batch
			}
			c.ids = append(c.ids, ident{key: k})
		}
		calls = append(calls, c)
	}
	gate := make(chan struct{})
	var wg sync.WaitGroup
	for _, c := range calls {
		wg.Add(1)
		go func(c *call) {
			defer wg.Done()
			<-gate
			doCall(context.Background(), client, c)
		}(c)
	}
	close(gate)
	wg.Wait()
	w := view(s.Log()[start:])
	readers := map[ident]int{}
	for _, c := range calls {
		for i, id := range c.ids {
			readers[id]++
			if c.errs[i] != nil || c.vals[i] != val(id.key) {
				run.Violation("waiter-got-other-reply", "builtin/realtime/"+[]string{"DoCache", "DoMultiCache", "MGET"}[c.kind], map[string]any{"call": c.String(), "position": i, "got": c.vals[i], "err": fmt.Sprint(c.errs[i]), "seed": seed})
			}
		}
	}
	shared := 0
	for id, nr := range readers {
		if req := w.requests[id]; req != 1 {
			run.Violation("duplicate-request", "builtin/realtime/"+id.String(), map[string]any{"ident": id.String(), "requests": req, "readers": nr, "seed": seed, "requests_seen": fmt.Sprint(w.requests)})
		} else {
			shared += nr - 1
		}
	}
	run.Observe("realtime_runs", 1)
	run.Observe("realtime_reads_served_without_own_request", int64(shared))
	run.Case(fmt.Sprintf("builtin|realtime|flow=%v|n=%d", flow, n/4), shared > 0)
}

func TestC09(t *testing.T) {
	run := mon.Start(t, "C09", "fault_enumeration",
		"one wire (PipelineMultiplex -1), built-in store and NewSimpleCacheAdapter; in a synctest bubble the server holds the first cached request while 1-7 more calls reading overlapping commands arrive (owner first, or all at once; in the flight-longer-than-ttl mode the hold lasts 2-10x the client TTL of 50 ms-1 s and joiners arrive before, at and after the TTL instant), then the request succeeds or fails by: EXEC nil (abort), command refused at queue time (EXECABORT), error reply inside EXEC, error reply on the static-TTL wire, connection killed / closed at EXEC / cut mid-reply, owner's context cancelled; "+
			"shapes: n x DoCache(same command), DoMultiCache batches with duplicates, MGET with partial overlap (+ GET / DoMultiCache of the same keys), with and without a warm entry, static-TTL wire; plus real-time -race runs (no stall) on the built-in store; "+
			"a case = (store, shape, failure mode, arrival order, static, callers, warm entry) in which at least one read was measured to be served by another call's request")
	defer run.Finish()
	run.Assume("requests are counted as commands received by the fake server (recv events), per cache identity (GET k / GET k extra; MGET k1 k2 counts for GET k1 and GET k2)",
		"which request failed is read from the server's log (EXEC answered nil / EXECABORT, error reply, connection closed), not assumed",
		"an error reply produced inside a successful EXEC (WRONGTYPE) is a reply: only 'everybody gets that same reply from one request' is demanded for it",
		"retries are disabled so that a disconnect surfaces as an error to every caller")

	type combo struct {
		shape, mode string
		static      bool
	}
	var combos []combo
	for _, shape := range []string{sSame, sMultiDups, sMGetOverlp} {
		for _, mode := range []string{mOK, mLong, mAbort, mQueueErr, mExecErr, mKill, mCloseExec, mCloseMid, mCtx} {
			if mode == mQueueErr && shape == sMGetOverlp {
				continue // a malformed MGET cannot be built through the cache API
			}
			if mode == mExecErr && shape != sSame {
				continue
			}
			combos = append(combos, combo{shape, mode, false})
		}
	}
	for _, shape := range []string{sSame, sMultiDups} {
		for _, mode := range []string{mOK, mLong, mStaticErr, mKill, mCloseExec, mCloseMid, mCtx} {
			if mode == mStaticErr && shape != sSame {
				continue
			}
			combos = append(combos, combo{shape, mode, true})
		}
	}
	rng := run.Rand("scenarios")
	reps := run.N(10, 200)
	id := 0
	for r := 0; r < reps; r++ {
		for _, cb := range combos {
			for _, store := range []string{"builtin", "adapter"} {
				stagger := rng.Intn(2) == 0 || cb.mode == mCtx
				sc := scenario{id: id, store: store, shape: cb.shape, mode: cb.mode, static: cb.static, stagger: stagger, n: 2 + rng.Intn(7), prepop: rng.Intn(3) == 0 && cb.shape != sSame, seed: rng.Int63()}
				if cb.mode == mLong {
					sc.n = 3 + rng.Intn(6)
					sc.prepop = false // a warm entry would expire during the hold
					sc.ttl = []time.Duration{50 * time.Millisecond, 120 * time.Millisecond, 400 * time.Millisecond, time.Second}[rng.Intn(4)]
					sc.holdX = 2 + rng.Intn(9)
				}
				id++
				if only := os.Getenv("VERIF_C09_ONLY"); only != "" && only != fmt.Sprint(sc.id) {
					continue
				}
				dl, stacks := drv.Bubble(t, func() { runScenario(t, run, sc) })
				if dl != "" {
					run.Violation("hang", fmt.Sprintf("%s/%s/%s", sc.store, sc.shape, sc.mode), map[string]any{"scenario": sc.String(), "synctest": dl, "rueidis_frames": drv.RueidisFrames(stacks), "stacks": drv.Tail(stacks, 12000)})
				}
				run.Observe("bubbles", 1)
			}
		}
	}
	nrt := run.N(150, 6000)
	for i := 0; i < nrt; i++ {
		runRealtime(run, i, rng.Int63(), i%3 == 2)
	}
	run.Require("reads_served_by_someone_elses_request", "results_that_were_errors", "refetch_after_failure_checked", "realtime_reads_served_without_own_request",
		"mode_"+mOK, "mode_"+mLong, "long_flight_joiners_before-ttl", "long_flight_joiners_at-ttl", "long_flight_joiners_after-ttl", "mode_"+mAbort, "mode_"+mQueueErr, "mode_"+mExecErr, "mode_"+mStaticErr, "mode_"+mKill, "mode_"+mCloseExec, "mode_"+mCloseMid, "mode_"+mCtx)
}
