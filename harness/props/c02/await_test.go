package c02

import (
	"runtime"
	"strings"
	"time"
)

// await runs fn in its own goroutine and waits for it for at most limit of (virtual, inside a bubble) time, so that the
// bubble's main goroutine never blocks for ever on the code under test. Inside a bubble the limit can only elapse when
// every goroutine is durably blocked and no earlier timer exists, i.e. when fn hangs.
func await(limit time.Duration, fn func()) bool {
	ch := make(chan struct{})
	go func() { defer close(ch); fn() }()
	tm := time.NewTimer(limit)
	defer tm.Stop()
	select {
	case <-ch:
		return true
	case <-tm.C:
		return false
	}
}

// bubbleStacks dumps the goroutines of the current bubble.
func bubbleStacks() string {
	buf := make([]byte, 4<<20)
	buf = buf[:runtime.Stack(buf, true)]
	var keep []string
	for _, g := range strings.Split(string(buf), "\n\n") {
		if strings.Contains(g, "synctest bubble") {
			keep = append(keep, g)
		}
	}
	return strings.Join(keep, "\n\n")
}
