// Package c02 drives rueidis's pipeline queue implementations (ring, flowbuffer) directly, below the pipe,
// with the harness playing the three roles exactly as pipe.go does:
//
//	putters -> PutOne / PutMulti, then receive on the returned channel (pipe.Do / pipe.DoMulti)
//	ONE writer goroutine -> NextWriteCmd, falling back to WaitForWrite when nothing is ready (_backgroundWrite)
//	ONE reader goroutine -> for every reply of a written command: NextResultCh on the first reply of an entry,
//	                        fill resps, send the last result on the channel, FinishResult (_backgroundRead)
//
// The reader only asks for the next result slot after the writer has dequeued (written) that command, as in the
// real pipe where a reply can only exist for a command that reached the wire.
package c02

import (
	"context"
	"fmt"
	"math/rand"
	"os"
	"runtime"
	"sync"
	"sync/atomic"
	"testing"
	"time"

	"github.com/redis/rueidis"
	"verifh/drv"
	"verifh/mon"
)

// entry is one Put (PutOne: one command, PutMulti: a batch).
type entry struct {
	ids      []string
	cmds     []rueidis.Completed
	multi    bool
	putter   int
	sentinel bool

	call, ret int64 // logical stamps around the Put call (putter)
	pch       chan rueidis.RedisResult
	putErr    error

	deqs int // how many times the writer was handed this entry (writer only)
	pos  int // position in the writer's dequeue order (writer only)
	wch  chan rueidis.RedisResult
	rch  chan rueidis.RedisResult // channel the reader was given for it
}

type config struct {
	kind    string
	scale   int
	start   uint32
	putters int
	ops     int // entries per putter
	multi   int // percentage of PutMulti entries
	yield   int // percentage of random Gosched calls
	seed    int64
	bubble  bool
}

func (c config) slots() int { return 2 << (c.scale - 1) }
func (c config) String() string {
	return fmt.Sprintf("%s scale=%d(slots %d) start=%#x putters=%d ops=%d multi=%d%% yield=%d%% bubble=%v seed=%d", c.kind, c.scale, c.slots(), c.start, c.putters, c.ops, c.multi, c.yield, c.bubble, c.seed)
}
func (c config) shape() string {
	ratio := "1"
	switch s := c.slots(); {
	case c.putters == 1:
	case c.putters < s:
		ratio = "<slots"
	case c.putters == s:
		ratio = "=slots"
	case c.putters <= 2*s:
		ratio = "2x"
	default:
		ratio = "4x"
	}
	return fmt.Sprintf("%s/slots=%d/putters=%s/wrap=%v/multi=%v/bubble=%v", c.kind, c.slots(), ratio, c.start != 0, c.multi > 0, c.bubble)
}

type stats struct {
	entries, cmds, multiBatches int64
	fullPuts                    int64 // Put called while at least `slots` entries were already in flight
	maxInflight                 int64
	writerParked                int64 // WaitForWrite fallbacks
	wraps                       int64 // ring indices that passed 2^32
	orderedPairs                int64 // entries that had a real-time predecessor (the FIFO premise held for them)
	overtakes                   int64 // adjacent dequeues whose Put calls overlapped in the opposite order (legal, shows concurrency)
	fatal                       bool
}

func payload(id string) string { return "r:" + id }

func resultFor(id string) rueidis.RedisResult {
	return rueidis.NewResult(rueidis.VerifBuild(rueidis.VerifNode{Typ: '+', Str: payload(id)}), nil)
}

func resultID(r rueidis.RedisResult) string {
	s, err := r.ToString()
	if err != nil {
		return "!err:" + err.Error()
	}
	return s
}

func idOf(c rueidis.Completed) string {
	a := c.Commands()
	if len(a) < 2 {
		return fmt.Sprintf("!short:%v", a)
	}
	return a[1]
}

// plan builds the whole case as a pure function of the config.
func plan(cfg config) (perPutter [][]*entry, byID map[string]*entry, sentinel *entry) {
	rng := rand.New(rand.NewSource(cfg.seed))
	b := rueidis.VerifNewBuilder(false)
	byID = map[string]*entry{}
	mk := func(p, n int, ids []string, multi bool) *entry {
		e := &entry{ids: ids, multi: multi, putter: p, pos: -1}
		for _, id := range ids {
			e.cmds = append(e.cmds, b.Arbitrary("VERIF.Q", id).Build())
			byID[id] = e
		}
		return e
	}
	perPutter = make([][]*entry, cfg.putters)
	for p := 0; p < cfg.putters; p++ {
		for n := 0; n < cfg.ops; n++ {
			if rng.Intn(100) < cfg.multi {
				k := 1 + rng.Intn(5)
				ids := make([]string, k)
				for j := range ids {
					ids[j] = fmt.Sprintf("p%d.n%d.m%d", p, n, j)
				}
				perPutter[p] = append(perPutter[p], mk(p, n, ids, true))
			} else {
				perPutter[p] = append(perPutter[p], mk(p, n, []string{fmt.Sprintf("p%d.n%d", p, n)}, false))
			}
		}
	}
	sentinel = mk(-1, 0, []string{"sentinel"}, false)
	sentinel.sentinel = true
	return
}

// runCase executes one workload on a fresh queue and evaluates the oracle. It returns what it measured.
func runCase(run *mon.Run, cfg config, progress *atomic.Int64) stats {
	var st stats
	perPutter, byID, sentinel := plan(cfg)
	total := 1
	for _, l := range perPutter {
		total += len(l)
	}
	q := rueidis.VerifNewQueue(cfg.kind, cfg.scale, cfg.start)
	slots := int64(cfg.slots())

	var vmu sync.Mutex
	violation := func(class, what string, w map[string]any) {
		vmu.Lock()
		defer vmu.Unlock()
		w["config"] = cfg.String()
		run.Violation(class, fmt.Sprintf("%s/slots=%d/%s", cfg.kind, cfg.slots(), what), w)
	}

	abort := make(chan struct{})
	var abortOnce sync.Once
	var fatalFlag atomic.Bool
	fatal := func() { abortOnce.Do(func() { close(abort) }); fatalFlag.Store(true) }

	wire := make(chan *entry, total+4) // what reached "the wire", in write order; never blocks the writer
	var order []*entry                 // writer's dequeue order
	var inflight, maxInflight, fullPuts, parked atomic.Int64

	var bg sync.WaitGroup
	bg.Add(2)
	// ---- writer: exactly _backgroundWrite's use of the queue
	go func() {
		defer bg.Done()
		defer close(wire)
		for {
			one, multi, ch := q.NextWriteCmd()
			if ch == nil {
				parked.Add(1)
				one, multi, ch = q.WaitForWrite()
			}
			cmds := multi
			if multi == nil {
				cmds = []rueidis.Completed{one}
			}
			if len(cmds) == 0 || cmds[0].IsEmpty() {
				violation("handoff-empty", "writer", map[string]any{"what": "writer was handed an entry without commands", "dequeued_so_far": len(order)})
				fatal()
				return
			}
			e := byID[idOf(cmds[0])]
			if e == nil {
				violation("handoff-unknown", "writer", map[string]any{"what": "writer was handed a command nobody enqueued", "argv": cmds[0].Commands()})
				fatal()
				return
			}
			same := len(cmds) == len(e.ids) && (multi != nil) == e.multi
			for i := 0; same && i < len(cmds); i++ {
				same = idOf(cmds[i]) == e.ids[i]
			}
			if !same {
				got := []string{}
				for _, c := range cmds {
					got = append(got, idOf(c))
				}
				violation("handoff-mangled", "writer", map[string]any{"what": "entry handed to the writer differs from what was enqueued", "enqueued": e.ids, "handed": got, "multi": multi != nil})
			}
			e.deqs++
			if e.deqs > 1 {
				violation("handoff-duplicate", "writer", map[string]any{"what": "entry handed to the writer twice", "ids": e.ids, "first_pos": e.pos, "second_pos": len(order)})
				fatal() // the queue is broken (it may now hand out stale slots for ever): stop this case
				return
			}
			e.pos = len(order)
			e.wch = ch
			order = append(order, e)
			wire <- e
			if progress != nil {
				progress.Add(1)
			}
			if e.sentinel {
				return
			}
		}
	}()
	// ---- reader: exactly _backgroundRead's use of the queue, one reply per written command
	go func() {
		defer bg.Done()
		for e := range wire {
			var ch chan rueidis.RedisResult
			var resps []rueidis.RedisResult
			var last rueidis.RedisResult
			for j := range e.ids { // replies arrive one by one; the slot is taken on the first and released after the last
				if j == 0 {
					one, multi, c, rs := q.NextResultCh()
					if c == nil {
						q.FinishResult()
						violation("reader-no-slot", "reader", map[string]any{"what": "a reply arrived for a written command but NextResultCh had nothing (pipe.go panics with a protocol bug here)", "ids": e.ids, "pos": e.pos})
						fatal()
						return
					}
					cmds := multi
					if multi == nil {
						cmds = []rueidis.Completed{one}
					}
					got := []string{}
					for _, c := range cmds {
						got = append(got, idOf(c))
					}
					if fmt.Sprint(got) != fmt.Sprint(e.ids) {
						violation("reader-order", "reader", map[string]any{"what": "NextResultCh returned a different entry than the next written one", "written": e.ids, "returned": got, "pos": e.pos})
					}
					if (rs != nil) != e.multi || (rs != nil && len(rs) != len(e.ids)) {
						violation("reader-resps", "reader", map[string]any{"what": "result slice does not belong to the entry", "ids": e.ids, "len": len(rs)})
					}
					ch, resps = c, rs
					e.rch = c
				}
				last = resultFor(e.ids[j])
				if resps != nil && j < len(resps) {
					resps[j] = last
				}
			}
			select {
			case ch <- last:
			case <-abort:
				q.FinishResult()
				return
			}
			q.FinishResult()
			if e.sentinel {
				return
			}
		}
	}()

	// ---- putters: pipe.Do / pipe.DoMulti
	put := func(e *entry, rng *rand.Rand) bool {
		if rng != nil && rng.Intn(100) < cfg.yield {
			runtime.Gosched()
		}
		n := inflight.Add(1)
		if n > slots {
			fullPuts.Add(1)
		}
		for {
			m := maxInflight.Load()
			if n <= m || maxInflight.CompareAndSwap(m, n) {
				break
			}
		}
		var resps []rueidis.RedisResult
		e.call = mon.Stamp()
		if e.multi {
			resps = make([]rueidis.RedisResult, len(e.cmds))
			e.pch, e.putErr = q.PutMulti(context.Background(), e.cmds, resps)
		} else {
			e.pch, e.putErr = q.PutOne(context.Background(), e.cmds[0])
		}
		e.ret = mon.Stamp()
		if e.putErr != nil || e.pch == nil {
			violation("put-failed", "putter", map[string]any{"what": "Put with a background context failed", "err": fmt.Sprint(e.putErr), "ids": e.ids})
			fatal()
			return false
		}
		if rng != nil && rng.Intn(100) < cfg.yield {
			runtime.Gosched()
		}
		var res rueidis.RedisResult
		select {
		case res = <-e.pch:
		case <-abort:
			return false
		}
		inflight.Add(-1)
		if got, want := resultID(res), payload(e.ids[len(e.ids)-1]); got != want {
			violation("reply-misrouted", "channel", map[string]any{"what": "the caller received another command's result on its channel", "ids": e.ids, "want": want, "got": got})
		}
		for i := range resps {
			if got, want := resultID(resps[i]), payload(e.ids[i]); got != want {
				violation("reply-misrouted", "resps", map[string]any{"what": "batch result slot holds another command's result", "ids": e.ids, "index": i, "want": want, "got": got})
			}
		}
		return true
	}
	var pw sync.WaitGroup
	for p := range perPutter {
		pw.Add(1)
		go func(p int) {
			defer pw.Done()
			rng := rand.New(rand.NewSource(cfg.seed*7919 + int64(p)))
			for _, e := range perPutter[p] {
				if !put(e, rng) {
					return
				}
			}
		}(p)
	}
	// inside a bubble the main goroutine never blocks for ever: a wait that outlasts an hour of virtual time means that
	// every goroutine is durably blocked (there are no timers in this workload), i.e. a lost wake-up
	wait := func(what string, fn func()) bool {
		if !cfg.bubble {
			fn()
			return true
		}
		if await(time.Hour, fn) {
			return true
		}
		if !fatalFlag.Load() {
			stacks := bubbleStacks()
			violation("hang", fmt.Sprintf("putters=%d", cfg.putters), map[string]any{
				"what":           "writer and reader were running and callers waiting, yet every goroutine ended durably blocked (lost wake-up); stuck while " + what,
				"rueidis_frames": drv.RueidisFrames(stacks), "stacks": drv.Tail(stacks, 12000)})
		}
		fatal()
		return false
	}
	ok := wait("waiting for the putters", pw.Wait)
	if ok && !fatalFlag.Load() {
		ok = wait("enqueuing the final command", func() { put(sentinel, nil) }) // as pipe._background does with a final PING: releases the writer parked in WaitForWrite
	}
	if !ok || fatalFlag.Load() {
		// a goroutine may stay parked inside the queue; the caller's bubble (or the process end) deals with it
		st.fatal = true
		return st
	}
	if !wait("waiting for writer and reader to finish", bg.Wait) {
		st.fatal = true
		return st
	}

	// ---- oracle over the complete history
	all := make([]*entry, 0, total)
	for _, l := range perPutter {
		all = append(all, l...)
	}
	all = append(all, sentinel)
	for _, e := range all {
		st.entries++
		st.cmds += int64(len(e.ids))
		if e.multi {
			st.multiBatches++
		}
		if e.deqs != 1 { // >1 was reported by the writer
			if e.deqs == 0 {
				violation("handoff-lost", "writer", map[string]any{"what": "an enqueued entry never reached the writer although its caller got a result", "ids": e.ids})
			}
			continue
		}
		if e.wch != e.pch || e.rch != e.pch {
			violation("channel-mismatch", "channel", map[string]any{"what": "putter, writer and reader were given different channels for one entry", "ids": e.ids})
		}
	}
	if len(order) != len(all) {
		violation("handoff-count", "writer", map[string]any{"enqueued": len(all), "handed_to_writer": len(order)})
	}
	// FIFO with real-time precedence: ret(a) < call(b) => pos(a) < pos(b). Walk the dequeue order backwards keeping
	// the entry with the smallest return stamp among the later ones.
	var minLater *entry
	for i := len(order) - 1; i >= 0; i-- {
		b := order[i]
		if minLater != nil && minLater.ret < b.call {
			w := map[string]any{
				"what":  "Put(a) returned before Put(b) was called, yet the writer was handed b before a",
				"a":     map[string]any{"ids": minLater.ids, "call": minLater.call, "ret": minLater.ret, "pos": minLater.pos, "putter": minLater.putter},
				"b":     map[string]any{"ids": b.ids, "call": b.call, "ret": b.ret, "pos": b.pos, "putter": b.putter},
				"slots": cfg.slots(),
			}
			// the shape behind it on the ring: some entry c drew the slot's ticket before b (same slot = same channel) but b took the slot first
			for _, c := range order[i+1:] {
				if c.pch == b.pch && c.call < b.call && c.ret > b.ret {
					w["c_same_slot_called_earlier_dequeued_a_round_later"] = map[string]any{"ids": c.ids, "call": c.call, "ret": c.ret, "pos": c.pos, "putter": c.putter}
					break
				}
			}
			violation("fifo-realtime", "put-returned-before-overtaker-was-called", w)
		}
		if minLater == nil || b.ret < minLater.ret {
			minLater = b
		}
	}
	for i, e := range order {
		if i > 0 && order[i-1].call > e.call {
			st.overtakes++
		}
	}
	// premise count: entries b for which some a has ret(a) < call(b)
	minRet := int64(1<<62 - 1)
	for _, e := range all {
		if e.ret < minRet {
			minRet = e.ret
		}
	}
	for _, e := range all {
		if minRet < e.call {
			st.orderedPairs++
		}
	}
	if cfg.kind == "ring" && uint64(cfg.start)+uint64(len(all)) > 1<<32 {
		st.wraps = 3 // write, read1 and read2 all passed 2^32
	}
	st.fullPuts = fullPuts.Load()
	st.maxInflight = maxInflight.Load()
	st.writerParked = parked.Load()
	return st
}

func observe(run *mon.Run, cfg config, st stats) {
	run.Observe("entries", st.entries)
	run.Observe("commands", st.cmds)
	run.Observe("multi_batches", st.multiBatches)
	run.Observe("puts_on_full_queue", st.fullPuts)
	run.Observe("writer_parked_in_WaitForWrite", st.writerParked)
	run.Observe("index_wraps_through_2^32", st.wraps)
	run.Observe("entries_with_realtime_predecessor", st.orderedPairs)
	run.Observe("concurrent_put_reorderings", st.overtakes)
	if cfg.bubble {
		run.Observe("bubble_runs", 1)
		if cfg.kind == "ring" {
			run.Observe("bubble_runs_ring", 1)
		}
	} else {
		run.Observe("realtime_runs", 1)
	}
	// a case is non-trivial when the queue really was contended: more entries in flight than slots for putters > slots,
	// at least two in flight otherwise
	nontrivial := st.maxInflight >= 2 && (int64(cfg.putters) <= int64(cfg.slots()) || st.fullPuts > 0)
	if cfg.putters == 1 {
		nontrivial = st.entries > 1
	}
	run.Case(cfg.shape(), nontrivial && !st.fatal)
}

func TestC02(t *testing.T) {
	run := mon.Start(t, "C02", "exploration",
		"the queue (ring and flowbuffer, via VerifNewQueue) is driven by P putters (PutOne / PutMulti of 1-5 commands, each waiting for its result like pipe.Do), one writer (NextWriteCmd, WaitForWrite fallback) and one reader (NextResultCh, send, FinishResult) exactly as pipe.go uses it; "+
			"slots 2,4,8,16; P in {1,2,slots,2*slots,4*slots}; ring indices preset to 0xFFFFFFF0 (wrap through 2^32) or 0; random yields; real-time -race runs for schedule diversity plus synctest bubbles where a lost wake-up is a deadlock; "+
			"a case = (implementation, slots, putters/slots, wrap, batches, bubble) and is non-trivial when the queue was measured full (more entries in flight than slots) resp. overlapped")
	defer run.Finish()
	run.Assume("the harness's writer and reader use the queue like pipe.go's _backgroundWrite/_backgroundRead (single writer, single reader, result slot taken only for commands already written)",
		"schedules are those the Go scheduler produced here (with -race) plus the bubbles' schedules; hangs are decided only inside bubbles (all goroutines durably blocked), never by wall-clock")

	rng := run.Rand("cases")
	var cases []config
	// --- bubbles first: deadlock detection
	nb := run.N(3, 40)
	for _, kind := range []string{"ring", "flowbuffer"} {
		for scale := 1; scale <= 3; scale++ {
			slots := 2 << (scale - 1)
			for _, p := range []int{1, 2, slots, 4 * slots} {
				for r := 0; r < nb; r++ {
					start := uint32(0xFFFFFFF0)
					if r%3 == 2 {
						start = 0
					}
					cases = append(cases, config{kind: kind, scale: scale, start: start, putters: p, ops: 30, multi: []int{0, 30, 60}[r%3], yield: 30, seed: rng.Int63(), bubble: true})
				}
			}
		}
	}
	// --- real time
	ops := run.N(400, 6000)
	reps := run.N(1, 3)
	for r := 0; r < reps; r++ {
		for _, kind := range []string{"ring", "flowbuffer"} {
			for scale := 1; scale <= 4; scale++ {
				slots := 2 << (scale - 1)
				for pi, p := range []int{1, 2, slots, 2 * slots, 4 * slots} {
					start := uint32(0xFFFFFFF0)
					if (pi+scale+r)%4 == 0 {
						start = 0
					}
					o := ops
					if p == 1 {
						o = ops * 2
					}
					cases = append(cases, config{kind: kind, scale: scale, start: start, putters: p, ops: o, multi: []int{0, 25, 50}[(pi+scale)%3], yield: []int{0, 10, 40}[(pi+r)%3], seed: rng.Int63()})
				}
			}
		}
	}

	var progress atomic.Int64
	stalled := make(chan string, 1)
	stopWatch := make(chan struct{})
	defer close(stopWatch)
	var current atomic.Pointer[config]
	go func() { // no verdict comes from here: a real-time stall only ends the run without one
		last, lastChange := int64(-1), time.Now()
		for {
			select {
			case <-stopWatch:
				return
			case <-time.After(time.Second):
			}
			if p := progress.Load(); p != last {
				last, lastChange = p, time.Now()
			} else if c := current.Load(); c != nil && !c.bubble && time.Since(lastChange) > 120*time.Second {
				stalled <- c.String()
				return
			}
		}
	}()

	sampled := map[string]bool{}
	for i := range cases {
		cfg := cases[i]
		current.Store(&cfg)
		var st stats
		if cfg.bubble {
			dl, stacks := drv.Bubble(t, func() { st = runCase(run, cfg, &progress) })
			if dl != "" && !st.fatal {
				run.Violation("hang", fmt.Sprintf("%s/slots=%d/putters=%d", cfg.kind, cfg.slots(), cfg.putters), map[string]any{
					"what": "writer and reader were running and callers waiting, yet every goroutine ended durably blocked (lost wake-up)", "config": cfg.String(),
					"synctest": dl, "rueidis_frames": drv.RueidisFrames(stacks), "stacks": drv.Tail(stacks, 12000)})
				st.fatal = true
			}
		} else {
			done := make(chan struct{})
			go func() { defer close(done); st = runCase(run, cfg, &progress) }()
			select {
			case <-done:
			case c := <-stalled:
				buf := make([]byte, 1<<20)
				buf = buf[:runtime.Stack(buf, true)]
				fmt.Printf("INCONCLUSIVE property=C02 real-time run made no progress for 120 s: %s\n%s\n", c, drv.Tail(string(buf), 20000))
				run.Inconclusive("real-time run stalled: " + cfg.shape())
				t.Errorf("real-time run stalled (no verdict)")
				return
			}
		}
		observe(run, cfg, st)
		if k := cfg.shape(); !sampled[k] && len(sampled) < 6 && i%7 == 0 {
			sampled[k] = true
			run.Sample(map[string]any{"config": cfg.String(), "entries": st.entries, "commands": st.cmds, "max_inflight": st.maxInflight, "puts_on_full_queue": st.fullPuts, "writer_parked": st.writerParked})
		}
		if os.Getenv("VERIF_DEBUG") != "" {
			fmt.Printf("DEBUG %s -> %+v\n", cfg.String(), st)
		}
	}
	run.Require("entries", "multi_batches", "puts_on_full_queue", "writer_parked_in_WaitForWrite", "index_wraps_through_2^32", "entries_with_realtime_predecessor", "bubble_runs", "realtime_runs")
}
