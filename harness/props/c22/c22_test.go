package c22

import (
	"fmt"
	"hash/fnv"
	"math/rand"
	"sort"
	"strings"
	"sync"
	"testing"

	"github.com/redis/rueidis"
	"verifh/mon"
)

// Reference model, written from the doc comments in helper.go, the ReadNodeSelector option doc
// ("If the returned index is out of range, the primary node will be selected", nodes[0] is the
// primary) and the property statement:
//
//   PreferReplicaNodeSelector                 any replica (round robin); no replica -> primary
//   AZAffinityNodeSelector                    same-AZ replica (round robin); else any replica; else primary
//   AZAffinityReplicasAndPrimaryNodeSelector  same-AZ replica; same-AZ primary; any replica; primary
//
// "primary" may be expressed as -1 or, when the list is not empty, as index 0.
// A same-AZ replica is guaranteed to be noticed only among nodes[1:255]; what happens when the only
// same-AZ replicas sit at index >= 255 is left open (either a same-AZ replica or the fallback is accepted).

const (
	selPrefer = iota
	selAZ
	selAZRP
)

var selNames = []string{"PreferReplicaNodeSelector", "AZAffinityNodeSelector", "AZAffinityReplicasAndPrimaryNodeSelector"}

func newSelector(kind int, clientAZ string) rueidis.ReadNodeSelectorFunc {
	switch kind {
	case selPrefer:
		return rueidis.PreferReplicaNodeSelector()
	case selAZ:
		return rueidis.AZAffinityNodeSelector(clientAZ)
	default:
		return rueidis.AZAffinityReplicasAndPrimaryNodeSelector(clientAZ)
	}
}

type expectation struct {
	stage   string
	allowed map[int]bool // every acceptable return value
	class   []int        // the equally ranked candidates rotation must go through (nil for the primary stages)
}

func seq(from, to int) []int { // [from, to)
	var s []int
	for i := from; i < to; i++ {
		s = append(s, i)
	}
	return s
}

func expect(kind int, nodes []rueidis.NodeInfo, clientAZ string) expectation {
	n := len(nodes)
	set := func(xs ...[]int) map[int]bool {
		m := map[int]bool{}
		for _, x := range xs {
			for _, i := range x {
				m[i] = true
			}
		}
		return m
	}
	primary := func(stage string) expectation {
		e := expectation{stage: stage, allowed: map[int]bool{-1: true}}
		if n > 0 {
			e.allowed[0] = true
		}
		return e
	}
	if kind == selPrefer {
		if n > 1 {
			return expectation{stage: "any-replica", allowed: set(seq(1, n)), class: seq(1, n)}
		}
		return primary("primary")
	}
	var near, far []int // same-AZ replicas inside / beyond the guaranteed window
	for i := 1; i < n; i++ {
		if nodes[i].AZ == clientAZ {
			if i < 255 {
				near = append(near, i)
			} else {
				far = append(far, i)
			}
		}
	}
	if len(near) > 0 {
		return expectation{stage: "same-az-replica", allowed: set(near, far), class: near}
	}
	var e expectation
	switch {
	case kind == selAZRP && n > 0 && nodes[0].AZ == clientAZ:
		e = primary("same-az-primary")
	case n > 1:
		e = expectation{stage: "any-replica", allowed: set(seq(1, n)), class: seq(1, n)}
	default:
		e = primary("primary")
	}
	if len(far) > 0 { // left open by the statement
		for _, i := range far {
			e.allowed[i] = true
		}
		e.class = nil
		e.stage += "+far-same-az"
	}
	return e
}

func nodesKey(nodes []rueidis.NodeInfo) string {
	if nodes == nil {
		return "<nil>"
	}
	var sb strings.Builder
	sb.WriteByte('[')
	for i, nd := range nodes {
		if i == 24 {
			h := fnv.New32a()
			for _, x := range nodes {
				h.Write([]byte(x.AZ))
				h.Write([]byte{0})
			}
			fmt.Fprintf(&sb, " …len=%d#%08x", len(nodes), h.Sum32())
			break
		}
		if i > 0 {
			sb.WriteByte(' ')
		}
		sb.WriteString(nd.AZ)
	}
	sb.WriteByte(']')
	return sb.String()
}

type checker struct {
	run *mon.Run
}

func (c *checker) key(kind int, clientAZ string, nodes []rueidis.NodeInfo) string {
	return fmt.Sprintf("%s|client=%s|nodes=%s", selNames[kind], clientAZ, nodesKey(nodes))
}

func azList(nodes []rueidis.NodeInfo) []string {
	out := make([]string, 0, min(len(nodes), 40))
	for i, n := range nodes {
		if i == 40 {
			out = append(out, fmt.Sprintf("…(%d nodes)", len(nodes)))
			break
		}
		out = append(out, n.AZ)
	}
	return out
}

// one calls the selector once under recover and checks the result against the expectation.
func (c *checker) one(sel rueidis.ReadNodeSelectorFunc, kind int, clientAZ string, nodes []rueidis.NodeInfo, e expectation, slot uint16, ctx string) (r int, ok bool) {
	var pan any
	func() {
		defer func() {
			if p := recover(); p != nil {
				pan = p
			}
		}()
		r = sel(slot, nodes)
	}()
	c.run.Observe("calls", 1)
	c.run.Observe("stage_"+e.stage, 1)
	w := func() map[string]any {
		return map[string]any{"selector": selNames[kind], "client_az": clientAZ, "len": len(nodes), "nil_slice": nodes == nil, "node_azs": azList(nodes),
			"returned": r, "expected_stage": e.stage, "context": ctx}
	}
	if pan != nil {
		m := w()
		m["panic"] = fmt.Sprint(pan)
		c.run.Violation("panic", c.key(kind, clientAZ, nodes), m)
		return r, false
	}
	if r != -1 && (r < 0 || r >= len(nodes)) {
		c.run.Violation("invalid-index", c.key(kind, clientAZ, nodes), w())
		return r, false
	}
	if !e.allowed[r] {
		m := w()
		var al []int
		for i := range e.allowed {
			al = append(al, i)
		}
		sort.Ints(al)
		if len(al) > 40 {
			al = al[:40]
		}
		m["allowed"] = al
		c.run.Violation("wrong-priority", c.key(kind, clientAZ, nodes), m)
		return r, false
	}
	return r, true
}

// rotation checks one window of results (all from the same fixed list) against the rotation requirement.
func (c *checker) rotation(kind int, clientAZ string, nodes []rueidis.NodeInfo, e expectation, results []int, ctx string) {
	if len(e.class) < 2 || len(results) < 2*len(e.class) {
		return
	}
	seen := map[int]bool{}
	for _, r := range results {
		seen[r] = true
	}
	c.run.Observe("rotation_windows", 1)
	bad := ""
	if len(e.class) <= 8 {
		for _, i := range e.class {
			if !seen[i] {
				bad = fmt.Sprintf("candidate %d never returned in a window of %d calls", i, len(results))
				break
			}
		}
	} else if len(seen) < 2 {
		bad = fmt.Sprintf("a single candidate returned in a window of %d calls", len(results))
	}
	if bad != "" {
		var s []int
		for i := range seen {
			s = append(s, i)
		}
		sort.Ints(s)
		c.run.Violation("no-rotation", c.key(kind, clientAZ, nodes), map[string]any{"selector": selNames[kind], "client_az": clientAZ, "len": len(nodes), "node_azs": azList(nodes),
			"stage": e.stage, "candidates": len(e.class), "returned_set": s, "why": bad, "context": ctx})
	}
}

// config runs one (selector kind, client AZ, node list): a fresh selector, optionally warmed up by calls on
// another list (any call sequence), then `windows` consecutive windows of 2*|class| calls.
func (c *checker) config(rng *rand.Rand, kind int, clientAZ string, nodes []rueidis.NodeInfo, warm []rueidis.NodeInfo, windows int) {
	e := expect(kind, nodes, clientAZ)
	c.run.Case(c.key(kind, clientAZ, nodes), len(nodes) >= 2)
	sel := newSelector(kind, clientAZ)
	if warm != nil {
		we := expect(kind, warm, clientAZ)
		for i, k := 0, rng.Intn(7); i < k; i++ { // the case list stays a pure function of the seed: no draws depend on results
			c.one(sel, kind, clientAZ, warm, we, uint16(i*4099%16384), "warm-up on another list")
		}
	}
	w := max(2, 2*len(e.class))
	for k := 0; k < windows; k++ {
		res := make([]int, 0, w)
		for i := 0; i < w; i++ {
			r, ok := c.one(sel, kind, clientAZ, nodes, e, uint16((i*7919+k*104729)%16384), fmt.Sprintf("window %d call %d", k, i))
			if !ok {
				return
			}
			res = append(res, r)
		}
		c.rotation(kind, clientAZ, nodes, e, res, fmt.Sprintf("window %d, sequential", k))
	}
}

func mkNodes(azs []string) []rueidis.NodeInfo {
	nodes := make([]rueidis.NodeInfo, len(azs))
	for i, a := range azs {
		nodes[i] = rueidis.NodeInfo{Addr: fmt.Sprintf("10.0.%d.%d:6379", i/250, i%250), AZ: a}
	}
	return nodes
}

// randomNodes draws a list with a controlled number of same-AZ replicas.
func randomNodes(rng *rand.Rand, n int, clientAZ string) []rueidis.NodeInfo {
	labels := []string{"a", "b", "c", "d", "e", "f"}[:1+rng.Intn(6)]
	other := func() string {
		for k := 0; k < 8; k++ {
			if l := labels[rng.Intn(len(labels))]; l != clientAZ {
				return l
			}
		}
		return "zz"
	}
	azs := make([]string, n)
	mode := rng.Intn(6)
	for i := range azs {
		switch mode {
		case 0: // uniform
			azs[i] = labels[rng.Intn(len(labels))]
		case 1: // no same-AZ node at all
			azs[i] = other()
		case 2, 3: // few same-AZ nodes, placed below
			azs[i] = other()
		case 4: // many
			if rng.Intn(3) > 0 {
				azs[i] = clientAZ
			} else {
				azs[i] = other()
			}
		default: // only the primary matches
			azs[i] = other()
			if i == 0 {
				azs[i] = clientAZ
			}
		}
	}
	if (mode == 2 || mode == 3) && n > 0 {
		for k := 0; k <= rng.Intn(9); k++ {
			p := rng.Intn(n)
			if mode == 3 && n > 1 { // near the interesting positions: first, last, around 254/255
				p = []int{1, n - 1, 254, 255, 253, 256, 0}[rng.Intn(7)]
				if p >= n {
					p = n - 1
				}
			}
			azs[p] = clientAZ
		}
	}
	return mkNodes(azs)
}

// C22: the read-node selectors follow their documented priorities.
func TestC22(t *testing.T) {
	run := mon.Start(t, "C22", "exploration",
		"node lists x client AZ x the 3 selectors: exhaustive for every list of 0..6 nodes over 3 AZ labels x 4 client AZs (one absent from the list), nil and empty lists, random lists of 2..255 and 256..400 nodes with 0 / few / many same-AZ replicas placed at random and at the boundary positions (1, 254, 255, last), "+
			"each on a fresh selector (optionally warmed up on another list) for 3 windows of 2*|candidates| calls, plus 8 goroutines interleaving calls on one selector over one or two lists; distinct by selector + client AZ + AZ layout, non-trivial when the list has >= 2 nodes")
	defer run.Finish()
	run.Assume("index -1 and index 0 both denote the primary (ReadNodeSelector doc: out of range selects the primary; nodes[0] is the primary)",
		"a same-AZ replica must be found only among nodes[1:255]; rotation = every candidate of a class of <= 8 is returned within 2*|class| consecutive calls on a fixed list, at least 2 different candidates for larger classes",
		"same AZ means string equality of NodeInfo.AZ and the client AZ; only non-empty AZ labels are generated")
	c := &checker{run: run}
	rng := run.Rand("lists")

	// 1. nil, empty and single-node lists
	for kind := range selNames {
		for _, az := range []string{"a", "b"} {
			c.config(rng, kind, az, nil, nil, 3)
			c.config(rng, kind, az, []rueidis.NodeInfo{}, nil, 3)
			c.config(rng, kind, az, mkNodes([]string{"a"}), nil, 3)
			c.config(rng, kind, az, mkNodes([]string{"a"}), mkNodes([]string{"a", "a", "b"}), 3)
			c.config(rng, kind, az, nil, mkNodes([]string{"a", "a", "b"}), 3)
		}
	}
	run.Sample(map[string]any{"selector": selNames[selAZRP], "client_az": "a", "node_azs": []string{"b", "c", "a", "a"}, "expected_stage": "same-az-replica", "candidates": []int{2, 3}})

	// 2. exhaustive small lists
	labels := []string{"a", "b", "c"}
	nExh := 0
	for n := 0; n <= 6; n++ {
		total := 1
		for i := 0; i < n; i++ {
			total *= 3
		}
		for code := 0; code < total; code++ {
			azs := make([]string, n)
			x := code
			for i := range azs {
				azs[i] = labels[x%3]
				x /= 3
			}
			for _, client := range []string{"a", "b", "c", "d"} {
				for kind := range selNames {
					nodes := mkNodes(azs)
					var warm []rueidis.NodeInfo
					if code%3 == 1 {
						warm = mkNodes([]string{"d", "a", "b", "c", "a"})
					}
					c.config(rng, kind, client, nodes, warm, 3)
					nExh++
				}
			}
		}
	}
	run.Extra("exhaustive_subspace", map[string]any{"lists_of_0_to_6_nodes_x_3_labels_x_4_client_azs_x_3_selectors": nExh})

	// 3. random larger lists
	for i, n := 0, run.N(10000, 300000); i < n; i++ {
		var ln int
		switch i % 4 {
		case 0:
			ln = 2 + rng.Intn(30)
		case 1:
			ln = 2 + rng.Intn(254)
		case 2:
			ln = 250 + rng.Intn(10) // around the 255 window
		default:
			ln = 256 + rng.Intn(145)
		}
		client := []string{"a", "b", "c"}[rng.Intn(3)]
		nodes := randomNodes(rng, ln, client)
		kind := rng.Intn(3)
		var warm []rueidis.NodeInfo
		if rng.Intn(3) == 0 {
			warm = randomNodes(rng, rng.Intn(12), client)
		}
		c.config(rng, kind, client, nodes, warm, 1+rng.Intn(3))
		if i < 2 {
			e := expect(kind, nodes, client)
			run.Sample(map[string]any{"selector": selNames[kind], "client_az": client, "len": ln, "node_azs": azList(nodes), "expected_stage": e.stage, "candidates": len(e.class)})
		}
	}

	// 4. 8 goroutines interleaving calls on one selector
	for i, n := 0, run.N(1000, 30000); i < n; i++ {
		kind := i % 3
		client := []string{"a", "b", "c"}[rng.Intn(3)]
		var lists [][]rueidis.NodeInfo
		switch i % 5 {
		case 0:
			lists = [][]rueidis.NodeInfo{randomNodes(rng, 2+rng.Intn(12), client), randomNodes(rng, rng.Intn(6), client)}
		case 1:
			lists = [][]rueidis.NodeInfo{randomNodes(rng, 2+rng.Intn(300), client), nil}
		default:
			lists = [][]rueidis.NodeInfo{randomNodes(rng, 2+rng.Intn(40), client)}
		}
		exps := make([]expectation, len(lists))
		for k, l := range lists {
			exps[k] = expect(kind, l, client)
			run.Case("concurrent|"+c.key(kind, client, l), len(l) >= 2)
		}
		sel := newSelector(kind, client)
		per := max(8, 2*len(exps[0].class)/8+4)
		results := make([][]int, 8)
		seeds := make([]int64, 8)
		for g := range seeds {
			seeds[g] = rng.Int63()
		}
		var wg sync.WaitGroup
		for g := 0; g < 8; g++ {
			wg.Add(1)
			go func(g int) {
				defer wg.Done()
				lr := rand.New(rand.NewSource(seeds[g]))
				for k := 0; k < per; k++ {
					li := 0
					if len(lists) > 1 && lr.Intn(3) == 0 {
						li = 1
					}
					r, ok := c.one(sel, kind, client, lists[li], exps[li], uint16(lr.Intn(16384)), fmt.Sprintf("goroutine %d call %d", g, k))
					if ok && li == 0 && len(lists) == 1 {
						results[g] = append(results[g], r)
					}
				}
			}(g)
		}
		wg.Wait()
		run.Observe("concurrent_rounds", 1)
		if len(lists) == 1 {
			var all []int
			for _, r := range results {
				all = append(all, r...)
			}
			c.rotation(kind, client, lists[0], exps[0], all, "union of 8 goroutines on one selector")
		}
	}
	run.Require("calls", "rotation_windows", "concurrent_rounds", "stage_same-az-replica", "stage_same-az-primary", "stage_any-replica", "stage_primary")
}
