package core

import (
	"bufio"
	"bytes"
	"fmt"
	"io"
	"math/rand"
	"os"
	"os/exec"
	"strings"

	"github.com/redis/rueidis"
	"verifh/resp"
)

// chunkReader delivers its data in pieces of the given sizes (cycled).
type chunkReader struct {
	data  []byte
	sizes []int
	i     int
}

func (c *chunkReader) Read(p []byte) (int, error) {
	if len(c.data) == 0 {
		return 0, io.EOF
	}
	n := c.sizes[c.i%len(c.sizes)]
	c.i++
	if n <= 0 {
		n = 1
	}
	if n > len(p) {
		n = len(p)
	}
	if n > len(c.data) {
		n = len(c.data)
	}
	copy(p, c.data[:n])
	c.data = c.data[n:]
	return n, nil
}

func splitPlan(r *rand.Rand, k int) []int {
	switch k % 6 {
	case 0:
		return []int{1 << 20}
	case 1:
		return []int{1}
	case 2:
		return []int{2}
	case 3:
		return []int{3, 7, 1}
	case 4:
		return []int{13}
	default:
		n := 1 + r.Intn(8)
		s := make([]int, n)
		for i := range s {
			s[i] = 1 + r.Intn(40)
		}
		return s
	}
}

// expectNode is the VerifNode a faithful decoder must produce for v.
func expectNode(v resp.V) rueidis.VerifNode {
	n := rueidis.VerifNode{Typ: v.T}
	if v.Attr != nil {
		a := rueidis.VerifNode{Typ: '|', Values: make([]rueidis.VerifNode, len(v.Attr))}
		for i, e := range v.Attr {
			a.Values[i] = expectNode(e)
		}
		n.Attrs = &a
	}
	if v.Null2 {
		n.Typ = '_'
		return n
	}
	switch v.T {
	case '*', '%', '~', '>':
		n.Values = make([]rueidis.VerifNode, len(v.A))
		for i, e := range v.A {
			n.Values[i] = expectNode(e)
		}
	case ':', '#':
		n.Int = v.I
	case '_':
	default:
		n.Str = v.S
	}
	return n
}

func nodeEqual(a, b rueidis.VerifNode) bool {
	if a.Typ != b.Typ || a.Str != b.Str || a.Int != b.Int || len(a.Values) != len(b.Values) {
		return false
	}
	if (a.Attrs == nil) != (b.Attrs == nil) {
		return false
	}
	if a.Attrs != nil && !nodeEqual(*a.Attrs, *b.Attrs) {
		return false
	}
	for i := range a.Values {
		if !nodeEqual(a.Values[i], b.Values[i]) {
			return false
		}
	}
	return true
}

func nodeString(n rueidis.VerifNode) string {
	var sb strings.Builder
	var w func(n rueidis.VerifNode)
	w = func(n rueidis.VerifNode) {
		if n.Attrs != nil {
			sb.WriteString("|")
			w(*n.Attrs)
		}
		fmt.Fprintf(&sb, "%c", n.Typ)
		switch {
		case n.Values != nil:
			sb.WriteString("[")
			for i, v := range n.Values {
				if i > 0 {
					sb.WriteString(" ")
				}
				w(v)
			}
			sb.WriteString("]")
		case n.Typ == ':' || n.Typ == '#':
			fmt.Fprintf(&sb, "%d", n.Int)
		default:
			fmt.Fprintf(&sb, "%q", n.Str)
		}
	}
	w(n)
	return sb.String()
}

func decodeAll(data []byte, sizes []int, bufsize int) ([]rueidis.VerifNode, error) {
	r := bufio.NewReaderSize(&chunkReader{data: data, sizes: sizes}, bufsize)
	var out []rueidis.VerifNode
	for {
		m, err := rueidis.VerifReadNextMessage(r)
		if err != nil {
			if err == io.EOF {
				return out, nil
			}
			return out, err
		}
		out = append(out, rueidis.VerifDump(m))
	}
}

// childEnv is set in re-executed child processes (crash isolation, DESIGN §1.8).
const childEnv = "VERIF_CHILD"

// runChild re-executes this test binary running only test name with the given env, returning combined output.
func runChild(test string, env map[string]string, memLimitMB int) (string, error) {
	cmd := exec.Command(os.Args[0], "-test.run", "^"+test+"$", "-test.count=1", "-test.timeout=0")
	cmd.Env = append(os.Environ(), childEnv+"=1", fmt.Sprintf("GOMEMLIMIT=%dMiB", memLimitMB))
	for k, v := range env {
		cmd.Env = append(cmd.Env, k+"="+v)
	}
	var out bytes.Buffer
	cmd.Stdout = &out
	cmd.Stderr = &out
	err := cmd.Run()
	return out.String(), err
}

func isChild() bool { return os.Getenv(childEnv) != "" }

func hexs(b []byte) string { return fmt.Sprintf("%q", b) }
