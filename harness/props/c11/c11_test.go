// Package c11 checks that batched cached reads (DoMultiCache, MGetCache, JsonMGetCache, DoCache(MGET),
// DoCache(JSON.MGET)) return, at position i or under key i, the reply for the i-th command / key, whatever mix of
// hits, in-flight waits (another caller's stalled request), misses and duplicates served the batch, on a single
// wire, on multiplexed wires and on a cluster.
package c11

import (
	"context"
	"fmt"
	"math/rand"
	"os"
	"sort"
	"strings"
	"sync"
	"testing"
	"testing/synctest"
	"time"

	"github.com/redis/rueidis"
	"verifh/drv"
	"verifh/fakeredis"
	"verifh/mon"
)

type simpleMap struct {
	mu sync.Mutex
	m  map[string]rueidis.RedisMessage
}

func (s *simpleMap) Get(key string) rueidis.RedisMessage {
	s.mu.Lock()
	defer s.mu.Unlock()
	return s.m[key]
}
func (s *simpleMap) Set(key string, val rueidis.RedisMessage) {
	s.mu.Lock()
	s.m[key] = val
	s.mu.Unlock()
}
func (s *simpleMap) Del(key string) { s.mu.Lock(); delete(s.m, key); s.mu.Unlock() }
func (s *simpleMap) Flush()         { s.mu.Lock(); s.m = map[string]rueidis.RedisMessage{}; s.mu.Unlock() }

const jsonPath = "$.f"

type config struct {
	id    int
	topo  string // single | mux | cluster
	mux   int    // PipelineMultiplex
	nodes int
	store string
	flow  bool
	seed  int64
}

func (c config) String() string {
	return fmt.Sprintf("#%d topo=%s mux=%d nodes=%d store=%s flowbuffer=%v seed=%d", c.id, c.topo, c.mux, c.nodes, c.store, c.flow, c.seed)
}
func (c config) shape() string {
	return fmt.Sprintf("%s/mux=%d/nodes=%d/%s", c.topo, c.mux, c.nodes, c.store)
}

// world is one server + client + the value function val(key).
type world struct {
	cfg    config
	s      *fakeredis.Server
	client rueidis.Client
	addrs  []string
	strs   []string            // string keys (some absent on the server)
	jsons  []string            // JSON keys (some absent)
	groups map[string][]string // hashtag groups (same slot): name -> keys; "s*" string groups, "j*" JSON groups
	want   map[string]string   // key -> expected reply ("<nil>" when absent); JSON keys: reply of JSON.GET key $.f
	isJSON map[string]bool
}

func (w *world) nodeFor(key string) *fakeredis.Node {
	if w.cfg.topo == "cluster" {
		return w.s.Node(w.s.SlotOwner(fakeredis.Slot(key)))
	}
	return w.s.Node(w.addrs[0])
}

func newWorld(cfg config, rng *rand.Rand, virtual bool) (*world, error) {
	w := &world{cfg: cfg, want: map[string]string{}, isJSON: map[string]bool{}, groups: map[string][]string{}}
	n := 1
	if cfg.topo == "cluster" {
		n = cfg.nodes
	}
	for i := 0; i < n; i++ {
		w.addrs = append(w.addrs, fmt.Sprintf("127.0.0.1:%d", 7000+i))
	}
	w.s = fakeredis.New(fakeredis.Options{Seed: cfg.seed, ChunkWrites: !virtual}, w.addrs...)
	if cfg.topo == "cluster" {
		w.s.EnableCluster()
	}
	addStr := func(k string) {
		w.strs = append(w.strs, k)
		if rng.Intn(6) == 0 {
			w.want[k] = "<nil>"
			return
		}
		w.want[k] = "v:" + k
		w.nodeFor(k).Exec("SET", k, "v:"+k)
	}
	addJSON := func(k string) {
		w.jsons = append(w.jsons, k)
		w.isJSON[k] = true
		if rng.Intn(6) == 0 {
			w.want[k] = "<nil>"
			return
		}
		w.want[k] = `["jv:` + k + `"]`
		w.nodeFor(k).Exec("JSON.SET", k, "$", `{"f":"jv:`+k+`","g":1}`)
	}
	for i := 0; i < 10; i++ {
		addStr(fmt.Sprintf("s%d", i))
	}
	for i := 0; i < 6; i++ {
		addJSON(fmt.Sprintf("j%d", i))
	}
	for _, g := range []string{"sa", "sb"} {
		for i := 0; i < 5; i++ {
			k := fmt.Sprintf("{%s}%d", g, i)
			addStr(k)
			w.groups[g] = append(w.groups[g], k)
		}
	}
	for _, g := range []string{"ja"} {
		for i := 0; i < 4; i++ {
			k := fmt.Sprintf("{%s}%d", g, i)
			addJSON(k)
			w.groups[g] = append(w.groups[g], k)
		}
	}
	opt := drv.Option(w.s, w.addrs...)
	switch cfg.topo {
	case "single":
		opt.ForceSingleClient = true
		opt.PipelineMultiplex = -1
	case "mux":
		opt.ForceSingleClient = true
		opt.PipelineMultiplex = cfg.mux
	case "cluster":
		opt.PipelineMultiplex = cfg.mux
	}
	if virtual {
		opt.Dialer.KeepAlive = -1
	}
	if cfg.store == "adapter" {
		opt.NewCacheStoreFn = func(rueidis.CacheStoreOption) rueidis.CacheStore {
			return rueidis.NewSimpleCacheAdapter(&simpleMap{m: map[string]rueidis.RedisMessage{}})
		}
	}
	var err error
	w.client, err = rueidis.NewClient(opt)
	if err != nil {
		w.s.Close()
		return nil, err
	}
	return w, nil
}

func (w *world) close(virtual bool) {
	if !virtual {
		w.client.Close()
		w.s.Close()
		return
	}
	await(time.Hour, w.client.Close) // the cluster client closes its connections asynchronously
	synctest.Wait()
	await(time.Hour, w.s.Close)
	if virtual {
		time.Sleep(3 * time.Second) // a lazy topology refresh scheduled by a late close hook sleeps up to 1 s before it notices the client is closed
	}
}

const (
	aMulti = iota // DoMultiCache (GET and JSON.GET commands, mixed)
	aMGetCache
	aJSONMGetCache
	aMGet     // DoCache(MGET)
	aJSONMGet // DoCache(JSON.MGET)
	nAPIs
)

var apiNames = []string{"DoMultiCache", "MGetCache", "JsonMGetCache", "DoCache(MGET)", "DoCache(JSON.MGET)"}

type batch struct {
	api  int
	keys []string
	ttl  time.Duration

	got  []string // per position ("<nil>", value, or "!err: ..")
	have []bool   // map-returning helpers: key present
	err  error
	done bool
}

func (b *batch) String() string {
	return fmt.Sprintf("%s%v", apiNames[b.api], b.keys)
}

// pickKeys draws a batch (with duplicates) from the domain of the API.
func (w *world) pickKeys(rng *rand.Rand, api int) []string {
	var dom []string
	switch api {
	case aMulti:
		dom = append(append([]string{}, w.strs...), w.jsons...)
	case aMGetCache:
		dom = w.strs
	case aJSONMGetCache:
		dom = w.jsons
	case aMGet:
		dom = w.strs
		if w.cfg.topo == "cluster" {
			dom = w.groups[[]string{"sa", "sb"}[rng.Intn(2)]]
		}
	case aJSONMGet:
		dom = w.jsons
		if w.cfg.topo == "cluster" {
			dom = w.groups["ja"]
		}
	}
	n := 1 + rng.Intn(8)
	if rng.Intn(6) == 0 {
		n = 9 + rng.Intn(12)
	}
	// work on a small sub-domain so that duplicates and overlaps are frequent
	sub := make([]string, 0, 6)
	for _, p := range rng.Perm(len(dom))[:min(len(dom), 2+rng.Intn(6))] {
		sub = append(sub, dom[p])
	}
	keys := make([]string, n)
	for i := range keys {
		keys[i] = sub[rng.Intn(len(sub))]
	}
	if api == aMGet || api == aJSONMGet {
		if rng.Intn(3) != 0 { // mostly distinct keys for the MGET forms, sometimes duplicates
			seen := map[string]bool{}
			var out []string
			for _, k := range keys {
				if !seen[k] {
					seen[k] = true
					out = append(out, k)
				}
			}
			keys = out
		}
	}
	return keys
}

func msgString(m rueidis.RedisMessage) string {
	if m.IsNil() {
		return "<nil>"
	}
	if err := m.Error(); err != nil {
		return "!err: " + err.Error()
	}
	s, err := m.ToString()
	if err != nil {
		return "!err: " + err.Error()
	}
	return s
}

func (w *world) cacheable(k string) rueidis.Cacheable {
	if w.isJSON[k] {
		return w.client.B().JsonGet().Key(k).Path(jsonPath).Cache()
	}
	return w.client.B().Get().Key(k).Cache()
}

func (w *world) do(ctx context.Context, b *batch) {
	c := w.client
	b.got = make([]string, len(b.keys))
	b.have = make([]bool, len(b.keys))
	defer func() { b.done = true }()
	switch b.api {
	case aMulti:
		cts := make([]rueidis.CacheableTTL, len(b.keys))
		for i, k := range b.keys {
			cts[i] = rueidis.CT(w.cacheable(k), b.ttl)
		}
		res := c.DoMultiCache(ctx, cts...)
		if len(res) != len(b.keys) {
			b.err = fmt.Errorf("DoMultiCache returned %d results for %d commands", len(res), len(b.keys))
			return
		}
		for i, r := range res {
			m, err := r.ToMessage()
			if err != nil && !rueidis.IsRedisNil(err) {
				b.got[i] = "!err: " + err.Error()
			} else {
				b.got[i] = msgString(m)
			}
			b.have[i] = true
		}
	case aMGetCache, aJSONMGetCache:
		var m map[string]rueidis.RedisMessage
		if b.api == aMGetCache {
			m, b.err = rueidis.MGetCache(c, ctx, b.ttl, b.keys)
		} else {
			m, b.err = rueidis.JsonMGetCache(c, ctx, b.ttl, b.keys, jsonPath)
		}
		if b.err != nil {
			return
		}
		distinct := map[string]bool{}
		for i, k := range b.keys {
			distinct[k] = true
			if v, ok := m[k]; ok {
				b.got[i], b.have[i] = msgString(v), true
			}
		}
		if len(m) != len(distinct) {
			b.err = fmt.Errorf("helper returned %d map entries for %d distinct keys", len(m), len(distinct))
		}
	case aMGet, aJSONMGet:
		var cmd rueidis.Cacheable
		if b.api == aMGet {
			cmd = c.B().Mget().Key(b.keys...).Cache()
		} else {
			cmd = c.B().JsonMget().Key(b.keys...).Path(jsonPath).Cache()
		}
		arr, err := c.DoCache(ctx, cmd, b.ttl).ToArray()
		if err != nil {
			b.err = err
			return
		}
		if len(arr) != len(b.keys) {
			b.err = fmt.Errorf("reply has %d elements for %d keys", len(arr), len(b.keys))
			return
		}
		for i := range arr {
			b.got[i], b.have[i] = msgString(arr[i]), true
		}
	}
}

// check compares a finished batch with val(key_i) per position.
func (w *world) check(run *mon.Run, b *batch, prepared map[string]string, mode string) {
	cfg := w.cfg
	// the prepared entries live in the cache of the wire that serves GET k / JSON.GET k; an MGET form on multiplexed
	// wires is served by the wire of its last key, whose cache does not hold the other wires' entries
	state := map[string]string{}
	for _, k := range b.keys {
		state[k] = prepared[k]
		if cfg.topo == "mux" && (b.api == aMGet || b.api == aJSONMGet) && prepared[k] != "" {
			mask := 1<<cfg.mux - 1
			if fakeredis.Slot(k)&mask != fakeredis.Slot(b.keys[len(b.keys)-1])&mask {
				state[k] = "miss"
			}
		}
	}
	pat := map[string]int{}
	for _, k := range b.keys {
		pat[state[k]]++
	}
	dups := 0
	{
		seen := map[string]bool{}
		for _, k := range b.keys {
			if seen[k] {
				dups++
			}
			seen[k] = true
		}
	}
	var ps []string
	for _, st := range []string{"hit", "pending", "miss"} {
		if pat[st] > 0 {
			ps = append(ps, st)
		}
	}
	patS := strings.Join(ps, "+")
	wit := func() map[string]any {
		want := make([]string, len(b.keys))
		st := make([]string, len(b.keys))
		for i, k := range b.keys {
			want[i] = w.want[k]
			st[i] = state[k]
		}
		return map[string]any{"config": cfg.String(), "mode": mode, "api": apiNames[b.api], "keys": b.keys, "cache_state_per_position": st, "got": b.got, "want": want, "err": fmt.Sprint(b.err)}
	}
	key := fmt.Sprintf("%s/%s/%s/%s", cfg.topo, cfg.store, apiNames[b.api], patS)
	run.Case(fmt.Sprintf("%s|%s|%s|%s|dups=%v|len=%d", cfg.shape(), mode, apiNames[b.api], patS, dups > 0, min(len(b.keys), 9)/3), len(b.keys) > 1)
	run.Observe("batches", 1)
	run.Observe("positions", int64(len(b.keys)))
	if dups > 0 {
		run.Observe("batches_with_duplicates", 1)
	}
	if len(ps) > 1 {
		run.Observe("batches_with_mixed_cache_state", 1)
	}
	if pat["pending"] > 0 {
		run.Observe("positions_waiting_on_another_callers_request", int64(pat["pending"]))
	}
	if !b.done {
		run.Violation("batch-never-returned", key, wit())
		return
	}
	if b.err != nil {
		run.Violation("unexpected-error", key, wit())
		return
	}
	for i, k := range b.keys {
		if !b.have[i] {
			run.Violation("missing-entry", key, wit())
			return
		}
		if b.got[i] != w.want[k] {
			wt := wit()
			wt["position"] = i
			run.Violation("wrong-position", key, wt)
			return
		}
	}
}

// ---- virtual-time scenario: prepared hit / pending / miss pattern

func runPrepared(t *testing.T, run *mon.Run, cfg config) {
	rng := rand.New(rand.NewSource(cfg.seed))
	if cfg.flow {
		rueidis.VerifSetQueueType("flowbuffer")
		defer rueidis.VerifSetQueueType("")
	}
	w, err := newWorld(cfg, rng, true)
	if err != nil {
		run.Inconclusive("client setup failed: " + err.Error())
		return
	}
	defer w.close(true)
	ctx := context.Background()
	const ttl = time.Hour

	// 1-3 batches under test, issued concurrently after the cache state was prepared
	nb := 1 + rng.Intn(3)
	var batches []*batch
	for i := 0; i < nb; i++ {
		api := rng.Intn(nAPIs)
		batches = append(batches, &batch{api: api, keys: w.pickKeys(rng, api), ttl: ttl})
	}
	// cache state per distinct key
	state := map[string]string{}
	var hits, pend []string
	for _, b := range batches {
		for _, k := range b.keys {
			if _, ok := state[k]; ok {
				continue
			}
			switch rng.Intn(3) {
			case 0:
				state[k] = "hit"
				hits = append(hits, k)
			case 1:
				state[k] = "pending"
				pend = append(pend, k)
			default:
				state[k] = "miss"
			}
		}
	}
	// hits: read them once
	if len(hits) > 0 {
		pre := &batch{api: aMulti, keys: hits, ttl: ttl}
		if !await(time.Hour, func() { w.do(ctx, pre) }) {
			run.Violation("hang", cfg.topo+"/"+cfg.store, map[string]any{"config": cfg.String(), "what": "warm-up DoMultiCache never returned", "keys": hits, "rueidis_frames": drv.RueidisFrames(bubbleStacks())})
			return
		}
		if pre.err != nil {
			run.Inconclusive("prefetch failed: " + pre.err.Error())
			return
		}
		synctest.Wait()
	}
	// pending: other callers' requests, held by the server at the first PTTL of a pending key on each connection
	var mu sync.Mutex
	stalled := map[int64]bool{}
	pendSet := map[string]bool{}
	for _, k := range pend {
		pendSet[k] = true
	}
	w.s.Plan(&fakeredis.Rule{Name: "hold-pending", Match: func(c *fakeredis.Conn, a []string) bool {
		if len(a) < 2 || !strings.EqualFold(a[0], "PTTL") || !pendSet[a[1]] {
			return false
		}
		mu.Lock()
		defer mu.Unlock()
		if stalled[c.ID] {
			return false
		}
		stalled[c.ID] = true
		return true
	}, Action: fakeredis.Action{Stall: true}})
	var others []*batch
	var wg sync.WaitGroup
	if len(pend) > 0 {
		// split the pending keys over 1-2 other callers; same-slot string groups may also be fetched by MGET
		parts := [][]string{pend}
		if len(pend) > 1 && rng.Intn(2) == 0 {
			cut := 1 + rng.Intn(len(pend)-1)
			parts = [][]string{pend[:cut], pend[cut:]}
		}
		for _, p := range parts {
			ob := &batch{api: aMulti, keys: append([]string{}, p...), ttl: ttl}
			allStr, allJSON, sameSlot := true, true, true
			for _, k := range p {
				allStr = allStr && !w.isJSON[k]
				allJSON = allJSON && w.isJSON[k]
				sameSlot = sameSlot && fakeredis.Slot(k) == fakeredis.Slot(p[0])
			}
			if (w.cfg.topo == "single" || (w.cfg.topo == "cluster" && sameSlot)) && rng.Intn(2) == 0 {
				if allStr {
					ob.api = aMGet
				} else if allJSON {
					ob.api = aJSONMGet
				}
			}
			others = append(others, ob)
			wg.Add(1)
			go func() { defer wg.Done(); w.do(ctx, ob) }()
		}
		synctest.Wait()
		mu.Lock()
		ns := len(stalled)
		mu.Unlock()
		if ns == 0 {
			run.Inconclusive("no connection was holding a pending request")
			w.s.Resume()
			await(time.Hour, wg.Wait)
			return
		}
		run.Observe("connections_holding_a_pending_request", int64(ns))
	}
	// the batches under test
	for _, b := range batches {
		wg.Add(1)
		go func() { defer wg.Done(); w.do(ctx, b) }()
	}
	synctest.Wait()
	returnedEarly := 0
	for _, b := range batches {
		if b.done {
			returnedEarly++
		}
	}
	w.s.ClearPlan()
	w.s.Resume()
	if !await(time.Hour, wg.Wait) { // bounded in virtual time: it only runs out when every goroutine is durably blocked
		stacks := bubbleStacks()
		var stuck []string
		for _, b := range append(append([]*batch{}, batches...), others...) {
			if !b.done {
				stuck = append(stuck, b.String())
			}
		}
		run.Violation("hang", cfg.topo+"/"+cfg.store, map[string]any{"config": cfg.String(), "what": "batches never returned after the server was released", "stuck": stuck, "state": fmt.Sprint(state), "rueidis_frames": drv.RueidisFrames(stacks), "stacks": drv.Tail(stacks, 12000)})
		return
	}
	synctest.Wait()
	for _, b := range batches {
		w.check(run, b, state, "prepared")
	}
	for _, ob := range others { // the other callers are batched cached reads too
		st := map[string]string{}
		for _, k := range ob.keys {
			st[k] = "miss"
		}
		w.check(run, ob, st, "pending-owner")
	}
	if cfg.id%41 == 0 {
		run.Sample(map[string]any{"config": cfg.String(), "state": fmt.Sprint(state), "batches": fmt.Sprint(batches), "others": fmt.Sprint(others), "returned_before_resume": returnedEarly})
	}
}

// ---- real-time scenario (-race): concurrent callers, short TTLs so that hits, in-flight waits and misses keep alternating
func runRealtime(run *mon.Run, cfg config, callers, rounds int) {
	rng := rand.New(rand.NewSource(cfg.seed))
	if cfg.flow {
		rueidis.VerifSetQueueType("flowbuffer")
		defer rueidis.VerifSetQueueType("")
	}
	w, err := newWorld(cfg, rng, false)
	if err != nil {
		run.Inconclusive("client setup failed: " + err.Error())
		return
	}
	defer w.close(false)
	var wg sync.WaitGroup
	var rmu sync.Mutex
	var all []*batch
	for g := 0; g < callers; g++ {
		wg.Add(1)
		r := rand.New(rand.NewSource(cfg.seed*31 + int64(g)))
		go func() {
			defer wg.Done()
			for i := 0; i < rounds; i++ {
				api := r.Intn(nAPIs)
				rmu.Lock()
				keys := w.pickKeys(r, api)
				rmu.Unlock()
				b := &batch{api: api, keys: keys, ttl: []time.Duration{time.Millisecond, 3 * time.Millisecond, time.Hour}[r.Intn(3)]}
				w.do(context.Background(), b)
				rmu.Lock()
				all = append(all, b)
				rmu.Unlock()
			}
		}()
	}
	wg.Wait()
	for _, b := range all {
		w.check(run, b, map[string]string{}, "realtime")
	}
	run.Observe("realtime_runs", 1)
}

func TestC11(t *testing.T) {
	run := mon.Start(t, "C11", "exploration",
		"every key k holds val(k) (or is absent); batches of 1-20 keys with duplicates through DoMultiCache (GET and JSON.GET mixed), MGetCache, JsonMGetCache, DoCache(MGET), DoCache(JSON.MGET); "+
			"in synctest bubbles each distinct key is first put into a chosen cache state: hit (read before), pending (another caller's DoMultiCache / MGET held by the server), miss; 1-3 batches are then issued concurrently and the server released; "+
			"real-time -race runs with 6 concurrent callers and 1 ms / 3 ms / 1 h TTLs; configurations: one wire, 2/4/8 multiplexed wires, cluster of 3-6 nodes (keys in many slots, hashtag groups for the MGET forms), built-in store and NewSimpleCacheAdapter, ring and flowbuffer; "+
			"a case = (configuration, API, set of cache states in the batch, duplicates, length class) of a batch with more than one position")
	defer run.Finish()
	run.Assume("values never change during a scenario, so every reply for key k must be val(k) whichever request produced it",
		"fakeredis answers GET / MGET / JSON.GET / JSON.MGET per key from the same keyspace (checked by its own smoke test)")

	rng := run.Rand("configs")
	mk := func(id int) config {
		cfg := config{id: id, store: []string{"builtin", "adapter"}[id%2], seed: rng.Int63(), flow: id%5 == 3}
		switch id % 4 {
		case 0:
			cfg.topo = "single"
			cfg.mux = -1
		case 1, 2:
			cfg.topo = "mux"
			cfg.mux = 1 + rng.Intn(3)
		case 3:
			cfg.topo = "cluster"
			cfg.nodes = 3 + rng.Intn(4)
			cfg.mux = rng.Intn(2)
		}
		return cfg
	}
	n := run.N(360, 12000)
	t0 := time.Now()
	for i := 0; i < n; i++ {
		cfg := mk(i)
		if only := os.Getenv("VERIF_C11_ONLY"); only != "" && only != fmt.Sprint(i) {
			continue
		}
		dl, stacks := drv.Bubble(t, func() { runPrepared(t, run, cfg) })
		if dl != "" {
			run.Violation("hang", cfg.topo+"/"+cfg.store, map[string]any{"config": cfg.String(), "synctest": dl, "rueidis_frames": drv.RueidisFrames(stacks), "stacks": drv.Tail(stacks, 12000)})
		}
		run.Observe("bubbles", 1)
		run.Observe("bubbles_"+cfg.topo, 1)
	}
	run.Extra("bubble_phase_s", time.Since(t0).Seconds())
	nr := run.N(16, 400)
	for i := 0; i < nr; i++ {
		cfg := mk(100000 + i)
		runRealtime(run, cfg, 6, run.N(25, 60))
		run.Observe("realtime_"+cfg.topo, 1)
	}
	var ks []string
	for _, k := range []string{"batches_with_duplicates", "batches_with_mixed_cache_state", "positions_waiting_on_another_callers_request", "connections_holding_a_pending_request", "bubbles_single", "bubbles_mux", "bubbles_cluster", "realtime_single", "realtime_mux", "realtime_cluster"} {
		ks = append(ks, k)
	}
	sort.Strings(ks)
	run.Require(ks...)
}
