package c13

import (
	"bufio"
	"bytes"
	"encoding/hex"
	"fmt"
	"io"
	"os"
	"runtime"
	"strconv"
	"strings"
	"syscall"
	"testing"

	"github.com/redis/rueidis"
	"verifh/drv"
	"verifh/mon"
	"verifh/resp"
)

// hostile length spellings for every length-carrying frame
var c13Lens = []string{"-2", "-5", "-9223372036854775808", "-9223372036854775807", "2147483647", "2147483648", "4294967296", "1000000000", "4611686018427387904",
	"9223372036854775807", "9223372036854775808", "99999999999999999999", "-", "", "?", "1e3", "0x10", "+5", " 5", "5 ", "18446744073709551615", "-0", "00000000000000000000000000000005"}

func c13Inputs(run *mon.Run) [][]byte {
	rng := run.Rand("inputs")
	var in [][]byte
	add := func(b []byte) { in = append(in, b) }
	// 1. every length-carrying type x hostile length x context
	for _, t := range []string{"$", "!", "=", "*", "%", "~", ">", "|", ";"} {
		for _, l := range c13Lens {
			add([]byte(t + l + "\r\n"))
			add([]byte(t + l + "\r\nabc\r\n"))
			add([]byte("*2\r\n" + t + l + "\r\n:1\r\n"))
			add([]byte("%1\r\n+k\r\n" + t + l + "\r\n"))
			add([]byte("$?\r\n;" + l + "\r\nabc\r\n;0\r\n"))
			add([]byte("*?\r\n" + t + l + "\r\n.\r\n"))
			add([]byte("|1\r\n+a\r\n" + t + l + "\r\n+x\r\n"))
		}
	}
	// 2. unknown type bytes, missing CR, bare lines
	for c := 0; c < 256; c++ {
		add([]byte{byte(c), '\r', '\n'})
		add([]byte{byte(c), '1', '\n'})
		add([]byte{byte(c)})
		add([]byte{byte(c), '\n'})
	}
	for _, s := range []string{"\r\n", "\n", "+", "+\n", "+OK", "+OK\r", "+OK\n", "OK\r\n", ":\r\n", ":-\r\n", ":a\r\n", "#\r\n", "#x\r\n", "#t", "_", "_\r", "_x\r\n", "$0\r\n", "$0\r\n\r", "$1\r\na", "$1\r\nabc", "$3\r\nab\r\n",
		"*1\r\n", "*1\r\n$", "%1\r\n+a\r\n", "|1\r\n+a\r\n+b\r\n", "|1\r\n+a\r\n+b\r\n|1\r\n+a\r\n+b\r\n", ".\r\n", "*?\r\n", "*?\r\n.\r", "$?\r\n", "$?\r\n;", "$?\r\n;1\r\n", "$?\r\n;1\r\na", "$?\r\n:1\r\n", "$?\r\n;1\r\nab\r\n;0\r\n", "%?\r\n+a\r\n.\r\n", ";5\r\nhello\r\n", ";0\r\n"} {
		add([]byte(s))
	}
	// 3. deep nesting (bounded here; the unbounded form is discussed in DESIGN.md)
	for _, d := range []int{10, 1000, 20000} {
		add(bytes.Repeat([]byte("*1\r\n"), d))
		add(bytes.Repeat([]byte("|1\r\n+a\r\n"), d))
		add(bytes.Repeat([]byte("*?\r\n"), d))
	}
	// 4. mutations of valid frames: truncation at every offset, byte flips, inserted bytes, length edits
	n := run.N(400, 20000)
	for i := 0; i < n; i++ {
		o := resp.GenOpts{MaxDepth: 1 + rng.Intn(4), MaxWidth: 1 + rng.Intn(5), Attrs: true, Streams: true, Push: true}
		data := resp.Encode(nil, resp.Gen(rng, o))
		if len(data) > 300 {
			data = data[:300]
		}
		switch i % 4 {
		case 0:
			for cut := 0; cut < len(data); cut++ {
				add(append([]byte{}, data[:cut]...))
			}
		case 1:
			for k := 0; k < 8; k++ {
				m := append([]byte{}, data...)
				for f := 0; f <= rng.Intn(3); f++ {
					const al = "\r\n$*%~>|;:+-_#,(!=?.0123456789"
					m[rng.Intn(len(m))] = al[rng.Intn(len(al))]
				}
				add(m)
			}
		case 2:
			for k := 0; k < 8; k++ {
				m := append([]byte{}, data...)
				p := rng.Intn(len(m) + 1)
				ins := []string{"-", "9", "99999999", "\r\n", "$", "*", "?", "\x00"}[rng.Intn(8)]
				add(append(m[:p:p], append([]byte(ins), m[p:]...)...))
			}
		case 3:
			// replace each decimal run after a type byte by a hostile length
			s := string(data)
			for p := 0; p+1 < len(s); p++ {
				if strings.IndexByte("$*%~>|;!=", s[p]) >= 0 && (p == 0 || s[p-1] == '\n') {
					e := strings.Index(s[p:], "\r\n")
					if e > 0 {
						add([]byte(s[:p+1] + c13Lens[rng.Intn(len(c13Lens))] + s[p+e:]))
					}
				}
			}
		}
	}
	return in
}

const c13AllocFactor, c13AllocSlack = 64, 4 << 20

// decodeOnce runs one decode under recover and reports what happened. The decode runs on a goroutine of its own: its
// stack starts small, so the growth of the stack spans between the two readings is what this input needed. Measured on
// the long-lived test goroutine the figure was polluted by the runtime shrinking that goroutine's stack some inputs after
// a deeply nested one (the half-size copy is allocated while the old stack is still accounted for: +8 MiB out of nowhere).
func c13DecodeOnce(in []byte, stream bool, sizes []int) (status string, alloc uint64) {
	type res struct {
		st    string
		alloc uint64
	}
	ch := make(chan res, 1)
	go func() {
		st, a := c13DecodeHere(in, stream, sizes)
		ch <- res{st, a}
	}()
	r := <-ch
	return r.st, r.alloc
}

func c13DecodeHere(in []byte, stream bool, sizes []int) (status string, alloc uint64) {
	r := bufio.NewReaderSize(&drv.ChunkReader{Data: in, Sizes: sizes}, 64)
	var ms0, ms1 runtime.MemStats
	runtime.ReadMemStats(&ms0)
	func() {
		defer func() {
			if p := recover(); p != nil {
				status = "panic: " + fmt.Sprint(p)
			}
		}()
		for k := 0; k < 1000; k++ {
			var err error
			if stream {
				_, err, _ = rueidis.VerifStreamTo(r, io.Discard)
				if err != nil && (rueidis.IsRedisNil(err) || isRedisErr(err) || strings.HasPrefix(err.Error(), "unsupported redis")) {
					err = nil
				}
			} else {
				_, err = rueidis.VerifReadNextMessage(r)
			}
			if err != nil {
				if err == io.EOF && k > 0 {
					status = "ok" // every byte was consumed by complete frames
				} else {
					status = "rejected"
				}
				return
			}
		}
		status = "ok"
	}()
	runtime.ReadMemStats(&ms1)
	return status, ms1.TotalAlloc - ms0.TotalAlloc + (ms1.StackSys - min(ms1.StackSys, ms0.StackSys))
}

func isRedisErr(err error) bool { _, ok := rueidis.IsRedisErr(err); return ok }

// TestC13Child is the crash-isolated worker: it decodes inputs [from, to) of the file and logs B/E lines.
func TestC13Child(t *testing.T) {
	if !drv.IsChild() {
		t.Skip("child only")
	}
	_ = syscall.Setrlimit(syscall.RLIMIT_AS, &syscall.Rlimit{Cur: 12 << 30, Max: 12 << 30})
	lines := strings.Split(strings.TrimSpace(readFile(t, os.Getenv("VERIF_INPUTS"))), "\n")
	from, _ := strconv.Atoi(os.Getenv("VERIF_FROM"))
	for i := from; i < len(lines); i++ {
		in, _ := hex.DecodeString(lines[i])
		for mode := 0; mode < 3; mode++ {
			os.Stdout.WriteString(fmt.Sprintf("B %d %d\n", i, mode))
			st, alloc := c13DecodeOnce(in, mode == 2, [][]int{{1 << 20}, {1}, {5}}[mode])
			os.Stdout.WriteString(fmt.Sprintf("E %d %d %d %s\n", i, mode, alloc, strings.ReplaceAll(st, "\n", " ")))
		}
	}
	os.Stdout.WriteString("DONE\n")
}

func readFile(t *testing.T, p string) string {
	b, err := os.ReadFile(p)
	if err != nil {
		t.Fatal(err)
	}
	return string(b)
}

// C13: decoding any byte sequence returns a value or an error: no panic, no fatal error, no allocation far beyond the bytes received.
func TestC13(t *testing.T) {
	if drv.IsChild() {
		t.Skip()
	}
	run := mon.Start(t, "C13", "exploration",
		"hostile byte sequences: every length-carrying type byte x 23 hostile length spellings x 7 contexts, all 256 type bytes, truncations at every offset / byte flips / insertions / length edits of valid frames, nesting to depth 20000; "+
			"each decoded by readNextMessage (whole and 1-byte reads) and streamTo in a crash-isolated child with an address-space limit; oracle: no panic, no process death, TotalAlloc+stack growth <= 64 x bytes delivered + 4 MiB per call; distinct by input bytes, non-trivial = rejected or crashing input (accepted inputs are C12's domain)")
	defer run.Finish()
	run.Assume("a process death is attributed to the last input logged before it", "allocation is measured with runtime.MemStats (TotalAlloc + StackSys growth) around each call")
	inputs := c13Inputs(run)
	dir, err := os.MkdirTemp("", "c13")
	if err != nil {
		t.Fatal(err)
	}
	defer os.RemoveAll(dir)
	var sb strings.Builder
	for _, in := range inputs {
		sb.WriteString(hex.EncodeToString(in))
		sb.WriteByte('\n')
	}
	file := dir + "/inputs"
	if err := os.WriteFile(file, []byte(sb.String()), 0o644); err != nil {
		t.Fatal(err)
	}
	from := 0
	for from < len(inputs) {
		out, cerr := drv.RunChild("TestC13Child", map[string]string{"VERIF_INPUTS": file, "VERIF_FROM": strconv.Itoa(from)}, 4096)
		last, lastMode, open := -1, 0, false
		done := false
		for _, line := range strings.Split(out, "\n") {
			f := strings.SplitN(line, " ", 5)
			switch {
			case line == "DONE":
				done = true
			case len(f) >= 3 && f[0] == "B":
				last, _ = strconv.Atoi(f[1])
				lastMode, _ = strconv.Atoi(f[2])
				open = true
			case len(f) >= 5 && f[0] == "E":
				open = false
				i, _ := strconv.Atoi(f[1])
				mode, _ := strconv.Atoi(f[2])
				alloc, _ := strconv.ParseUint(f[3], 10, 64)
				st := f[4]
				in := inputs[i]
				run.Observe("decode_calls", 1)
				if mode == 0 {
					run.Case(string(in), st != "ok")
					if i%1500 == 0 {
						run.Sample(map[string]any{"input": drv.Hexs(in), "result": st, "alloc_bytes": alloc})
					}
				}
				run.Observe("result_"+strings.SplitN(st, ":", 2)[0], 1)
				if strings.HasPrefix(st, "panic") {
					run.Violation("panic", fmt.Sprintf("mode=%d input=%s", mode, drv.Hexs(in)), map[string]any{"input": drv.Hexs(in), "mode": mode, "panic": st})
				}
				if alloc > uint64(c13AllocFactor*len(in)+c13AllocSlack) {
					run.Violation("over-allocation", fmt.Sprintf("mode=%d input=%s", mode, drv.Hexs(drv.Trunc(in, 120))), map[string]any{"input": drv.Hexs(drv.Trunc(in, 400)), "input_len": len(in), "mode": mode, "alloc_bytes": alloc})
				}
			}
		}
		if done {
			break
		}
		if !open || last < from {
			run.Inconclusive("child ended without progress")
			fmt.Printf("BROKEN property=C13 child made no progress from %d: %v\n%s\n", from, cerr, drv.Tail(out, 2000))
			t.Fatalf("child made no progress")
		}
		// the child died inside input `last`
		run.Observe("process_deaths", 1)
		run.Violation("process-death", fmt.Sprintf("mode=%d input=%s", lastMode, drv.Hexs(drv.Trunc(inputs[last], 120))), map[string]any{"input": drv.Hexs(drv.Trunc(inputs[last], 400)), "input_len": len(inputs[last]), "mode": lastMode, "child_tail": drv.Tail(out, 1500)})
		from = last + 1
	}
}
