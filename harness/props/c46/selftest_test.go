package c46

import (
	"iter"
	"os"
	"testing"

	"github.com/redis/rueidis"
	"verifh/mon"
)

type fakeTB struct{ errors int }

func (f *fakeTB) Helper()               {}
func (f *fakeTB) Logf(string, ...any)   {}
func (f *fakeTB) Errorf(string, ...any) { f.errors++ }
func (f *fakeTB) Fatalf(string, ...any) { panic("fatal") }
func (f *fakeTB) Name() string          { return "selftest" }

// mscanner is a re-implementation of the Scanner with a selectable fault.
type mscanner struct {
	next  func(uint64) (rueidis.ScanEntry, error)
	err   error
	fault string
}

func (s *mscanner) Err() error {
	if s.fault == "error-swallowed" {
		return nil
	}
	return s.err
}

func (s *mscanner) scan() iter.Seq[[]string] {
	return func(yield func([]string) bool) {
		var e rueidis.ScanEntry
		calls := uint64(0)
		for e, s.err = s.next(0); s.err == nil; {
			if s.fault == "empty-page-ends-scan" && len(e.Elements) == 0 {
				return
			}
			if !yield(e.Elements) || e.Cursor == 0 {
				return
			}
			calls++
			cur := e.Cursor
			if s.fault == "cursor-not-followed" {
				cur = calls
			}
			if s.fault == "cursor-truncated-to-32-bits" {
				cur = uint64(uint32(cur))
				if cur == 0 {
					cur = 1
				}
			}
			e, s.err = s.next(cur)
		}
	}
}

func (s *mscanner) Iter() iter.Seq[string] {
	return func(yield func(string) bool) {
		stopped := false
		s.scan()(func(vs []string) bool {
			for _, v := range vs {
				if !yield(v) {
					stopped = true
					if s.fault == "stop-only-ends-page" {
						return true // classic: break out of the inner loop only
					}
					if s.fault == "fetch-after-stop-at-page-end" && len(vs) > 0 && v == vs[len(vs)-1] {
						return true
					}
					return false
				}
			}
			if stopped && s.fault == "stop-only-ends-page" {
				return true
			}
			return true
		})
	}
}

func (s *mscanner) Iter2() iter.Seq2[string, string] {
	return func(yield func(string, string) bool) {
		s.scan()(func(vs []string) bool {
			step := 2
			if s.fault == "pairs-overlap" {
				step = 1
			}
			for i := 0; i+1 < len(vs); i += step {
				if !yield(vs[i], vs[i+1]) {
					return false
				}
			}
			return true
		})
	}
}

// TestC46SelfTest plays the scenarios against faulty scanners; every fault must be reported. VERIF_SELFTEST=1 only.
func TestC46SelfTest(t *testing.T) {
	if os.Getenv("VERIF_SELFTEST") == "" {
		t.Skip("VERIF_SELFTEST not set")
	}
	mon.Root = t.TempDir()
	for _, fault := range []string{"", "error-swallowed", "empty-page-ends-scan", "cursor-not-followed", "cursor-truncated-to-32-bits", "stop-only-ends-page", "fetch-after-stop-at-page-end", "pairs-overlap"} {
		tb := &fakeTB{}
		run := mon.Start(tb, "C46", "exploration", "selftest")
		c := &checker{run: run, mk: func(next func(uint64) (rueidis.ScanEntry, error)) scanner {
			return &mscanner{next: next, fault: fault}
		}}
		c.all()
		v := run.Violations()
		run.Finish()
		t.Logf("fault %q: %d violations", fault, v)
		if (fault == "") != (v == 0) {
			t.Errorf("fault %q: %d violations", fault, v)
		}
	}
}
