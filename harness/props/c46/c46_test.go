package c46

import (
	"errors"
	"fmt"
	"iter"
	"math"
	"math/rand"
	"strings"
	"testing"

	"github.com/redis/rueidis"
	"verifh/mon"
)

// scanner is what C46 talks about (rueidis.Scanner; mutants in the driver's self test).
type scanner interface {
	Iter() iter.Seq[string]
	Iter2() iter.Seq2[string, string]
	Err() error
}

type factory func(next func(cursor uint64) (rueidis.ScanEntry, error)) scanner

func realFactory(next func(cursor uint64) (rueidis.ScanEntry, error)) scanner {
	return rueidis.NewScanner(next)
}

// page is one scripted answer of the server.
type page struct {
	elems  []string
	cursor uint64 // returned cursor; 0 on the last page
}

// scenario: the pages of a full scan, an optional failing page, an optional consumer stop and the iterator used.
type scenario struct {
	pages  []page
	failAt int // index of the page whose fetch fails, -1: none
	stop   int // the consumer stops after this many yields, 0: never
	pairs  bool
	second bool // the Scanner already served one (failed) iteration before
}

func (s scenario) key() string {
	var sz, cu []string
	for _, p := range s.pages {
		sz = append(sz, fmt.Sprint(len(p.elems)))
		cu = append(cu, fmt.Sprint(p.cursor))
	}
	mode := "Iter"
	if s.pairs {
		mode = "Iter2"
	}
	if s.second {
		mode += "(reused)"
	}
	if len(sz) > 12 {
		sz = append(sz[:12], fmt.Sprintf("…%d", len(s.pages)))
		cu = append(cu[:12], "…")
	}
	return fmt.Sprintf("%s sizes=[%s] cursors=[%s] fail=%d stop=%d", mode, strings.Join(sz, ","), strings.Join(cu, ","), s.failAt, s.stop)
}

type checker struct {
	run *mon.Run
	mk  factory
}

var errPage = errors.New("c46: scripted page failure")

// play runs one scenario against a scanner and judges it.
func (c *checker) play(s scenario) {
	run := c.run
	key := s.key()
	run.Case(key, len(s.pages) > 1 || s.stop > 0 || s.failAt >= 0)

	var calls []uint64
	overrun := 0
	stopped := false
	callsAfterStop := 0
	next := func(cursor uint64) (rueidis.ScanEntry, error) {
		k := len(calls)
		calls = append(calls, cursor)
		if stopped {
			callsAfterStop++
		}
		last := len(s.pages) - 1
		if s.failAt >= 0 {
			last = s.failAt
		}
		if k > last {
			overrun++ // asked for more after the final page / after the failure: end the scan so that the driver terminates
			return rueidis.ScanEntry{}, nil
		}
		if k == s.failAt {
			return rueidis.ScanEntry{}, errPage
		}
		return rueidis.ScanEntry{Elements: s.pages[k].elems, Cursor: s.pages[k].cursor}, nil
	}
	sc := c.mk(next)
	if s.second {
		// a first iteration over the same Scanner that fails immediately
		first := true
		inner := next
		next = func(cursor uint64) (rueidis.ScanEntry, error) {
			if first {
				first = false
				return rueidis.ScanEntry{}, errors.New("c46: failure of an earlier iteration")
			}
			return inner(cursor)
		}
		sc = c.mk(func(cur uint64) (rueidis.ScanEntry, error) { return next(cur) })
		for range sc.Iter() {
		}
	}

	// what a correct scanner delivers
	lastPage := len(s.pages) - 1
	if s.failAt >= 0 {
		lastPage = s.failAt - 1
	}
	var want []string
	for i := 0; i <= lastPage; i++ {
		want = append(want, s.pages[i].elems...)
	}
	units := len(want) // number of yields of a complete iteration
	if s.pairs {
		units = 0
		for i := 0; i <= lastPage; i++ {
			units += len(s.pages[i].elems) / 2
		}
	}
	wantYields := units
	if s.stop > 0 && s.stop < units {
		wantYields = s.stop
	}
	consumerStops := s.stop > 0 && s.stop <= units

	var got []string
	yields, yieldsAfterStop := 0, 0
	var perr any
	func() {
		defer func() { perr = recover() }()
		if s.pairs {
			sc.Iter2()(func(k, v string) bool {
				if stopped {
					yieldsAfterStop++
					return false
				}
				yields++
				got = append(got, k, v)
				if yields == s.stop {
					stopped = true
					return false
				}
				return true
			})
		} else {
			sc.Iter()(func(v string) bool {
				if stopped {
					yieldsAfterStop++
					return false
				}
				yields++
				got = append(got, v)
				if yields == s.stop {
					stopped = true
					return false
				}
				return true
			})
		}
	}()
	witness := func(extra map[string]any) map[string]any {
		w := map[string]any{"scenario": key, "cursors_passed_to_next": calls, "yielded": len(got), "want_yields": wantYields}
		for k, v := range extra {
			w[k] = v
		}
		return w
	}
	if perr != nil {
		run.Violation("panic", key, witness(map[string]any{"panic": fmt.Sprint(perr)}))
		return
	}
	run.Observe("iterations", 1)
	run.Observe("next_calls", int64(len(calls)))
	run.Observe("elements_yielded", int64(len(got)))

	// 1. the yielded sequence: every element of every page in order (pairs: consecutive pairs of each page), up to the stop
	var wantSeq []string
	if s.pairs {
		n := 0
		for i := 0; i <= lastPage && n < wantYields; i++ {
			e := s.pages[i].elems
			for j := 0; j+1 < len(e) && n < wantYields; j += 2 {
				wantSeq = append(wantSeq, e[j], e[j+1])
				n++
			}
		}
	} else {
		wantSeq = want[:wantYields]
	}
	if len(got) != len(wantSeq) {
		run.Violation("wrong-yield-count", key, witness(map[string]any{"want_head": head(wantSeq), "got_head": head(got)}))
	} else {
		for i := range got {
			if got[i] != wantSeq[i] {
				run.Violation("wrong-element", key, witness(map[string]any{"index": i, "want": wantSeq[i], "got": got[i], "want_head": head(wantSeq), "got_head": head(got)}))
				break
			}
		}
	}
	// 2. cursors: 0 first, then each returned cursor, never beyond the final page / the failure
	for i, cur := range calls {
		exp := uint64(0)
		if i > 0 && i-1 < len(s.pages) {
			exp = s.pages[i-1].cursor
		}
		if i <= lastPage+1 && cur != exp {
			run.Violation("wrong-cursor", key, witness(map[string]any{"call": i, "want_cursor": exp, "got_cursor": cur}))
			break
		}
	}
	if overrun > 0 {
		what := "next-after-cursor-0"
		if s.failAt >= 0 {
			what = "next-after-failure"
		}
		run.Violation(what, key, witness(map[string]any{"extra_calls": overrun}))
	}
	// 3. stops as soon as the consumer stops
	if callsAfterStop > 0 {
		run.Violation("next-after-consumer-stop", key, witness(map[string]any{"calls_after_stop": callsAfterStop}))
	}
	if yieldsAfterStop > 0 {
		run.Violation("yield-after-consumer-stop", key, witness(map[string]any{"yields_after_stop": yieldsAfterStop}))
	}
	// a complete iteration needs every page up to the final one (or the failing one)
	if !consumerStops {
		need := lastPage + 1
		if s.failAt >= 0 {
			need = s.failAt + 1
		}
		if len(calls) < need && overrun == 0 {
			run.Violation("stopped-early", key, witness(map[string]any{"want_next_calls": need}))
		}
	}
	// 4. Err: the page failure when the failing page was fetched, nil otherwise
	failureSeen := s.failAt >= 0 && len(calls) > s.failAt
	err := sc.Err()
	switch {
	case failureSeen && !errors.Is(err, errPage):
		run.Violation("error-not-exposed", key, witness(map[string]any{"err": fmt.Sprint(err)}))
	case !failureSeen && err != nil:
		run.Violation("spurious-error", key, witness(map[string]any{"err": fmt.Sprint(err)}))
	}
	if failureSeen {
		run.Observe("failures_exposed", 1)
	}
	if consumerStops {
		run.Observe("consumer_stops", 1)
	}
}

func head(s []string) []string {
	if len(s) > 12 {
		return s[:12]
	}
	return s
}

var cursorPool = []uint64{1, 2, 3, 17, 255, 256, 1 << 31, 1 << 32, 1<<63 - 1, 1 << 63, math.MaxUint64, math.MaxUint64 - 1, 12345678901234567890}

// genPages makes a scan of n pages; even makes all page sizes even (HSCAN/ZSCAN style field,value lists).
func genPages(r *rand.Rand, n int, even bool, sizes func() int) []page {
	ps := make([]page, n)
	var prev uint64
	for i := range ps {
		k := sizes()
		if even {
			k &^= 1
		}
		var e []string
		if k > 0 || r.Intn(2) == 0 {
			e = make([]string, k) // an empty page is nil or an empty slice
		}
		for j := range e {
			switch r.Intn(12) {
			case 0:
				e[j] = "" // empty and repeated members are legal
			case 1:
				e[j] = "dup"
			default:
				e[j] = fmt.Sprintf("p%de%d", i, j)
			}
		}
		ps[i].elems = e
		switch {
		case i == n-1:
			ps[i].cursor = 0
		case i > 0 && r.Intn(6) == 0:
			ps[i].cursor = prev // the server may hand out the same cursor again
		case r.Intn(3) == 0:
			ps[i].cursor = cursorPool[r.Intn(len(cursorPool))]
		default:
			ps[i].cursor = 1 + uint64(r.Int63())
		}
		prev = ps[i].cursor
	}
	return ps
}

// variants plays a scan with and without failures, with every consumer stop point (up to a cap), through Iter and Iter2.
func (c *checker) variants(r *rand.Rand, mkPages func(even bool) []page, maxStops int, fails int) {
	for _, pairs := range []bool{false, true} {
		pages := mkPages(pairs)
		failAts := []int{-1}
		for f := 0; f < fails; f++ {
			failAts = append(failAts, r.Intn(len(pages)))
		}
		if fails >= len(pages) { // small scans: every failure point
			failAts = []int{-1}
			for j := range pages {
				failAts = append(failAts, j)
			}
		}
		for _, fa := range failAts {
			units := 0
			for i, p := range pages {
				if fa >= 0 && i >= fa {
					break
				}
				if pairs {
					units += len(p.elems) / 2
				} else {
					units += len(p.elems)
				}
			}
			stops := []int{0}
			if units <= maxStops {
				for k := 1; k <= units+1; k++ { // units+1: a stop point that is never reached
					stops = append(stops, k)
				}
			} else {
				stops = append(stops, 1, units, units+1)
				for k := 0; k < maxStops; k++ {
					stops = append(stops, 1+r.Intn(units))
				}
			}
			for _, st := range stops {
				c.play(scenario{pages: pages, failAt: fa, stop: st, pairs: pairs, second: r.Intn(10) == 0})
			}
		}
	}
}

func (c *checker) all() {
	run := c.run
	rng := run.Rand("scans")
	// (a) every page-size shape of 1..4 pages with sizes 0..3 (Iter) / 0,2,4 (Iter2), every failure point, every stop point
	for n := 1; n <= 4; n++ {
		total := 1
		for i := 0; i < n; i++ {
			total *= 4
		}
		for code := 0; code < total; code++ {
			x := code
			digits := make([]int, n)
			for i := range digits {
				digits[i] = x % 4
				x /= 4
			}
			mk := func(even bool) []page {
				i := -1
				return genPages(rng, n, false, func() int {
					i++
					if even {
						return []int{0, 2, 4, 6}[digits[i]]
					}
					return digits[i]
				})
			}
			c.variants(rng, mk, 64, n)
			run.Observe("small_shapes", 1)
		}
	}
	run.Sample(map[string]any{"gen": "small shapes", "example": scenario{pages: []page{{[]string{"a", "b"}, 17}, {nil, 17}, {[]string{"c"}, 0}}, failAt: -1, stop: 2}.key()})
	// (b) random scans of 1..50 pages
	n := run.N(1500, 60000)
	for i := 0; i < n; i++ {
		np := 1 + rng.Intn(8)
		switch {
		case i%10 == 0:
			np = 20 + rng.Intn(31)
		case i%10 == 1:
			np = 1
		}
		emptyBias := rng.Intn(4)
		sizes := func() int {
			if rng.Intn(4) < emptyBias {
				return 0
			}
			if rng.Intn(40) == 0 {
				return 100 + rng.Intn(900)
			}
			return rng.Intn(13)
		}
		var sample []page
		c.variants(rng, func(even bool) []page { sample = genPages(rng, np, even, sizes); return sample }, 24, 3)
		if i < 2 {
			run.Sample(map[string]any{"gen": "random", "scenario": scenario{pages: sample, failAt: -1}.key()})
		}
	}
	// (c) not judged: what Iter2 does with a page of odd length (the statement speaks of pairs only)
	for _, odd := range [][]string{{"a"}, {"a", "b", "c"}, {"a", "b", "c", "d", "e"}} {
		var got []string
		sc := c.mk(func(cur uint64) (rueidis.ScanEntry, error) {
			if cur == 0 {
				return rueidis.ScanEntry{Elements: odd, Cursor: 9}, nil
			}
			return rueidis.ScanEntry{Elements: []string{"x", "y"}}, nil
		})
		func() {
			defer func() { _ = recover() }()
			for k, v := range sc.Iter2() {
				got = append(got, k, v)
			}
		}()
		wantDropped := append(append([]string{}, odd[:len(odd)-1]...), "x", "y")
		if strings.Join(got, "\x00") == strings.Join(wantDropped, "\x00") {
			run.Observe("iter2_odd_page_trailing_element_dropped", 1)
		} else {
			run.Observe("iter2_odd_page_other_behaviour", 1)
		}
	}
}

// C46: Scanner.Iter yields every element of every page in order following the cursors from 0 until 0, stops with the consumer
// or at a failing page (Err), Iter2 yields consecutive pairs.
func TestC46(t *testing.T) {
	run := mon.Start(t, "C46", "exploration",
		"scripted scans: (a) every page-size shape of 1..4 pages with 0..3 elements per page (Iter2: 0,2,4,6) x every failing page x every consumer stop point, (b) random scans of 1..50 pages with sizes 0..12 (sometimes 100..999), nil and empty pages, runs of empty pages, "+
			"returned cursors random / boundary values (1, 2^32, 2^63, MaxUint64) / repeated, 3 failure points and up to 24 stop points each (first, last, one past the end, random), through Iter and Iter2, 10% on a Scanner that already served a failed iteration; every cursor passed to next and every yield is recorded; "+
			"distinct by (iterator, page sizes, cursors, failing page, stop point); non-trivial: more than one page, a consumer stop or a failure")
	defer run.Finish()
	run.Assume("Iter2 is judged on pages of even length (field/value scans); pages of odd length are exercised but only recorded",
		"a scanner may not call next after the consumer stopped; Err is judged as: the page error if the failing page was fetched, nil otherwise")
	c := &checker{run: run, mk: realFactory}
	c.all()
	run.Require("iterations", "failures_exposed", "consumer_stops", "small_shapes")
}
