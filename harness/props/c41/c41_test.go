package c41

import (
	"crypto/sha1"
	"encoding/hex"
	"errors"
	"fmt"
	"math/rand"
	"reflect"
	"sort"
	"strings"
	"testing"
	"time"

	"github.com/redis/rueidis"
	"github.com/redis/rueidis/rueidiscompat"
	"verifh/drv"
	"verifh/fakeredis"
	"verifh/mon"
)

const addr = "127.0.0.1:6379"

func sha1hex(s string) string { h := sha1.Sum([]byte(s)); return hex.EncodeToString(h[:]) }

// result is what a caller can read from a Cmder: its dynamic type, everything Val() returns, and its error.
type result struct {
	Type   string
	Val    []any
	HasErr bool
	Err    string
}

func capture(c R) (res result) {
	if c == nil || (reflect.ValueOf(c).Kind() == reflect.Ptr && reflect.ValueOf(c).IsNil()) {
		return result{Type: "<nil>"}
	}
	res.Type = fmt.Sprintf("%T", c)
	if e := c.Err(); e != nil {
		res.HasErr, res.Err = true, e.Error()
	}
	if m := reflect.ValueOf(c).MethodByName("Val"); m.IsValid() && m.Type().NumIn() == 0 {
		for _, o := range m.Call(nil) {
			res.Val = append(res.Val, o.Interface())
		}
	}
	return res
}

// same: equal dynamic type and error; the value is compared when there is no error (what Val() holds next to an
// error is unspecified), with nil and empty slices / maps taken as equal.
func same(a, b result) bool {
	if a.Type != b.Type || a.HasErr != b.HasErr || a.Err != b.Err {
		return false
	}
	return a.HasErr || canon(a.Val) == canon(b.Val)
}

func canon(v any) string {
	var sb strings.Builder
	canonTo(&sb, reflect.ValueOf(v), 0)
	return sb.String()
}

func canonTo(sb *strings.Builder, v reflect.Value, depth int) {
	if !v.IsValid() {
		sb.WriteString("nil")
		return
	}
	if depth > 12 {
		sb.WriteString("…")
		return
	}
	switch v.Kind() {
	case reflect.Interface, reflect.Ptr:
		if v.IsNil() {
			sb.WriteString("nil")
			return
		}
		if v.Kind() == reflect.Interface {
			fmt.Fprintf(sb, "(%s)", v.Elem().Type())
		} else {
			sb.WriteByte('&')
		}
		canonTo(sb, v.Elem(), depth+1)
	case reflect.Slice, reflect.Array:
		sb.WriteByte('[')
		for i := 0; i < v.Len(); i++ {
			if i > 0 {
				sb.WriteByte(',')
			}
			canonTo(sb, v.Index(i), depth+1)
		}
		sb.WriteByte(']')
	case reflect.Map:
		var kv []string
		for _, k := range v.MapKeys() {
			var e strings.Builder
			canonTo(&e, k, depth+1)
			e.WriteByte(':')
			canonTo(&e, v.MapIndex(k), depth+1)
			kv = append(kv, e.String())
		}
		sort.Strings(kv)
		sb.WriteString("{" + strings.Join(kv, ",") + "}")
	case reflect.Struct:
		if tm, ok := v.Interface().(time.Time); ok {
			sb.WriteString(tm.UTC().Format(time.RFC3339Nano))
			return
		}
		sb.WriteString(v.Type().Name() + "{")
		for i := 0; i < v.NumField(); i++ {
			if !v.Type().Field(i).IsExported() {
				continue
			}
			sb.WriteString(v.Type().Field(i).Name + ":")
			canonTo(sb, v.Field(i), depth+1)
			sb.WriteByte(';')
		}
		sb.WriteByte('}')
	case reflect.String:
		fmt.Fprintf(sb, "%q", v.String())
	default:
		fmt.Fprintf(sb, "%v", v.Interface())
	}
}

func (r result) String() string {
	s := fmt.Sprintf("%s val=%+v", r.Type, r.Val)
	if r.HasErr {
		s += " err=" + r.Err
	}
	if len(s) > 300 {
		s = s[:300] + "…"
	}
	return s
}

// env is one fresh fakeredis with one rueidis client and its adapter.
type env struct {
	s  *fakeredis.Server
	cl rueidis.Client
	ad C
}

func newEnv() (*env, error) {
	s := fakeredis.New(fakeredis.Options{LogReplies: true}, addr)
	o := drv.Option(s, addr)
	o.DisableCache, o.ForceSingleClient, o.DisableRetry = true, true, true
	cl, err := rueidis.NewClient(o)
	if err != nil {
		s.Close()
		return nil, err
	}
	return &env{s: s, cl: cl, ad: rueidiscompat.NewAdapter(cl)}, nil
}

func (e *env) close() { e.cl.Close(); e.s.Close() }

// housekeeping commands of rueidis itself (connection setup, the role probe of the "on every primary" helpers)
func housekeeping(argv []string) bool {
	switch strings.ToUpper(argv[0]) {
	case "HELLO", "ROLE":
		return true
	case "CLIENT":
		if len(argv) > 1 {
			switch strings.ToUpper(argv[1]) {
			case "SETINFO", "TRACKING", "NO-TOUCH", "NO-EVICT", "CAPA", "SETNAME":
				return true
			}
		}
	}
	return false
}

// received returns the commands the server received from client connections since log position from.
func received(s *fakeredis.Server, from int) []fakeredis.Event {
	var out []fakeredis.Event
	log := s.Log()
	for _, e := range log[from:] {
		if e.Kind == "recv" && e.Conn != 0 && !housekeeping(e.Argv) {
			out = append(out, e)
		}
	}
	return out
}

func safeCall(o op, c C) (res R, panicked string) {
	defer func() {
		if p := recover(); p != nil {
			panicked = fmt.Sprint(p)
		}
	}()
	return o.call(c), ""
}

// direct is what call i does when made on the plain adapter.
type direct struct {
	res      result
	argv     [][]string // the commands it sent (normally one)
	panicked string
}

func runDirect(e *env, prog []op) []direct {
	out := make([]direct, len(prog))
	for i, o := range prog {
		n0 := e.s.LogLen()
		c, p := safeCall(o, e.ad)
		out[i].panicked = p
		if p == "" {
			out[i].res = capture(c)
		}
		for _, ev := range received(e.s, n0) {
			out[i].argv = append(out[i].argv, ev.Argv)
		}
		if o.name == "Do" && len(out[i].argv) == 1 {
			// the reference of Pipeliner.Do is a one-command pipeline
		}
	}
	return out
}

type checker struct {
	run     *mon.Run
	methods map[string]bool
}

func progString(prog []op) []string {
	out := make([]string, len(prog))
	for i, o := range prog {
		out[i] = o.desc
		if len(out[i]) > 160 {
			out[i] = out[i][:160] + "…"
		}
	}
	return out
}

func names(prog []op) string {
	ns := make([]string, len(prog))
	for i, o := range prog {
		ns[i] = o.name
	}
	return strings.Join(ns, ",")
}

// runPipelined queues prog on one pipeline that descends from adapter.Pipeline (rt.tx=false) or adapter.TxPipeline
// (rt.tx=true), obtained and executed the way route rt says, executing after each segment (segs are segment lengths;
// more than one segment = the pipeline object is reused after Exec), and judges it against the direct run.
func (ck *checker) runPipelined(caseID string, rt route, prog []op, want []direct, segs []int) {
	run := ck.run
	tx, viaFunc := rt.tx, rt.rootFunc
	mode := "pipeline"
	if tx {
		mode = "txpipeline"
	}
	// wire findings on a route that goes through a pipeline value are named after the route
	wireKey := func(k string) string {
		if rt.derived() {
			return mode + "/via " + rt.head()
		}
		return mode + "/" + k
	}
	e, err := newEnv()
	if err != nil {
		run.Inconclusive("client setup failed: " + err.Error())
		return
	}
	defer e.close()
	wit := func(extra map[string]any) map[string]any {
		m := map[string]any{"case": caseID, "mode": mode, "route": rt.String(), "program": progString(prog), "segments": segs, "via_pipelined_func": viaFunc}
		for k, v := range extra {
			m[k] = v
		}
		return m
	}
	var p rueidiscompat.Pipeliner
	if !viaFunc {
		var pn string
		func() {
			defer func() {
				if r := recover(); r != nil {
					pn = fmt.Sprint(r)
				}
			}()
			p = rt.value(e.ad)
		}()
		if pn != "" || p == nil {
			run.Violation("panic", mode+"/obtain "+rt.head(), wit(map[string]any{"panic": pn, "nil_pipeline": p == nil}))
			return
		}
	}
	pos := 0
	taint := "" // a call that sent no command was queued on this pipeline object earlier (its Cmder may still sit in the pipeline)
	for si, n := range segs {
		tx := rt.tx // (an open route may turn out to use MULTI/EXEC in this segment)
		seg, wseg := prog[pos:pos+n], want[pos:pos+n]
		pos += n
		held := make([]R, n)
		nCmds, noCmdOps := 0, 0
		for _, w := range wseg {
			nCmds += len(w.argv)
			if len(w.argv) == 0 {
				noCmdOps++
			}
		}
		var cmdIdx []int // the calls of this segment that queue a command
		for i, w := range wseg {
			if len(w.argv) == 1 {
				cmdIdx = append(cmdIdx, i)
			}
		}
		if noCmdOps > 0 {
			taint = firstNoCmd(seg, wseg)
			run.Observe("segments_with_call_that_queues_nothing", 1)
			firstNo := 0
			for i, w := range wseg {
				if len(w.argv) == 0 {
					firstNo = i
					break
				}
			}
			if len(cmdIdx) > 0 && cmdIdx[len(cmdIdx)-1] > firstNo {
				run.Observe("commands_queued_after_call_that_queues_nothing", 1)
			}
		}
		nocmdCtx := taint != "" // a call that queued nothing sits (or sat) on this pipeline object: name findings after it
		n0 := e.s.LogLen()
		var cmders []R
		var execErr error
		var queuePanic string
		queue := func(p rueidiscompat.Pipeliner) bool {
			for i, o := range seg {
				c, pn := safeCall(o, p)
				if pn != "" {
					queuePanic = fmt.Sprintf("%s: %s", o.desc, pn)
					return false
				}
				held[i] = c
				wantLen := 0
				for _, j := range cmdIdx {
					if j <= i {
						wantLen++
					}
				}
				if p.Len() != wantLen {
					run.Violation("len", mode+"/"+o.name, wit(map[string]any{"calls_queued": i + 1, "commands_queued": wantLen, "len": p.Len()}))
				}
			}
			if tx {
				if got := received(e.s, n0); len(got) != 0 {
					run.Violation("sent-before-exec", mode+"/"+names(seg), wit(map[string]any{"received": got[0].Argv}))
				}
			}
			return true
		}
		func() {
			defer func() {
				if pn := recover(); pn != nil {
					queuePanic = "Exec: " + fmt.Sprint(pn)
				}
			}()
			cmders, execErr = rt.exec(e.ad, p, queue)
			if p != nil && queuePanic == "" && p.Len() != 0 {
				run.Violation("len", mode+"/after-exec", wit(map[string]any{"len": p.Len()}))
			}
		}()
		if queuePanic != "" && nocmdCtx {
			// a reply converted by the wrong Cmder
			run.Violation("misaligned-by-call-without-command", mode+"/"+taint, wit(map[string]any{"panic": queuePanic}))
			return
		}
		if queuePanic != "" {
			run.Violation("panic", mode+"/"+strings.SplitN(queuePanic, "(", 2)[0], wit(map[string]any{"panic": queuePanic}))
			return
		}
		if si > 0 {
			run.Observe("reused_after_exec", 1)
		}
		got := received(e.s, n0)
		if rt.open() && nCmds > 0 {
			// a plain pipeline that went through a Tx-named step: the statement does not say whether it becomes a
			// transaction (go-redis keeps it plain); it is judged as what it turned out to be
			if len(got) > 0 && len(got[0].Argv) == 1 && strings.EqualFold(got[0].Argv[0], "MULTI") {
				tx = true
				run.Observe("plain_value_after_tx_named_step_sent_multi", 1)
			} else {
				run.Observe("plain_value_after_tx_named_step_sent_plain", 1)
			}
		}

		// ---- what reached the server
		var wantArgv [][]string
		for _, w := range wseg {
			wantArgv = append(wantArgv, w.argv...)
		}
		queuedOK := true // every queued command answered QUEUED and EXEC answered an array (read from the log)
		execAbort, execNil := false, false
		if tx && nCmds > 0 {
			full := append(append([][]string{{"MULTI"}}, wantArgv...), []string{"EXEC"})
			ok := len(got) == len(full)
			for i := 0; ok && i < len(full); i++ {
				ok = reflect.DeepEqual(got[i].Argv, full[i]) && got[i].Conn == got[0].Conn
			}
			if !ok {
				var g [][]string
				var conns []int64
				for _, ev := range got {
					g = append(g, ev.Argv)
					conns = append(conns, ev.Conn)
				}
				run.Violation("tx-wire", wireKey(names(seg)), wit(map[string]any{"want": full, "received": g, "conns": conns}))
				return
			}
			run.Observe("tx_batches_on_wire", 1)
			if rt.tx && rt.derived() {
				run.Observe("tx_wire_checked_on_route_through_pipeline_value", 1)
			}
			for _, st := range rt.steps() {
				run.Observe(st, 1)
			}
			// replies of that connection, in order: MULTI, the queued commands, EXEC
			var replies []fakeredis.Event
			for _, ev := range e.s.Log()[n0:] {
				if ev.Kind == "reply" && ev.Conn == got[0].Conn && !housekeeping(ev.Argv) {
					replies = append(replies, ev)
				}
			}
			if len(replies) != len(full) {
				run.Inconclusive("tx replies not found in the log")
				return
			}
			for _, rp := range replies[1 : len(replies)-1] {
				if rp.Reply.T != '+' || rp.Reply.S != "QUEUED" {
					queuedOK = false
				}
			}
			last := replies[len(replies)-1].Reply
			execNil = last.IsNull()
			execAbort = last.T == '-'
			if !queuedOK != execAbort {
				// fakeredis aborts exactly when something failed at queue time
				run.Inconclusive("queue-time error without EXECABORT")
				return
			}
		} else if !tx {
			ok := len(got) == len(wantArgv)
			for i := 0; ok && i < len(got); i++ {
				ok = reflect.DeepEqual(got[i].Argv, wantArgv[i])
			}
			if !ok {
				var g [][]string
				for _, ev := range got {
					g = append(g, ev.Argv)
				}
				key := wireKey(names(seg))
				if nocmdCtx {
					key = mode + "/after-call-without-command"
				}
				run.Violation("pipeline-wire", key, wit(map[string]any{"want": wantArgv, "received": g}))
			} else if nCmds > 0 {
				if rt.derived() {
					run.Observe("pipeline_wire_checked_on_route_through_pipeline_value", 1)
				}
				for _, st := range rt.steps() {
					run.Observe(st, 1)
				}
			}
		} else if len(got) != 0 {
			run.Violation("tx-wire", mode+"/empty", wit(map[string]any{"received": got[0].Argv}))
		}

		if tx && execAbort {
			// a command was rejected at queue time (unknown to fakeredis / wrong arity): the transaction is discarded by
			// the server. The statement only covers the wire format here; Exec has to report an error.
			run.Observe("tx_execabort", 1)
			if execErr == nil || errors.Is(execErr, rueidiscompat.TxFailedErr) {
				run.Violation("tx-execabort-error", mode+"/"+names(seg), wit(map[string]any{"exec_err": fmt.Sprint(execErr)}))
			}
			ck.run.Case(mode+"|abort|"+names(seg), len(seg) > 1)
			return // the server state now differs from the direct run: later segments are not comparable
		}
		if tx && execNil {
			run.Inconclusive("unexpected nil EXEC")
			return
		}

		// ---- results: the Cmder handed out at queue time carries the value / error of the direct call
		firstErr := ""
		hasErr := false
		bad := false
		for i := range seg {
			g := capture(held[i])
			if g.HasErr && !hasErr {
				hasErr, firstErr = true, g.Err
			}
			ck.methods[seg[i].name] = true
			if !same(g, wseg[i].res) {
				bad = true
				cls, key := "result-mismatch", mode+"/"+seg[i].name
				if nocmdCtx {
					cls, key = "misaligned-by-call-without-command", mode+"/"+taint
				}
				run.Violation(cls, key, wit(map[string]any{"index": pos - n + i, "call": seg[i].desc, "direct": wseg[i].res.String(), "pipelined": g.String()}))
				break
			}
			if tx {
				run.Observe("tx_elements_mapped", 1)
			} else {
				run.Observe("pipeline_results_compared", 1)
			}
			if wseg[i].res.HasErr {
				run.Observe("error_results_compared", 1)
			}
		}
		// ---- the slice Exec returns: one Cmder per queued command, in queue order, with the results of the direct calls
		if !bad {
			cls := func(c string) string {
				if nocmdCtx {
					return "misaligned-by-call-without-command"
				}
				return c
			}
			keyOf := func(k string) string {
				if nocmdCtx {
					return mode + "/" + taint
				}
				return mode + "/" + k
			}
			switch {
			case len(cmdIdx) == 0:
				// an empty pipeline sends nothing and returns nothing
				if len(cmders) != 0 || execErr != nil {
					run.Violation(cls("empty-exec"), keyOf("empty"), wit(map[string]any{"cmders": len(cmders), "err": fmt.Sprint(execErr)}))
					bad = true
				}
			case len(cmders) != len(cmdIdx):
				run.Violation(cls("returned-cmders-count"), keyOf(names(seg)), wit(map[string]any{"returned": len(cmders), "commands_queued": len(cmdIdx), "calls": len(seg)}))
				bad = true
			default:
				for j, i := range cmdIdx {
					if g := capture(cmders[j]); !same(g, wseg[i].res) {
						run.Violation(cls("returned-cmders-mismatch"), keyOf(seg[i].name), wit(map[string]any{"index": j, "call": seg[i].desc, "direct": wseg[i].res.String(), "returned": g.String()}))
						bad = true
						break
					}
				}
			}
		}
		// ---- Exec's error is the first error among the queued commands
		if !bad && len(cmdIdx) > 0 {
			firstErr, hasErr = "", false
			for _, i := range cmdIdx {
				if wseg[i].res.HasErr {
					firstErr, hasErr = wseg[i].res.Err, true
					break
				}
			}
			if hasErr {
				run.Observe("exec_first_error_checked", 1)
			}
			if (execErr != nil) != hasErr || (hasErr && execErr.Error() != firstErr) {
				key := mode + "/" + names(seg)
				c := "exec-error"
				if nocmdCtx {
					c, key = "misaligned-by-call-without-command", mode+"/"+taint
				}
				run.Violation(c, key, wit(map[string]any{"exec_err": fmt.Sprint(execErr), "first_command_error": firstErr, "any_command_error": hasErr}))
			}
		}
		if tx {
			run.Observe("tx_full_checked", 1)
		} else {
			run.Observe("pipeline_exec_checked", 1)
		}
		nontrivial := len(seg) > 1
		if rt.derived() {
			ck.run.Case(fmt.Sprintf("%s|%s|%s", mode, rt.String(), names(seg)), nontrivial)
		} else {
			ck.run.Case(fmt.Sprintf("%s|%v|%s", mode, viaFunc, names(seg)), nontrivial)
		}
	}
}

// guard runs f and returns what it panicked with ("" when it did not).
func guard(f func()) (panicked string) {
	defer func() {
		if p := recover(); p != nil {
			panicked = fmt.Sprint(p)
		}
	}()
	f()
	return ""
}

func firstNoCmd(seg []op, w []direct) string {
	for i := range seg {
		if len(w[i].argv) == 0 {
			return seg[i].name
		}
	}
	return "?"
}

// abortScenarios: WATCH-style aborts, Discard, empty pipelines.
func (ck *checker) abortScenarios(caseID string, rng, rt *rand.Rand) {
	run := ck.run
	g := newGen(rng, caseID+"w")
	wk, ok2, ctr := g.tok("watched"), g.tok("other"), g.tok("ctr")
	v0, v1, vx := g.tok("v0"), g.tok("v1"), g.tok("vx")

	// (1) a real WATCH conflict through adapter.Watch with a concurrent writer (node.Exec) between WATCH and EXEC;
	//     and the same history where the writer touches another key
	for _, conflict := range []bool{true, false} {
		e, err := newEnv()
		if err != nil {
			run.Inconclusive("client setup failed: " + err.Error())
			return
		}
		// the transaction pipeline is obtained from the Tx and executed on any route (half of the time the plain
		// tx.TxPipelined(fn) the driver always used)
		route := route{tx: true, rootFunc: true}
		if rt.Intn(3) != 0 {
			route = randRoute(rt, true, rt.Intn(3) == 0)
		}
		node := e.s.Node(addr)
		node.Exec("SET", wk, v0)
		n0 := e.s.LogLen()
		var cmders []R
		var set, incr, get R
		var panicked string
		err = func() (err error) {
			defer func() {
				if p := recover(); p != nil {
					panicked = fmt.Sprint(p)
				}
			}()
			return e.ad.Watch(ctx, func(tx rueidiscompat.Tx) error {
				if conflict {
					node.Exec("SET", wk, vx)
				} else {
					node.Exec("SET", ok2, vx)
				}
				var err error
				cmders, err = route.exec(tx, route.value(tx), func(p rueidiscompat.Pipeliner) bool {
					set = p.Set(ctx, wk, v1, 0)
					incr = p.Incr(ctx, ctr)
					get = p.Get(ctx, wk)
					return true
				})
				return err
			}, wk)
		}()
		via := ""
		if route.derived() {
			via = " via tx." + route.head()
		}
		wit := map[string]any{"case": caseID, "conflict": conflict, "route": "tx." + route.String(), "err": fmt.Sprint(err), "panic": panicked}
		// premise from the log: WATCH then MULTI SET INCR GET EXEC on one connection, EXEC answered nil / an array
		got := received(e.s, n0)
		var argv []string
		sameConn := true
		for _, ev := range got {
			argv = append(argv, ev.Argv[0])
			sameConn = sameConn && ev.Conn == got[0].Conn
		}
		execNil, execSeen := false, false
		for _, ev := range e.s.Log()[n0:] {
			if ev.Kind == "reply" && len(ev.Argv) > 0 && ev.Argv[0] == "EXEC" {
				execSeen, execNil = true, ev.Reply.IsNull()
			}
		}
		wit["received"] = argv
		switch {
		case panicked != "":
			run.Violation("panic", "Watch"+via, wit)
		case strings.Join(argv, " ") != "WATCH MULTI SET INCR GET EXEC" || !sameConn:
			run.Violation("watch-wire", fmt.Sprintf("Watch/conflict=%v%s", conflict, via), wit)
		case !execSeen || execNil != conflict:
			run.Inconclusive("fakeredis did not decide the WATCH as planned")
		case conflict:
			run.Observe("watch_abort_real", 1)
			if route.derived() {
				run.Observe("watch_abort_real_on_route_through_pipeline_value", 1)
			}
			if !errors.Is(err, rueidiscompat.TxFailedErr) {
				run.Violation("txfailed", "Watch/real-conflict"+via, wit)
			}
			if v := node.Exec("GET", wk); v.S != vx {
				run.Inconclusive("aborted transaction had effects in fakeredis")
			}
		default:
			run.Observe("watch_no_conflict", 1)
			if route.derived() {
				run.Observe("watch_no_conflict_on_route_through_pipeline_value", 1)
			}
			ok := err == nil && len(cmders) == 3
			if ok {
				a, b, c := capture(set), capture(incr), capture(get)
				ok = !a.HasErr && !b.HasErr && !c.HasErr && reflect.DeepEqual(a.Val, []any{"OK"}) && reflect.DeepEqual(b.Val, []any{int64(1)}) && reflect.DeepEqual(c.Val, []any{v1})
				wit["results"] = []string{a.String(), b.String(), c.String()}
			}
			if !ok {
				run.Violation("watch-success-results", "Watch/no-conflict"+via, wit)
			}
		}
		run.Case(fmt.Sprintf("watch|%v", conflict), true)
		e.close()
	}

	// (2) EXEC answers a nil array (what a WATCH abort looks like on the wire) to a TxPipeline of k commands
	{
		e, err := newEnv()
		if err != nil {
			run.Inconclusive("client setup failed: " + err.Error())
			return
		}
		e.s.Plan(&fakeredis.Rule{Name: "abort-next-exec", Match: func(c *fakeredis.Conn, argv []string) bool {
			if strings.EqualFold(argv[0], "MULTI") {
				c.AbortNextExec = true
			}
			return false
		}})
		// the transaction pipeline is obtained from the adapter and executed on any route
		route := randRoute(rt, true, rt.Intn(4) == 0)
		via := ""
		if route.derived() {
			via = " via " + route.head()
		}
		k := 1 + rng.Intn(6)
		var kv [][2]string
		for i := 0; i < k; i++ {
			kv = append(kv, [2]string{g.tok("k"), g.tok("v")})
		}
		n0 := e.s.LogLen()
		pn := guard(func() {
			_, err = route.exec(e.ad, route.value(e.ad), func(p rueidiscompat.Pipeliner) bool {
				for _, x := range kv {
					p.Set(ctx, x[0], x[1], 0)
				}
				return true
			})
		})
		execNil := false
		for _, ev := range e.s.Log()[n0:] {
			if ev.Kind == "reply" && len(ev.Argv) > 0 && ev.Argv[0] == "EXEC" {
				execNil = ev.Reply.IsNull()
			}
		}
		var sent []string
		got := received(e.s, n0)
		wireOK := len(got) == k+2
		for i, ev := range got {
			sent = append(sent, ev.Argv[0])
			w := "SET"
			if i == 0 {
				w = "MULTI"
			} else if i == len(got)-1 {
				w = "EXEC"
			}
			wireOK = wireOK && strings.EqualFold(ev.Argv[0], w) && ev.Conn == got[0].Conn
		}
		wit := map[string]any{"case": caseID, "route": route.String(), "queued": k, "err": fmt.Sprint(err), "received": sent, "panic": pn}
		switch {
		case pn != "":
			run.Violation("panic", "TxPipeline/nil-exec"+via, wit)
		case !wireOK:
			// MULTI, the k queued commands and EXEC have to arrive whatever EXEC is going to answer
			run.Violation("tx-wire", "TxPipeline/nil-exec"+via, wit)
		case !execNil:
			run.Inconclusive("fault rule did not produce a nil EXEC")
		default:
			run.Observe("watch_abort_fault", 1)
			if route.derived() {
				run.Observe("watch_abort_fault_on_route_through_pipeline_value", 1)
			}
			if !errors.Is(err, rueidiscompat.TxFailedErr) {
				run.Violation("txfailed", "TxPipeline/nil-exec"+via, wit)
			}
		}
		run.Case(fmt.Sprintf("nil-exec|%d", k), true)
		e.close()
	}

	// (3) Discard drops every queued command: nothing of them is sent, nothing of them is returned, and what is queued
	//     afterwards gets its own results
	for _, tx := range []bool{false, true} {
		e, err := newEnv()
		if err != nil {
			run.Inconclusive("client setup failed: " + err.Error())
			return
		}
		mode := "pipeline"
		if tx {
			mode = "txpipeline"
		}
		// a pipeline value obtained on any route whose wire format the statement fixes; the commands are queued,
		// discarded and executed on that value
		route := randRoute(rt, tx, false).closed()
		var p rueidiscompat.Pipeliner
		if pn := guard(func() { p = route.value(e.ad) }); pn != "" || p == nil {
			run.Violation("panic", mode+"/obtain "+route.head(), map[string]any{"case": caseID, "panic": pn, "nil_pipeline": p == nil})
			e.close()
			continue
		}
		if route.derived() {
			mode += " via " + route.head()
		}
		k := 1 + rng.Intn(5)
		var dropped []string
		for i := 0; i < k; i++ {
			dk := g.tok("dropped")
			dropped = append(dropped, dk)
			p.Set(ctx, dk, g.tok("v"), 0)
		}
		n0 := e.s.LogLen()
		p.Discard()
		wit := map[string]any{"case": caseID, "mode": mode, "route": route.String(), "queued_then_discarded": k}
		if p.Len() != 0 {
			wit["len"] = p.Len()
			run.Violation("discard", mode+"/len", wit)
		}
		variant := rng.Intn(2)
		if variant == 0 {
			var cm []R
			var err error
			pn := guard(func() { cm, err = route.exec(e.ad, p, func(rueidiscompat.Pipeliner) bool { return true }) })
			if got := received(e.s, n0); len(got) != 0 || len(cm) != 0 || err != nil || pn != "" {
				wit["received"], wit["cmders"], wit["err"], wit["panic"] = len(got), len(cm), fmt.Sprint(err), pn
				run.Violation("discard", mode+"/exec-after-discard", wit)
			}
		} else {
			nk, nv := g.tok("kept"), g.tok("v")
			var a, b R
			var cm []R
			var err error
			pn := guard(func() {
				cm, err = route.exec(e.ad, p, func(q rueidiscompat.Pipeliner) bool {
					a = q.Set(ctx, nk, nv, 0)
					b = q.Get(ctx, nk)
					return true
				})
			})
			var sent []string
			for _, ev := range received(e.s, n0) {
				sent = append(sent, strings.Join(ev.Argv, " "))
			}
			wantSent := []string{"SET " + nk + " " + nv, "GET " + nk}
			if tx {
				wantSent = append(append([]string{"MULTI"}, wantSent...), "EXEC")
			}
			ra, rb := capture(a), capture(b)
			ok := pn == "" && err == nil && len(cm) == 2 && reflect.DeepEqual(sent, wantSent) && !ra.HasErr && !rb.HasErr &&
				reflect.DeepEqual(ra.Val, []any{"OK"}) && reflect.DeepEqual(rb.Val, []any{nv})
			if ok {
				ok = same(capture(cm[0]), ra) && same(capture(cm[1]), rb)
			}
			for _, dk := range dropped {
				if v := e.s.Node(addr).Exec("EXISTS", dk); v.I != 0 {
					ok = false
				}
			}
			if !ok {
				wit["sent"], wit["cmders"], wit["err"], wit["results"], wit["panic"] = sent, len(cm), fmt.Sprint(err), []string{ra.String(), rb.String()}, pn
				run.Violation("discard", mode+"/queue-after-discard", wit)
			}
		}
		run.Observe("discard_checked", 1)
		if route.derived() {
			run.Observe("discard_checked_on_route_through_pipeline_value", 1)
		}
		run.Case(fmt.Sprintf("discard|%s|%d|%d", mode, k, variant), true)
		e.close()
	}
}

func (ck *checker) oneCase(t *testing.T, caseNo int, rng, rt *rand.Rand, methods []reflect.Method) {
	run := ck.run
	caseID := fmt.Sprintf("c%d", caseNo)
	g := newGen(rng, caseID)
	// program shape: hand-written ops only (fakeredis answers most: full transaction check), or mixed with
	// reflectively generated calls of any Pipeliner method (mostly unknown to fakeredis: alignment, wire format)
	kind := rng.Intn(10)
	size := 2 + rng.Intn(22)
	var cand []op
	for len(cand) < size {
		switch {
		case kind < 5:
			ops := g.handOps()
			if kind < 4 {
				keep := true
				for _, o := range ops {
					keep = keep && o.answerable
				}
				if !keep {
					continue
				}
			}
			cand = append(cand, ops...)
		case kind < 8 && rng.Intn(2) == 0:
			cand = append(cand, g.handOps()...)
		default:
			cand = append(cand, g.reflectiveOp(methods[rng.Intn(len(methods))]))
		}
	}

	// in a third of the programs a call that queues nothing (Do without arguments) stands ahead of later commands
	if rng.Intn(3) == 0 {
		at := rng.Intn(len(cand)/2 + 1)
		cand = append(cand[:at], append([]op{doNothing()}, cand[at:]...)...)
	}

	// probe on a scratch server: calls that panic on their arguments in direct mode are not part of the program;
	// calls that send several commands are not "one queued command" either
	probeEnv, err := newEnv()
	if err != nil {
		run.Inconclusive("client setup failed: " + err.Error())
		return
	}
	probe := runDirect(probeEnv, cand)
	probeEnv.close()
	var prog []op
	for i, o := range cand {
		switch {
		case probe[i].panicked != "":
			run.Observe("calls_dropped_panic_in_direct_mode", 1)
		case len(probe[i].argv) > 1:
			run.Observe("calls_dropped_multi_command", 1)
		case len(probe[i].argv) == 0:
			// the call sends nothing (it rejected its arguments): keep a few, they must not disturb the others
			run.Observe("calls_without_command", 1)
			prog = append(prog, o)
		default:
			prog = append(prog, o)
		}
	}
	if len(prog) == 0 {
		return
	}

	// (a) direct
	ea, err := newEnv()
	if err != nil {
		run.Inconclusive("client setup failed: " + err.Error())
		return
	}
	want := runDirect(ea, prog)
	ea.close()
	for i := range want {
		if want[i].panicked != "" || len(want[i].argv) > 1 {
			run.Inconclusive("direct run differs from the probe run")
			return
		}
		run.Observe("direct_calls", 1)
	}
	if caseNo < 3 {
		var rs []string
		for _, w := range want {
			rs = append(rs, w.res.String())
		}
		run.Sample(map[string]any{"case": caseID, "program": progString(prog), "direct_results": rs})
	}
	segsFor := func() ([]int, bool) {
		switch rng.Intn(4) {
		case 0:
			return []int{len(prog)}, true // through Pipelined / TxPipelined
		case 1:
			return []int{len(prog)}, false
		}
		var segs []int
		left := len(prog)
		for left > 0 {
			n := 1 + rng.Intn(left)
			if len(segs) == 2 {
				n = left
			}
			segs = append(segs, n)
			left -= n
		}
		return segs, false
	}
	// (b) Pipeline, (c) TxPipeline
	// the way each pipeline is obtained and executed comes from its own stream (rt): the programs stay what they were
	segs, via := segsFor()
	ck.runPipelined(caseID, randRoute(rt, false, via), prog, want, segs)
	segs, via = segsFor()
	ck.runPipelined(caseID, randRoute(rt, true, via), prog, want, segs)
	if caseNo%4 == 0 {
		ck.abortScenarios(caseID, rng, rt)
	}
}

// C41: adapter pipelines keep order and wrap transactions exactly.
func TestC41(t *testing.T) {
	run := mon.Start(t, "C41", "exploration",
		"random programs of 2-25 adapter calls (hand-written calls of ~105 kinds over strings, keys/expiry, hashes, lists incl. blocking pops, sets, sorted sets, streams, bit ops, scripting, JSON, Pipeliner.Do; plus reflectively generated calls of every other Pipeliner method, which fakeredis answers with 'ERR unknown command <name> <all args>'), unique keys/values per call and shared typed keys so results depend on order; "+
			"each program runs directly, through Pipeline and through TxPipeline on identical fresh servers in virtual time, as one Exec, through Pipelined/TxPipelined, or in 2-3 Exec segments on one reused pipeline object; "+
			"half of the pipelines are obtained and executed on a random route through the Pipeliner's own entry points (0-2 of .Pipeline()/.TxPipeline() on the pipeline value, then .Exec / .Pipelined(fn) / .TxPipelined(fn), 0-2 more hops on fn's argument): a descendant of a TxPipeline must stay MULTI/EXEC wrapped, a descendant of a Pipeline plain (left open after a Tx-named step); "+
			"plus WATCH conflict / no-conflict through adapter.Watch with a concurrent writer, nil-EXEC fault, Discard, empty Exec, each on such routes from the Tx / the adapter; "+
			"a case = (mode, entry point or route, sequence of method names of one Exec segment); non-trivial when the segment has at least two calls")
	defer run.Finish()
	run.Assume("go-redis semantics of the Pipeliner's own entry points: Pipeline() / TxPipeline() on a pipeline value return that pipeline and Pipelined / TxPipelined on it run fn and Exec it, so a pipeline that descends from a TxPipeline keeps MULTI/EXEC on every route; for a plain Pipeline that went through a Tx-named step either wire format is accepted",
		"the direct call on the plain adapter is the reference for value, error and argv of each queued call (same adapter code on both sides: a conversion wrong in both modes is invisible here)",
		"fakeredis answers commands it implements like Redis and every other command with an error naming the command and all its arguments; typed reply conversions are therefore only exercised for the commands fakeredis implements",
		"when a queued command is rejected at queue time the server discards the transaction (EXECABORT): only the wire format and 'Exec returns an error that is not TxFailedErr' are judged there")
	methods := reflectiveMethods()
	run.Extra("reflective_methods_available", len(methods))
	ck := &checker{run: run, methods: map[string]bool{}}
	rng := run.Rand("programs")
	routes := run.Rand("routes")
	n := run.N(400, 12000)
	for i := 0; i < n; i++ {
		sub := rand.New(rand.NewSource(rng.Int63()))
		rsub := rand.New(rand.NewSource(routes.Int63()))
		dl, stacks := drv.Bubble(t, func() { ck.oneCase(t, i, sub, rsub, methods) })
		if dl != "" {
			run.Violation("hang-or-leak", fmt.Sprintf("case-%d", i), map[string]any{"synctest": dl, "rueidis_frames": drv.RueidisFrames(stacks), "stacks": drv.Tail(stacks, 12000)})
		}
	}
	run.Observe("distinct_methods_compared", int64(len(ck.methods)))
	var ms []string
	for m := range ck.methods {
		ms = append(ms, m)
	}
	run.Extra("methods_compared", len(ms))
	run.Require("tx_elements_mapped", "tx_full_checked", "tx_execabort", "pipeline_results_compared", "error_results_compared", "exec_first_error_checked",
		"watch_abort_real", "watch_no_conflict", "watch_abort_fault", "discard_checked", "reused_after_exec", "tx_batches_on_wire", "commands_queued_after_call_that_queues_nothing",
		// every way of obtaining / executing a pipeline from a pipeline value was produced and its wire format checked
		"tx_wire_checked_on_route_through_pipeline_value", "pipeline_wire_checked_on_route_through_pipeline_value",
		"wire_checked_tx_value_Pipeline", "wire_checked_tx_value_TxPipeline", "wire_checked_tx_value_Pipelined_fn", "wire_checked_tx_value_TxPipelined_fn",
		"wire_checked_tx_value_derived_Exec", "wire_checked_tx_value_fn_arg_Pipeline", "wire_checked_tx_value_fn_arg_TxPipeline",
		"wire_checked_plain_value_Pipeline", "wire_checked_plain_value_Pipelined_fn",
		"watch_abort_real_on_route_through_pipeline_value", "watch_abort_fault_on_route_through_pipeline_value", "discard_checked_on_route_through_pipeline_value")
}
