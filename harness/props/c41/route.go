package c41

import (
	"context"
	"errors"
	"math/rand"
	"strings"

	"github.com/redis/rueidis/rueidiscompat"
)

// pipeSource is everything a pipeline can be obtained from: the adapter, a Tx handed out by Watch, and a pipeline
// value itself (the Pipeliner interface repeats the four entry points).
type pipeSource interface {
	Pipeline() rueidiscompat.Pipeliner
	TxPipeline() rueidiscompat.Pipeliner
	Pipelined(ctx context.Context, fn func(rueidiscompat.Pipeliner) error) ([]R, error)
	TxPipelined(ctx context.Context, fn func(rueidiscompat.Pipeliner) error) ([]R, error)
}

const (
	finalExec        = iota // value.Exec(ctx)
	finalPipelined          // value.Pipelined(ctx, fn)
	finalTxPipelined        // value.TxPipelined(ctx, fn)
)

// route is one way of obtaining a pipeline from a source and executing it:
//
//	root     src.Pipeline() / src.TxPipeline()            (a pipeline value), or
//	         src.Pipelined(fn) / src.TxPipelined(fn)      (rootFunc: the pipeline only exists as fn's argument)
//	hops     .Pipeline() / .TxPipeline() called on the pipeline value, in order (go-redis: both return the receiver)
//	final    how the resulting value is executed: .Exec, .Pipelined(fn), .TxPipelined(fn)
//	inner    .Pipeline() / .TxPipeline() called on fn's argument before the commands are queued on the result
//
// A pipeline that descends from a TxPipeline stays a transaction pipeline on every route. For a pipeline that descends
// from a plain Pipeline the Tx-named steps are left open by the statement (go-redis keeps it plain): see open.
type route struct {
	tx       bool
	rootFunc bool
	hops     []bool // true = TxPipeline(), false = Pipeline()
	final    int
	inner    []bool
}

func (r route) usesFn() bool { return r.rootFunc || r.final != finalExec }

// derived: something else than the four adapter entry points followed by Exec.
func (r route) derived() bool {
	return len(r.hops)+len(r.inner) > 0 || (!r.rootFunc && r.final != finalExec)
}

// open: a plain pipeline went through a Tx-named step; whether MULTI/EXEC is used then is not stated.
func (r route) open() bool {
	if r.tx {
		return false
	}
	for _, h := range append(append([]bool{}, r.hops...), r.inner...) {
		if h {
			return true
		}
	}
	return !r.rootFunc && r.final == finalTxPipelined
}

// closed is the same route without the open steps (Tx-named steps on a plain pipeline become their plain twins).
func (r route) closed() route {
	if !r.open() {
		return r
	}
	c := route{tx: r.tx, rootFunc: r.rootFunc, final: r.final, hops: make([]bool, len(r.hops)), inner: make([]bool, len(r.inner))}
	if c.final == finalTxPipelined {
		c.final = finalPipelined
	}
	return c
}

func hopName(tx bool) string {
	if tx {
		return "TxPipeline()"
	}
	return "Pipeline()"
}

func (r route) String() string {
	var sb strings.Builder
	in := ""
	if len(r.inner) > 0 {
		in = "fn: p"
		for _, h := range r.inner {
			in += "." + hopName(h)
		}
	} else {
		in = "fn"
	}
	if r.rootFunc {
		if r.tx {
			sb.WriteString("TxPipelined(" + in + ")")
		} else {
			sb.WriteString("Pipelined(" + in + ")")
		}
		return sb.String()
	}
	sb.WriteString(hopName(r.tx))
	for _, h := range r.hops {
		sb.WriteString("." + hopName(h))
	}
	switch r.final {
	case finalPipelined:
		sb.WriteString(".Pipelined(" + in + ")")
	case finalTxPipelined:
		sb.WriteString(".TxPipelined(" + in + ")")
	default:
		sb.WriteString(".Exec()")
	}
	return sb.String()
}

// head names the root and the first step taken on the pipeline value ("..." when more steps follow): findings are
// keyed by it, the witness carries the whole route.
func (r route) head() string {
	if !r.derived() {
		return r.String()
	}
	switch {
	case r.rootFunc:
		one := r
		one.inner = r.inner[:1]
		if len(r.inner) > 1 {
			return strings.TrimSuffix(one.String(), ")") + "...)"
		}
		return one.String()
	case len(r.hops) > 0:
		h := hopName(r.tx) + "." + hopName(r.hops[0])
		if len(r.hops) > 1 || r.final != finalExec {
			return h + "..."
		}
		return h + ".Exec()"
	}
	one := r
	one.inner = nil
	if len(r.inner) > 0 {
		return strings.TrimSuffix(one.String(), ")") + ": ...)"
	}
	return one.String()
}

func hop(p rueidiscompat.Pipeliner, tx bool) rueidiscompat.Pipeliner {
	if tx {
		return p.TxPipeline()
	}
	return p.Pipeline()
}

// value obtains the pipeline value of a route that has one (not rootFunc).
func (r route) value(src pipeSource) rueidiscompat.Pipeliner {
	if r.rootFunc {
		return nil
	}
	p := hop2(src, r.tx)
	for _, h := range r.hops {
		p = hop(p, h)
	}
	return p
}

func hop2(src pipeSource, tx bool) rueidiscompat.Pipeliner {
	if tx {
		return src.TxPipeline()
	}
	return src.Pipeline()
}

var errQueueFailed = errors.New("c41: queueing stopped")

// exec queues (queue gets the pipeline the commands go to and reports whether it got through) and executes the way
// the route says. p is the route's value (nil for rootFunc routes).
func (r route) exec(src pipeSource, p rueidiscompat.Pipeliner, queue func(rueidiscompat.Pipeliner) bool) ([]R, error) {
	fn := func(q rueidiscompat.Pipeliner) error {
		for _, h := range r.inner {
			q = hop(q, h)
		}
		if !queue(q) {
			return errQueueFailed
		}
		return nil
	}
	if r.rootFunc {
		if r.tx {
			return src.TxPipelined(ctx, fn)
		}
		return src.Pipelined(ctx, fn)
	}
	switch r.final {
	case finalPipelined:
		return p.Pipelined(ctx, fn)
	case finalTxPipelined:
		return p.TxPipelined(ctx, fn)
	}
	if !queue(p) {
		return nil, errQueueFailed
	}
	return p.Exec(ctx)
}

// steps lists the pipeline-value steps of the route as observation names ("tx" / "plain" says what the value
// descends from).
func (r route) steps() []string {
	kind := "wire_checked_plain_value_"
	if r.tx {
		kind = "wire_checked_tx_value_"
	}
	name := func(tx bool) string { return strings.TrimSuffix(hopName(tx), "()") }
	var out []string
	for _, h := range r.hops {
		out = append(out, kind+name(h))
	}
	if !r.rootFunc {
		switch r.final {
		case finalPipelined:
			out = append(out, kind+"Pipelined_fn")
		case finalTxPipelined:
			out = append(out, kind+"TxPipelined_fn")
		default:
			if len(r.hops) > 0 {
				out = append(out, kind+"derived_Exec")
			}
		}
	}
	for _, h := range r.inner {
		out = append(out, kind+"fn_arg_"+name(h))
	}
	return out
}

// randRoute: half of the routes are the plain entry points (as the driver always used them), the other half go
// through at least one step on a pipeline value.
func randRoute(rt *rand.Rand, tx, rootFunc bool) route {
	r := route{tx: tx, rootFunc: rootFunc}
	if rt.Intn(2) == 0 {
		return r
	}
	for !r.derived() {
		r = route{tx: tx, rootFunc: rootFunc}
		if !rootFunc {
			for n := rt.Intn(3); n > 0; n-- {
				r.hops = append(r.hops, rt.Intn(2) == 0)
			}
			r.final = rt.Intn(3)
		}
		if r.usesFn() {
			for n := rt.Intn(3); n > 0; n-- {
				r.inner = append(r.inner, rt.Intn(2) == 0)
			}
		}
	}
	return r
}
