package c41

import (
	"context"
	"fmt"
	"math/rand"
	"reflect"
	"sort"
	"strings"
	"time"

	"github.com/redis/rueidis/rueidiscompat"
)

type (
	C = rueidiscompat.Cmdable
	R = rueidiscompat.Cmder
)

var ctx = context.Background()

// op is one adapter call of a program. The same closure (same argument values) is applied to the plain adapter,
// to a Pipeline and to a TxPipeline.
type op struct {
	name       string // method name
	desc       string // method + arguments, for witnesses
	hand       bool   // hand written (arguments chosen to be meaningful) vs. reflectively generated
	answerable bool   // fakeredis implements the command (hand ops only; informative, the oracle reads the logs)
	call       func(c C) R
}

// gen produces the ops of one program. Every key and value carries the case id and a serial number, so a result
// that ends up at the wrong command is visible.
type gen struct {
	r    *rand.Rand
	id   string
	n    int
	pool map[byte][]string
	xseq int
}

func newGen(r *rand.Rand, id string) *gen {
	g := &gen{r: r, id: id, pool: map[byte][]string{}}
	for _, t := range []byte("shlSzxj") {
		for i := 0; i < 2; i++ {
			g.pool[t] = append(g.pool[t], fmt.Sprintf("%c%d{%s}", t, i, id))
		}
	}
	return g
}

func (g *gen) tok(p string) string { g.n++; return fmt.Sprintf("%s%s.%d", p, g.id, g.n) }

// key returns a key meant to hold type t: mostly one of the program's two keys of that type (so commands interact),
// sometimes a key of another type (WRONGTYPE replies), sometimes a key nobody wrote.
func (g *gen) key(t byte) string {
	switch x := g.r.Intn(20); {
	case x == 0:
		return g.tok("missing")
	case x == 1:
		o := []byte("shlSzxj")[g.r.Intn(7)]
		return g.pool[o][g.r.Intn(2)]
	}
	return g.pool[t][g.r.Intn(2)]
}

func mk(name string, answerable bool, f func(c C) R, args ...any) op {
	parts := make([]string, len(args))
	for i, a := range args {
		parts[i] = fmt.Sprintf("%v", a)
	}
	return op{name: name, desc: name + "(" + strings.Join(parts, ", ") + ")", hand: true, answerable: answerable, call: f}
}

var baseTime = time.Date(2031, 5, 17, 10, 0, 0, 0, time.UTC)

const (
	luaIncr  = "return redis.call('INCR', KEYS[1])"
	luaPair  = "return {KEYS[1], ARGV[1], tonumber(ARGV[2]) + 1}"
	luaGet   = "return redis.call('GET', KEYS[1])"
	luaError = "return redis.error_reply('ERR scripted ' .. ARGV[1])"
)

// handOps returns one or two ops (two when the second needs the first, e.g. a blocking pop that must find data).
func (g *gen) handOps() []op {
	r := g.r
	dur := func() time.Duration {
		switch r.Intn(4) {
		case 0:
			return time.Duration(100+r.Intn(900)) * time.Millisecond
		case 1:
			return time.Duration(1500+r.Intn(5000)) * time.Millisecond
		}
		return time.Duration(10+r.Intn(500)) * time.Second
	}
	n := int64(1 + r.Intn(9))
	switch r.Intn(112) {
	case 109, 110, 111:
		return []op{doNothing()}
	case 108:
		// a call that rejects its arguments without sending a command (go-redis: the Cmder carries an error and is not
		// part of the pipeline); it must not disturb its neighbours
		k := g.pool['s'][0] + ":bits"
		bc := &rueidiscompat.BitCount{Start: 0, End: 3, Unit: "NIBBLE"}
		return []op{mk("BitCount", true, func(c C) R { return c.BitCount(ctx, k, bc) }, k, "invalid unit NIBBLE")}
	// ------------------------------------------------------------ strings
	case 0, 1, 2:
		k, v := g.key('s'), g.tok("v")
		d := []time.Duration{0, 0, dur(), rueidiscompat.KeepTTL}[r.Intn(4)]
		return []op{mk("Set", true, func(c C) R { return c.Set(ctx, k, v, d) }, k, v, d)}
	case 3:
		k, v, d := g.key('s'), g.tok("v"), []time.Duration{0, dur()}[r.Intn(2)]
		return []op{mk("SetNX", true, func(c C) R { return c.SetNX(ctx, k, v, d) }, k, v, d)}
	case 4:
		k, v, d := g.key('s'), g.tok("v"), []time.Duration{0, dur(), rueidiscompat.KeepTTL}[r.Intn(3)]
		return []op{mk("SetXX", true, func(c C) R { return c.SetXX(ctx, k, v, d) }, k, v, d)}
	case 5:
		k, v, d := g.key('s'), g.tok("v"), dur()
		return []op{mk("SetEX", true, func(c C) R { return c.SetEX(ctx, k, v, d) }, k, v, d)}
	case 6:
		k, v := g.key('s'), g.tok("v")
		a := rueidiscompat.SetArgs{Mode: []string{"", "NX", "XX"}[r.Intn(3)], Get: r.Intn(2) == 0, KeepTTL: r.Intn(4) == 0}
		if !a.KeepTTL && r.Intn(2) == 0 {
			a.TTL = dur()
		}
		return []op{mk("SetArgs", true, func(c C) R { return c.SetArgs(ctx, k, v, a) }, k, v, fmt.Sprintf("%+v", a))}
	case 7, 8, 9:
		k := g.key('s')
		return []op{mk("Get", true, func(c C) R { return c.Get(ctx, k) }, k)}
	case 10:
		k, v := g.key('s'), g.tok("v")
		return []op{mk("GetSet", true, func(c C) R { return c.GetSet(ctx, k, v) }, k, v)}
	case 11:
		k := g.key('s')
		return []op{mk("GetDel", true, func(c C) R { return c.GetDel(ctx, k) }, k)}
	case 12:
		k, a, b := g.key('s'), int64(r.Intn(4)), int64(r.Intn(12))
		return []op{mk("GetRange", true, func(c C) R { return c.GetRange(ctx, k, a, b) }, k, a, b)}
	case 13:
		k, d := g.key('s'), []time.Duration{0, dur()}[r.Intn(2)]
		return []op{mk("GetEx", false, func(c C) R { return c.GetEx(ctx, k, d) }, k, d)}
	case 14:
		ks := []string{g.key('s'), g.key('s'), g.tok("missing")}
		return []op{mk("MGet", true, func(c C) R { return c.MGet(ctx, ks...) }, ks)}
	case 15:
		k1, v1, k2, v2 := g.key('s'), g.tok("v"), g.key('s'), g.tok("v")
		return []op{mk("MSet", true, func(c C) R { return c.MSet(ctx, k1, v1, k2, v2) }, k1, v1, k2, v2)}
	case 16:
		k1, v1 := g.key('s'), g.tok("v")
		return []op{mk("MSetNX", true, func(c C) R { return c.MSetNX(ctx, []string{k1, v1}) }, k1, v1)}
	case 17, 18:
		k, v := g.key('s'), g.tok("+")
		return []op{mk("Append", true, func(c C) R { return c.Append(ctx, k, v) }, k, v)}
	case 19:
		k := g.key('s')
		return []op{mk("StrLen", true, func(c C) R { return c.StrLen(ctx, k) }, k)}
	case 20, 21:
		k := g.pool['s'][1] + ":ctr"
		return []op{mk("Incr", true, func(c C) R { return c.Incr(ctx, k) }, k)}
	case 22:
		k := g.pool['s'][1] + ":ctr"
		return []op{mk("Decr", true, func(c C) R { return c.Decr(ctx, k) }, k)}
	case 23:
		k := g.pool['s'][1] + ":ctr"
		return []op{mk("IncrBy", true, func(c C) R { return c.IncrBy(ctx, k, n) }, k, n)}
	case 24:
		k := g.pool['s'][1] + ":ctr"
		return []op{mk("DecrBy", true, func(c C) R { return c.DecrBy(ctx, k, n) }, k, n)}
	case 25:
		k, f := g.pool['s'][1]+":flt", float64(n)+0.25
		return []op{mk("IncrByFloat", true, func(c C) R { return c.IncrByFloat(ctx, k, f) }, k, f)}
	case 26:
		k, off, bit := g.pool['s'][0]+":bits", int64(r.Intn(40)), int64(r.Intn(2))
		return []op{mk("SetBit", true, func(c C) R { return c.SetBit(ctx, k, off, bit) }, k, off, bit)}
	case 27:
		k, off := g.pool['s'][0]+":bits", int64(r.Intn(40))
		return []op{mk("GetBit", true, func(c C) R { return c.GetBit(ctx, k, off) }, k, off)}
	case 28:
		k := g.pool['s'][0] + ":bits"
		var bc *rueidiscompat.BitCount
		if r.Intn(2) == 0 {
			bc = &rueidiscompat.BitCount{Start: 0, End: int64(r.Intn(5))}
		}
		return []op{mk("BitCount", true, func(c C) R { return c.BitCount(ctx, k, bc) }, k, bc)}
	case 29:
		k := g.pool['s'][0] + ":bf"
		return []op{mk("BitField", true, func(c C) R { return c.BitField(ctx, k, "INCRBY", "u8", 0, n) }, k, n)}
	case 30:
		k := g.pool['s'][0] + ":bf"
		return []op{mk("BitFieldRO", true, func(c C) R { return c.BitFieldRO(ctx, k, "u8", 0) }, k)}
	case 31:
		k := g.pool['s'][0] + ":bits"
		return []op{mk("BitPos", false, func(c C) R { return c.BitPos(ctx, k, 1, n) }, k, n)}
	// --------------------------------------------------------------- keys
	case 32:
		ks := []string{g.key("shlSz"[r.Intn(5)]), g.tok("missing")}
		return []op{mk("Del", true, func(c C) R { return c.Del(ctx, ks...) }, ks)}
	case 33:
		ks := []string{g.key("shlSz"[r.Intn(5)])}
		return []op{mk("Unlink", true, func(c C) R { return c.Unlink(ctx, ks...) }, ks)}
	case 34:
		ks := []string{g.key('s'), g.key('h'), g.key('l')}
		return []op{mk("Exists", true, func(c C) R { return c.Exists(ctx, ks...) }, ks)}
	case 35, 36:
		k, d := g.key("shl"[r.Intn(3)]), dur()
		switch r.Intn(6) {
		case 0:
			return []op{mk("ExpireNX", true, func(c C) R { return c.ExpireNX(ctx, k, d) }, k, d)}
		case 1:
			return []op{mk("ExpireXX", true, func(c C) R { return c.ExpireXX(ctx, k, d) }, k, d)}
		case 2:
			return []op{mk("ExpireGT", true, func(c C) R { return c.ExpireGT(ctx, k, d) }, k, d)}
		case 3:
			return []op{mk("ExpireLT", true, func(c C) R { return c.ExpireLT(ctx, k, d) }, k, d)}
		}
		return []op{mk("Expire", true, func(c C) R { return c.Expire(ctx, k, d) }, k, d)}
	case 37:
		k, d := g.key('s'), dur()
		return []op{mk("PExpire", true, func(c C) R { return c.PExpire(ctx, k, d) }, k, d)}
	case 38:
		k, tm := g.key('s'), baseTime.Add(time.Duration(r.Intn(100000))*time.Second)
		return []op{mk("ExpireAt", true, func(c C) R { return c.ExpireAt(ctx, k, tm) }, k, tm.Unix())}
	case 39:
		k, tm := g.key('h'), baseTime.Add(time.Duration(r.Intn(100000))*time.Millisecond)
		return []op{mk("PExpireAt", true, func(c C) R { return c.PExpireAt(ctx, k, tm) }, k, tm.UnixMilli())}
	case 40:
		k := g.key('s')
		return []op{mk("TTL", true, func(c C) R { return c.TTL(ctx, k) }, k)}
	case 41:
		k := g.key('s')
		return []op{mk("PTTL", true, func(c C) R { return c.PTTL(ctx, k) }, k)}
	case 42:
		k := g.key('s')
		return []op{mk("ExpireTime", true, func(c C) R { return c.ExpireTime(ctx, k) }, k)}
	case 43:
		k := g.key('h')
		return []op{mk("PExpireTime", true, func(c C) R { return c.PExpireTime(ctx, k) }, k)}
	case 44:
		k := g.key('s')
		return []op{mk("Persist", true, func(c C) R { return c.Persist(ctx, k) }, k)}
	case 45:
		k := g.key("shlSzx"[r.Intn(6)])
		return []op{mk("Type", true, func(c C) R { return c.Type(ctx, k) }, k)}
	case 46:
		a, b := g.key('s'), g.key('s')
		return []op{mk("Rename", true, func(c C) R { return c.Rename(ctx, a, b) }, a, b)}
	case 47:
		p := "*{" + g.id + "}*"
		return []op{mk("Keys", true, func(c C) R { return c.Keys(ctx, p) }, p)}
	case 48:
		p := []string{"", "s*"}[r.Intn(2)]
		return []op{mk("Scan", true, func(c C) R { return c.Scan(ctx, 0, p, n) }, p, n)}
	case 49:
		return []op{mk("DBSize", true, func(c C) R { return c.DBSize(ctx) })}
	case 50:
		a, b := g.key('s'), g.key('s')
		return []op{mk("Copy", false, func(c C) R { return c.Copy(ctx, a, b, 0, true) }, a, b)}
	// ------------------------------------------------------------- hashes
	case 51, 52:
		k, f1, v1, f2, v2 := g.key('h'), fmt.Sprintf("f%d", r.Intn(4)), g.tok("hv"), fmt.Sprintf("f%d", r.Intn(4)), g.tok("hv")
		switch r.Intn(3) {
		case 0:
			return []op{mk("HSet", true, func(c C) R { return c.HSet(ctx, k, map[string]any{f1: v1}) }, k, f1, v1)}
		case 1:
			return []op{mk("HMSet", true, func(c C) R { return c.HMSet(ctx, k, f1, v1, f2, v2) }, k, f1, v1, f2, v2)}
		}
		return []op{mk("HSet", true, func(c C) R { return c.HSet(ctx, k, f1, v1, f2, v2) }, k, f1, v1, f2, v2)}
	case 53:
		k, f, v := g.key('h'), fmt.Sprintf("f%d", r.Intn(4)), g.tok("hv")
		return []op{mk("HSetNX", true, func(c C) R { return c.HSetNX(ctx, k, f, v) }, k, f, v)}
	case 54, 55:
		k, f := g.key('h'), fmt.Sprintf("f%d", r.Intn(4))
		return []op{mk("HGet", true, func(c C) R { return c.HGet(ctx, k, f) }, k, f)}
	case 56:
		k := g.key('h')
		return []op{mk("HMGet", true, func(c C) R { return c.HMGet(ctx, k, "f0", "f1", "f9") }, k)}
	case 57:
		k := g.key('h')
		switch r.Intn(3) {
		case 0:
			return []op{mk("HKeys", true, func(c C) R { return c.HKeys(ctx, k) }, k)}
		case 1:
			return []op{mk("HVals", true, func(c C) R { return c.HVals(ctx, k) }, k)}
		}
		return []op{mk("HGetAll", true, func(c C) R { return c.HGetAll(ctx, k) }, k)}
	case 58:
		k, f := g.key('h'), fmt.Sprintf("f%d", r.Intn(4))
		return []op{mk("HDel", true, func(c C) R { return c.HDel(ctx, k, f, "f9") }, k, f)}
	case 59:
		k, f := g.key('h'), fmt.Sprintf("f%d", r.Intn(4))
		return []op{mk("HExists", true, func(c C) R { return c.HExists(ctx, k, f) }, k, f)}
	case 60:
		k := g.key('h')
		return []op{mk("HLen", true, func(c C) R { return c.HLen(ctx, k) }, k)}
	case 61:
		k := g.key('h')
		return []op{mk("HIncrBy", true, func(c C) R { return c.HIncrBy(ctx, k, "cnt", n) }, k, n)}
	case 62:
		k := g.key('h')
		return []op{mk("HScan", true, func(c C) R { return c.HScan(ctx, k, 0, "", 0) }, k)}
	case 63:
		k := g.key('h')
		return []op{mk("HRandField", false, func(c C) R { return c.HRandField(ctx, k, n) }, k, n)}
	// -------------------------------------------------------------- lists
	case 64, 65:
		k, v1, v2 := g.key('l'), g.tok("e"), g.tok("e")
		if r.Intn(2) == 0 {
			return []op{mk("LPush", true, func(c C) R { return c.LPush(ctx, k, v1, v2) }, k, v1, v2)}
		}
		return []op{mk("RPush", true, func(c C) R { return c.RPush(ctx, k, []string{v1, v2}) }, k, v1, v2)}
	case 66:
		k := g.key('l')
		if r.Intn(2) == 0 {
			return []op{mk("LPop", true, func(c C) R { return c.LPop(ctx, k) }, k)}
		}
		return []op{mk("RPop", true, func(c C) R { return c.RPop(ctx, k) }, k)}
	case 67:
		k, cnt := g.key('l'), int64(1+r.Intn(3))
		if r.Intn(2) == 0 {
			return []op{mk("LPopCount", true, func(c C) R { return c.LPopCount(ctx, k, cnt) }, k, cnt)}
		}
		return []op{mk("RPopCount", true, func(c C) R { return c.RPopCount(ctx, k, cnt) }, k, cnt)}
	case 68:
		k := g.key('l')
		return []op{mk("LRange", true, func(c C) R { return c.LRange(ctx, k, 0, -1) }, k)}
	case 69:
		k := g.key('l')
		return []op{mk("LLen", true, func(c C) R { return c.LLen(ctx, k) }, k)}
	case 70:
		k, i := g.key('l'), int64(r.Intn(3))
		return []op{mk("LIndex", true, func(c C) R { return c.LIndex(ctx, k, i) }, k, i)}
	case 71:
		// a blocking pop that is certain to find data (so it never waits, in any of the three modes)
		k, v := g.tok("bl"), g.tok("e")
		push := mk("RPush", true, func(c C) R { return c.RPush(ctx, k, v) }, k, v)
		if r.Intn(2) == 0 {
			return []op{push, mk("BLPop", true, func(c C) R { return c.BLPop(ctx, time.Second, k) }, "1s", k)}
		}
		return []op{push, mk("BRPop", true, func(c C) R { return c.BRPop(ctx, 2*time.Second, g.pool['l'][0]+":none", k) }, "2s", k)}
	case 72:
		k, p, v := g.key('l'), g.tok("e"), g.tok("e")
		return []op{mk("LInsertBefore", false, func(c C) R { return c.LInsertBefore(ctx, k, p, v) }, k, p, v)}
	// --------------------------------------------------------------- sets
	case 73, 74:
		k, m1, m2 := g.key('S'), fmt.Sprintf("m%d", r.Intn(5)), g.tok("m")
		return []op{mk("SAdd", true, func(c C) R { return c.SAdd(ctx, k, m1, m2) }, k, m1, m2)}
	case 75:
		k, m := g.key('S'), fmt.Sprintf("m%d", r.Intn(5))
		return []op{mk("SRem", true, func(c C) R { return c.SRem(ctx, k, m) }, k, m)}
	case 76:
		k := g.key('S')
		if r.Intn(2) == 0 {
			return []op{mk("SMembersMap", true, func(c C) R { return c.SMembersMap(ctx, k) }, k)}
		}
		return []op{mk("SMembers", true, func(c C) R { return c.SMembers(ctx, k) }, k)}
	case 77:
		k, m := g.key('S'), fmt.Sprintf("m%d", r.Intn(5))
		return []op{mk("SIsMember", true, func(c C) R { return c.SIsMember(ctx, k, m) }, k, m)}
	case 78:
		k := g.key('S')
		return []op{mk("SCard", true, func(c C) R { return c.SCard(ctx, k) }, k)}
	case 79:
		k := g.key('S')
		return []op{mk("SPop", false, func(c C) R { return c.SPop(ctx, k) }, k)}
	// -------------------------------------------------------- sorted sets
	case 80, 81:
		k := g.key('z')
		zs := []rueidiscompat.Z{{Member: fmt.Sprintf("z%d", r.Intn(5)), Score: float64(r.Intn(50)) + 0.5}, {Member: g.tok("z"), Score: float64(r.Intn(50))}}
		switch r.Intn(5) {
		case 0:
			return []op{mk("ZAddNX", true, func(c C) R { return c.ZAddNX(ctx, k, zs...) }, k, zs)}
		case 1:
			return []op{mk("ZAddXX", true, func(c C) R { return c.ZAddXX(ctx, k, zs...) }, k, zs)}
		case 2:
			a := rueidiscompat.ZAddArgs{Members: zs, Ch: true}
			return []op{mk("ZAddArgs", true, func(c C) R { return c.ZAddArgs(ctx, k, a) }, k, zs, "CH")}
		}
		return []op{mk("ZAdd", true, func(c C) R { return c.ZAdd(ctx, k, zs...) }, k, zs)}
	case 82:
		k := g.key('z')
		if r.Intn(2) == 0 {
			return []op{mk("ZRangeWithScores", true, func(c C) R { return c.ZRangeWithScores(ctx, k, 0, -1) }, k)}
		}
		return []op{mk("ZRange", true, func(c C) R { return c.ZRange(ctx, k, 0, -1) }, k)}
	case 83:
		k, m := g.key('z'), fmt.Sprintf("z%d", r.Intn(5))
		return []op{mk("ZScore", true, func(c C) R { return c.ZScore(ctx, k, m) }, k, m)}
	case 84:
		k, m := g.key('z'), fmt.Sprintf("z%d", r.Intn(5))
		return []op{mk("ZRem", true, func(c C) R { return c.ZRem(ctx, k, m) }, k, m)}
	case 85:
		k := g.key('z')
		return []op{mk("ZCard", true, func(c C) R { return c.ZCard(ctx, k) }, k)}
	case 86:
		k := g.key('z')
		return []op{mk("ZPopMin", false, func(c C) R { return c.ZPopMin(ctx, k) }, k)}
	case 87:
		k := g.key('z')
		by := rueidiscompat.ZRangeBy{Min: "-inf", Max: "+inf", Count: n}
		return []op{mk("ZRangeByScoreWithScores", false, func(c C) R { return c.ZRangeByScoreWithScores(ctx, k, by) }, k, by)}
	// ------------------------------------------------------------ streams
	case 88, 89:
		k := g.key('x')
		g.xseq++
		id := fmt.Sprintf("%d-%d", 1000+g.xseq, r.Intn(3))
		if r.Intn(5) == 0 {
			id = ""
		}
		f, v := "fld", g.tok("xv")
		a := rueidiscompat.XAddArgs{Stream: k, ID: id, Values: []string{f, v}}
		return []op{mk("XAdd", true, func(c C) R { return c.XAdd(ctx, a) }, k, id, f, v)}
	case 90:
		k := g.key('x')
		return []op{mk("XLen", true, func(c C) R { return c.XLen(ctx, k) }, k)}
	case 91:
		k := g.key('x')
		if r.Intn(2) == 0 {
			return []op{mk("XRangeN", true, func(c C) R { return c.XRangeN(ctx, k, "-", "+", n) }, k, n)}
		}
		return []op{mk("XRange", true, func(c C) R { return c.XRange(ctx, k, "-", "+") }, k)}
	// ---------------------------------------------- scripting, misc, JSON
	case 92, 93:
		k := g.pool['s'][1] + ":ctr"
		a1, a2 := g.tok("arg"), n
		switch r.Intn(5) {
		case 0:
			return []op{mk("Eval", true, func(c C) R { return c.Eval(ctx, luaPair, []string{k}, a1, a2) }, "pair", k, a1, a2)}
		case 1:
			k2 := g.key('s')
			return []op{mk("EvalRO", true, func(c C) R { return c.EvalRO(ctx, luaGet, []string{k2}) }, "get", k2)}
		case 2:
			return []op{mk("Eval", true, func(c C) R { return c.Eval(ctx, luaError, nil, a1) }, "error", a1)}
		case 3:
			sha := "0123456789abcdef0123456789abcdef01234567"
			return []op{mk("EvalSha", true, func(c C) R { return c.EvalSha(ctx, sha, []string{k}, a1) }, sha, k, a1)}
		}
		return []op{mk("Eval", true, func(c C) R { return c.Eval(ctx, luaIncr, []string{k}) }, "incr", k)}
	case 94:
		// load a script, then run it by its digest
		src := "return {ARGV[1], '" + g.tok("lit") + "'}"
		a1 := g.tok("arg")
		sha := sha1hex(src)
		return []op{mk("ScriptLoad", true, func(c C) R { return c.ScriptLoad(ctx, src) }, src),
			mk("EvalSha", true, func(c C) R { return c.EvalSha(ctx, sha, nil, a1) }, sha, a1),
			mk("ScriptExists", true, func(c C) R { return c.ScriptExists(ctx, sha, "ffffffffffffffffffffffffffffffffffffffff") }, sha)}
	case 95:
		m := g.tok("echo")
		return []op{mk("Echo", true, func(c C) R { return c.Echo(ctx, m) }, m)}
	case 96:
		return []op{mk("Ping", true, func(c C) R { return c.Ping(ctx) })}
	case 97:
		ch, m := g.tok("ch"), g.tok("msg")
		if r.Intn(2) == 0 {
			return []op{mk("SPublish", true, func(c C) R { return c.SPublish(ctx, ch, m) }, ch, m)}
		}
		return []op{mk("Publish", true, func(c C) R { return c.Publish(ctx, ch, m) }, ch, m)}
	case 98:
		k, v := g.key('j'), fmt.Sprintf(`{"a":%d,"s":"%s"}`, r.Intn(100), g.tok("js"))
		return []op{mk("JSONSet", true, func(c C) R { return c.JSONSet(ctx, k, "$", v) }, k, v)}
	case 99:
		k := g.key('j')
		return []op{mk("JSONGet", true, func(c C) R { return c.JSONGet(ctx, k, "$.a") }, k)}
	case 100:
		k := g.key('j')
		return []op{mk("JSONNumIncrBy", true, func(c C) R { return c.JSONNumIncrBy(ctx, k, "$.a", float64(n)) }, k, n)}
	case 101:
		k1, k2 := g.key('j'), g.key('j')
		return []op{mk("JSONMGet", true, func(c C) R { return c.JSONMGet(ctx, "$.s", k1, k2) }, k1, k2)}
	case 102:
		k := g.key('j')
		return []op{mk("JSONDel", true, func(c C) R { return c.JSONDel(ctx, k, "$.a") }, k)}
	}
	// Pipeliner.Do with a command whose reply is a function of its own arguments; outside a pipeline the reference
	// is a pipeline of exactly this one command (nothing to mis-align there)
	k, uid := g.tok("echo"), g.tok("uid")
	shape := []string{"str", "int", "arr", "map", "nil", "err", "double", "bool", "nested", "simple", "set"}[r.Intn(11)]
	return []op{{name: "Do", desc: fmt.Sprintf("Do(VERIF.ECHO, %s, %s, %s)", k, uid, shape), hand: true, answerable: true, call: func(c C) R {
		if p, ok := c.(rueidiscompat.Pipeliner); ok {
			return p.Do(ctx, "VERIF.ECHO", k, uid, shape)
		}
		p := c.Pipeline()
		cmd := p.Do(ctx, "VERIF.ECHO", k, uid, shape)
		_, _ = p.Exec(ctx)
		return cmd
	}}}
}

// doNothing: Pipeliner.Do without arguments is rejected (the Cmder carries an error) and queues no command; it must not
// disturb the commands queued around it. Outside a pipeline the reference is that same call on a fresh pipeline.
func doNothing() op {
	return op{name: "Do()", desc: "Do()", hand: true, answerable: true, call: func(c C) R {
		if p, ok := c.(rueidiscompat.Pipeliner); ok {
			return p.Do(ctx)
		}
		p := c.Pipeline()
		cmd := p.Do(ctx)
		_, _ = p.Exec(ctx)
		return cmd
	}}
}

// ---------------------------------------------------------------- reflective ops

var (
	cmderType    = reflect.TypeOf((*rueidiscompat.Cmder)(nil)).Elem()
	ctxType      = reflect.TypeOf((*context.Context)(nil)).Elem()
	durationType = reflect.TypeOf(time.Duration(0))
	timeType     = reflect.TypeOf(time.Time{})
	pipelinerT   = reflect.TypeOf((*rueidiscompat.Pipeliner)(nil)).Elem()
)

// methods that are not "one queued command": entry points of the pipeline machinery itself, calls that are not
// implemented on pipelines, calls whose reply depends on the connection or the clock, calls that end the connection,
// and the blocking pops fakeredis would really block on (covered by hand with data present).
var skipMethods = map[string]bool{
	"Pipeline": true, "TxPipeline": true, "Pipelined": true, "TxPipelined": true, "Watch": true, "ForEachMaster": true, "Client": true,
	"Cache": true, "Subscribe": true, "PSubscribe": true, "SSubscribe": true, "Len": true, "Do": true, "Discard": true, "Exec": true,
	"Quit": true, "Shutdown": true, "ShutdownSave": true, "ShutdownNoSave": true, "BLPop": true, "BRPop": true,
	"ClientKill": true, "ClientKillByFilter": true, // CLIENT KILL is a stub in fakeredis (answers OK to every form)
	"ClientID": true, "ClientInfo": true, "ClientList": true, "ClientGetName": true, "Time": true, "RandomKey": true,
}

// reflectiveMethods lists the Pipeliner methods an op can be generated for by reflection.
func reflectiveMethods() []reflect.Method {
	var out []reflect.Method
	for i := 0; i < pipelinerT.NumMethod(); i++ {
		m := pipelinerT.Method(i)
		if skipMethods[m.Name] || m.Type.NumOut() != 1 || !m.Type.Out(0).Implements(cmderType) {
			continue
		}
		if m.Type.NumIn() == 0 || m.Type.In(0) != ctxType {
			continue
		}
		ok := true
		for j := 1; j < m.Type.NumIn(); j++ {
			if !generable(m.Type.In(j), 0) {
				ok = false
			}
		}
		if ok {
			out = append(out, m)
		}
	}
	sort.Slice(out, func(i, j int) bool { return out[i].Name < out[j].Name })
	return out
}

func generable(t reflect.Type, depth int) bool {
	if depth > 6 {
		return false
	}
	switch t.Kind() {
	case reflect.Func, reflect.Chan, reflect.UnsafePointer, reflect.Uintptr, reflect.Complex64, reflect.Complex128:
		return false
	case reflect.Interface:
		return t.NumMethod() == 0
	case reflect.Slice, reflect.Array, reflect.Ptr:
		return generable(t.Elem(), depth+1)
	case reflect.Map:
		return generable(t.Key(), depth+1) && generable(t.Elem(), depth+1)
	}
	return true
}

var keywords = map[string][]string{
	"Order": {"", "ASC", "DESC"}, "Sort": {"", "ASC", "DESC"}, "Mode": {"", "NX", "XX"}, "Unit": {"", "BYTE", "BIT", "km", "m"},
	"Aggregate": {"", "SUM", "MIN", "MAX"}, "RadiusUnit": {"", "km", "m"}, "BoxUnit": {"", "km", "mi"},
}

var paramWords = []string{"BEFORE", "AFTER", "LEFT", "RIGHT", "MIN", "MAX", "km", "m", "ASC", "bit", "byte", "*"}

func (g *gen) value(t reflect.Type, field string, depth int) reflect.Value {
	r := g.r
	v := reflect.New(t).Elem()
	switch t {
	case durationType:
		v.SetInt(int64(time.Duration(1+r.Intn(90)) * time.Second))
		return v
	case timeType:
		v.Set(reflect.ValueOf(baseTime.Add(time.Duration(r.Intn(5000)) * time.Second)))
		return v
	}
	switch t.Kind() {
	case reflect.String:
		if ws, ok := keywords[field]; ok {
			v.SetString(ws[r.Intn(len(ws))])
		} else if field == "" && r.Intn(8) == 0 {
			v.SetString(paramWords[r.Intn(len(paramWords))])
		} else if field != "" && r.Intn(4) == 0 {
			// zero value of an optional struct field
		} else {
			v.SetString(g.tok("a"))
		}
	case reflect.Int, reflect.Int8, reflect.Int16, reflect.Int32, reflect.Int64:
		v.SetInt(int64(r.Intn(7)))
	case reflect.Uint, reflect.Uint8, reflect.Uint16, reflect.Uint32, reflect.Uint64:
		v.SetUint(uint64(r.Intn(7)))
	case reflect.Float32, reflect.Float64:
		v.SetFloat(float64(r.Intn(9)) + 0.5)
	case reflect.Bool:
		v.SetBool(r.Intn(2) == 0)
	case reflect.Interface:
		v.Set(reflect.ValueOf(g.tok("a")))
	case reflect.Slice:
		n := 1 + r.Intn(3)
		if t.Elem().Kind() == reflect.Interface {
			n = 2 * (1 + r.Intn(2)) // field/value pairs
		}
		if depth > 0 && r.Intn(4) == 0 {
			n = 0
		}
		s := reflect.MakeSlice(t, n, n)
		for i := 0; i < n; i++ {
			s.Index(i).Set(g.value(t.Elem(), "", depth+1))
		}
		v.Set(s)
	case reflect.Array:
		for i := 0; i < v.Len(); i++ {
			v.Index(i).Set(g.value(t.Elem(), "", depth+1))
		}
	case reflect.Map:
		// one entry only: the adapter iterates over maps, and the order of a larger one would differ between the runs
		m := reflect.MakeMap(t)
		m.SetMapIndex(g.value(t.Key(), "", depth+1), g.value(t.Elem(), "", depth+1))
		v.Set(m)
	case reflect.Ptr:
		if depth < 4 && r.Intn(8) != 0 {
			p := reflect.New(t.Elem())
			p.Elem().Set(g.value(t.Elem(), field, depth+1))
			v.Set(p)
		}
	case reflect.Struct:
		for i := 0; i < t.NumField(); i++ {
			f := t.Field(i)
			if !f.IsExported() || !generable(f.Type, depth) {
				continue
			}
			if f.Anonymous || r.Intn(10) < 7 {
				v.Field(i).Set(g.value(f.Type, f.Name, depth+1))
			}
		}
	}
	return v
}

func (g *gen) reflectiveOp(m reflect.Method) op {
	args := make([]reflect.Value, m.Type.NumIn())
	args[0] = reflect.ValueOf(ctx)
	var parts []string
	for j := 1; j < len(args); j++ {
		args[j] = g.value(m.Type.In(j), "", 0)
		parts = append(parts, strings.ReplaceAll(fmt.Sprintf("%+v", args[j].Interface()), "\n", " "))
	}
	name, variadic := m.Name, m.Type.IsVariadic()
	return op{name: name, desc: name + "(" + strings.Join(parts, ", ") + ")", call: func(c C) R {
		f := reflect.ValueOf(c).MethodByName(name)
		var out []reflect.Value
		if variadic {
			out = f.CallSlice(args)
		} else {
			out = f.Call(args)
		}
		res, _ := out[0].Interface().(R)
		return res
	}}
}
