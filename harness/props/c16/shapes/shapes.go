// Package shapes builds structured data and encodes it in the reply shapes a
// Redis server (and RediSearch) uses for RESP2 and RESP3 connections. It is
// shared by the C15 driver (which mutates these realistic replies) and the C16
// driver (which checks that the typed accessors return exactly the data).
//
// The shapes are transcribed from the Redis command reference ("RESP2/RESP3
// Reply" sections of XRANGE, XREAD, ZRANGE, ZPOPMIN, ZMPOP, SCAN, LMPOP,
// GEOSEARCH, MGET / JSON.MGET, FT.SEARCH, FT.AGGREGATE, FT.CURSOR READ); each
// encoder documents the shape it emits. They are a trusted base of the check.
package shapes

import (
	"math"
	"math/rand"
	"strconv"

	"verifh/resp"
)

const (
	R2 = 2
	R3 = 3
)

// Reply is one encoded reply together with the data it was generated from.
type Reply struct {
	Helper string // command family, e.g. "XRANGE"
	Proto  int    // R2 or R3
	V      resp.V
	Data   any
}

// ---------------------------------------------------------------- scalars

var strAlphabet = []string{"", "a", "b", "OK", "0", "1", "-1", "1.5", "inf", "nan", "007", "id", "results", "total_results",
	"extra_attributes", "score", "error", "hello world", "é☃", "\xff\xfe", "x\r\ny", "\x00", "field", "value", "12345678901234567890"}

// Str returns an arbitrary binary-safe string.
func Str(r *rand.Rand) string {
	switch r.Intn(4) {
	case 0:
		return strAlphabet[r.Intn(len(strAlphabet))]
	case 1:
		return "k" + strconv.Itoa(r.Intn(1000))
	default:
		n := r.Intn(12)
		b := make([]byte, n)
		for i := range b {
			if r.Intn(5) == 0 {
				b[i] = byte(r.Intn(256))
			} else {
				b[i] = "abcdefghijklmnopqrstuvwxyz0123456789:-_. "[r.Intn(41)]
			}
		}
		return string(b)
	}
}

// NonNumeric returns a non-empty string that strconv.ParseFloat rejects.
func NonNumeric(r *rand.Rand) string {
	s := Str(r)
	if _, err := strconv.ParseFloat(s, 64); err == nil || s == "" {
		return "doc:" + s
	}
	return s
}

// Distinct returns n pairwise different strings produced by gen.
func Distinct(r *rand.Rand, n int, gen func(*rand.Rand) string) []string {
	seen := map[string]bool{}
	out := make([]string, 0, n)
	for len(out) < n {
		s := gen(r)
		for seen[s] {
			s += strconv.Itoa(len(out))
		}
		seen[s] = true
		out = append(out, s)
	}
	return out
}

var floats = []float64{0, 1, -1, 0.5, 3.14, -2.5e10, 1e-7, 100, 13.361389, 38.115556, math.MaxFloat64, math.SmallestNonzeroFloat64, math.Inf(1), math.Inf(-1), 1 << 53, 0.1}

// Float returns a float64 that is not NaN.
func Float(r *rand.Rand) float64 {
	switch r.Intn(4) {
	case 0:
		return floats[r.Intn(len(floats))]
	case 1:
		return float64(r.Intn(2000000)-1000000) / 10000
	case 2:
		return float64(r.Intn(200) - 100)
	default:
		return r.NormFloat64() * math.Pow(10, float64(r.Intn(30)-15))
	}
}

// Finite returns a finite float64.
func Finite(r *rand.Rand) float64 {
	for {
		if f := Float(r); !math.IsInf(f, 0) {
			return f
		}
	}
}

// FloatText renders f the way Redis does: "inf" / "-inf" / "nan", otherwise a decimal that round-trips
// (Redis uses %.17g; the shortest round-trip form is used as a second spelling).
func FloatText(f float64, long bool) string {
	switch {
	case math.IsNaN(f):
		return "nan"
	case math.IsInf(f, 1):
		return "inf"
	case math.IsInf(f, -1):
		return "-inf"
	}
	if long {
		return strconv.FormatFloat(f, 'g', 17, 64)
	}
	return strconv.FormatFloat(f, 'g', -1, 64)
}

// Score encodes a double the way the protocol version does: RESP2 bulk string, RESP3 double.
func Score(f float64, proto int, long bool) resp.V {
	if proto == R3 {
		return resp.Double(FloatText(f, long))
	}
	return resp.Bulk(FloatText(f, long))
}

// Null is the null of the protocol version (RESP2 has two spellings).
func Null(proto int, arr bool) resp.V {
	if proto == R3 {
		return resp.Null()
	}
	if arr {
		return resp.NullArr()
	}
	return resp.NullBulk()
}

func flat(fv [][2]string) resp.V {
	v := resp.V{T: '*', A: make([]resp.V, 0, 2*len(fv))}
	for _, p := range fv {
		v.A = append(v.A, resp.Bulk(p[0]), resp.Bulk(p[1]))
	}
	return v
}

func flatMap(fv [][2]string) resp.V {
	v := flat(fv)
	v.T = '%'
	return v
}

// FieldValues returns n field/value pairs; when dups is set a field name may repeat.
func FieldValues(r *rand.Rand, n int, dups bool) [][2]string {
	var names []string
	if dups {
		for i := 0; i < n; i++ {
			if i > 0 && r.Intn(3) == 0 {
				names = append(names, names[r.Intn(i)])
			} else {
				names = append(names, Str(r))
			}
		}
	} else {
		names = Distinct(r, n, Str)
	}
	fv := make([][2]string, n)
	for i := range fv {
		fv[i] = [2]string{names[i], Str(r)}
	}
	return fv
}

// ---------------------------------------------------------------- streams

// XEntry is one stream entry; NilFV is an entry whose payload is reported as null
// (XREADGROUP / XAUTOCLAIM for an entry that was deleted while pending).
type XEntry struct {
	ID    string
	FV    [][2]string // in order, duplicates possible (XADD accepts a repeated field)
	NilFV bool
}

// XStream is one stream of an XREAD reply.
type XStream struct {
	Key     string
	Entries []XEntry
}

func GenXEntry(r *rand.Rand) XEntry {
	e := XEntry{ID: strconv.FormatInt(r.Int63n(1<<41), 10) + "-" + strconv.Itoa(r.Intn(100))}
	if r.Intn(10) == 0 {
		e.NilFV = true
		return e
	}
	e.FV = FieldValues(r, r.Intn(5), true)
	return e
}

func GenXEntries(r *rand.Rand, max int) []XEntry {
	es := make([]XEntry, r.Intn(max+1))
	for i := range es {
		es[i] = GenXEntry(r)
	}
	return es
}

// EncXEntry: XRANGE / XREVRANGE element, identical in RESP2 and RESP3:
//
//	*2 [ $id , *2k [ $field $value ... ] ]      (second element null for a deleted pending entry)
func EncXEntry(e XEntry, proto int) resp.V {
	if e.NilFV {
		return resp.Arr(resp.Bulk(e.ID), Null(proto, true))
	}
	return resp.Arr(resp.Bulk(e.ID), flat(e.FV))
}

// EncXRange: XRANGE / XREVRANGE / XCLAIM reply, identical in RESP2 and RESP3: *N of entries.
func EncXRange(es []XEntry, proto int) resp.V {
	v := resp.V{T: '*', A: make([]resp.V, len(es))}
	for i, e := range es {
		v.A[i] = EncXEntry(e, proto)
	}
	return v
}

// EncXRead: XREAD / XREADGROUP reply.
//
//	RESP2: *N of *2 [ $key , <XRANGE reply> ]
//	RESP3: %N   $key => <XRANGE reply>
func EncXRead(ss []XStream, proto int) resp.V {
	if proto == R3 {
		v := resp.V{T: '%', A: []resp.V{}}
		for _, s := range ss {
			v.A = append(v.A, resp.Bulk(s.Key), EncXRange(s.Entries, proto))
		}
		return v
	}
	v := resp.V{T: '*', A: []resp.V{}}
	for _, s := range ss {
		v.A = append(v.A, resp.Arr(resp.Bulk(s.Key), EncXRange(s.Entries, proto)))
	}
	return v
}

func GenXRead(r *rand.Rand) []XStream {
	keys := Distinct(r, 1+r.Intn(3), Str) // XREAD never reports a key twice
	ss := make([]XStream, len(keys))
	for i, k := range keys {
		ss[i] = XStream{Key: k, Entries: GenXEntries(r, 3)}
	}
	return ss
}

// ---------------------------------------------------------------- sorted sets

type ZPair struct {
	Member string
	Score  float64
}

func GenZPairs(r *rand.Rand, max int) []ZPair {
	ps := make([]ZPair, r.Intn(max+1))
	for i := range ps {
		ps[i] = ZPair{Member: Str(r), Score: Float(r)}
	}
	return ps
}

// EncZPop1: ZPOPMIN / ZPOPMAX without a count (also ZRANDMEMBER key 1 WITHSCORES in RESP2): one flat pair.
//
//	RESP2: *2 [ $member , $score ]
//	RESP3: *2 [ $member , ,score ]
func EncZPop1(p ZPair, proto int, long bool) resp.V {
	return resp.Arr(resp.Bulk(p.Member), Score(p.Score, proto, long))
}

// EncZScores: ZRANGE ... WITHSCORES, ZDIFF/ZUNION/ZINTER WITHSCORES, ZPOPMIN/ZPOPMAX with a count.
//
//	RESP2: *2N [ $member $score $member $score ... ]          (flat)
//	RESP3: *N of *2 [ $member , ,score ]                      (nested pairs)
func EncZScores(ps []ZPair, proto int, long bool) resp.V {
	v := resp.V{T: '*', A: []resp.V{}}
	for _, p := range ps {
		if proto == R3 {
			v.A = append(v.A, resp.Arr(resp.Bulk(p.Member), Score(p.Score, proto, long)))
		} else {
			v.A = append(v.A, resp.Bulk(p.Member), Score(p.Score, proto, long))
		}
	}
	return v
}

// ZMPop is the ZMPOP / BZMPOP reply.
type ZMPop struct {
	Key  string
	Vals []ZPair
}

// EncZMPop: ZMPOP / BZMPOP (null when nothing could be popped). Pairs are nested in both versions.
//
//	RESP2: *2 [ $key , *N of *2 [ $member , $score ] ]
//	RESP3: *2 [ $key , *N of *2 [ $member , ,score ] ]
func EncZMPop(z ZMPop, proto int, long bool) resp.V {
	in := resp.V{T: '*', A: []resp.V{}}
	for _, p := range z.Vals {
		in.A = append(in.A, resp.Arr(resp.Bulk(p.Member), Score(p.Score, proto, long)))
	}
	return resp.Arr(resp.Bulk(z.Key), in)
}

// ---------------------------------------------------------------- scan, lmpop

type Scan struct {
	Cursor uint64
	Elems  []string
}

func GenStrs(r *rand.Rand, max int) []string {
	s := make([]string, r.Intn(max+1))
	for i := range s {
		s[i] = Str(r)
	}
	return s
}

var cursors = []uint64{0, 1, 17, 1 << 31, 1<<63 - 1, 1 << 63, math.MaxUint64}

func GenScan(r *rand.Rand) Scan {
	s := Scan{Elems: GenStrs(r, 6)}
	if r.Intn(2) == 0 {
		s.Cursor = cursors[r.Intn(len(cursors))]
	} else {
		s.Cursor = r.Uint64()
	}
	return s
}

// EncScan: SCAN / SSCAN / HSCAN / ZSCAN, identical in RESP2 and RESP3 (HSCAN and ZSCAN stay flat):
//
//	*2 [ $cursor (unsigned 64 bit decimal) , *N [ $element ... ] ]
func EncScan(s Scan) resp.V {
	return resp.Arr(resp.Bulk(strconv.FormatUint(s.Cursor, 10)), resp.Strs(s.Elems...))
}

type LMPop struct {
	Key  string
	Vals []string
}

// EncLMPop: LMPOP / BLMPOP (null when nothing could be popped), identical in RESP2 and RESP3:
//
//	*2 [ $key , *N [ $element ... ] ]
func EncLMPop(l LMPop) resp.V { return resp.Arr(resp.Bulk(l.Key), resp.Strs(l.Vals...)) }

// ---------------------------------------------------------------- RediSearch

type FtDoc struct {
	Key    string
	Score  float64
	Fields [][2]string // distinct field names
}

// FtSearch models FT.SEARCH [NOCONTENT] [WITHSCORES] (no WITHPAYLOADS / WITHSORTKEYS: the accessor does not model them).
type FtSearch struct {
	Total      int64
	Docs       []FtDoc
	WithScores bool
	NoContent  bool
}

func GenFtSearch(r *rand.Rand) FtSearch {
	f := FtSearch{WithScores: r.Intn(2) == 0, NoContent: r.Intn(3) == 0}
	keys := Distinct(r, r.Intn(5), NonNumeric)
	for _, k := range keys {
		d := FtDoc{Key: k}
		if f.WithScores {
			d.Score = Finite(r)
		}
		if !f.NoContent {
			d.Fields = FieldValues(r, r.Intn(4), false)
		}
		f.Docs = append(f.Docs, d)
	}
	f.Total = int64(len(f.Docs)) + int64(r.Intn(3))*int64(r.Intn(1000))
	return f
}

// EncFtSearch: FT.SEARCH.
//
//	RESP2: *  [ :total , then per document: $id , [$score if WITHSCORES] , [*2k [$field $value ...] unless NOCONTENT] ]
//	RESP3: %  attributes => *0 , [error => *0 (RediSearch 2.6/2.8)] , format => $STRING ,
//	          results => *N of % [ id => $id , [score => ,score if WITHSCORES] , [extra_attributes => %k {$field => $value} unless NOCONTENT] , values => *0 ] ,
//	          total_results => :total , warning => *0
//
// variant changes the spelling only (key order / presence of the error and warning entries).
func EncFtSearch(f FtSearch, proto int, long bool, variant int) resp.V {
	if proto == R2 {
		v := resp.Arr(resp.Int(f.Total))
		for _, d := range f.Docs {
			v.A = append(v.A, resp.Bulk(d.Key))
			if f.WithScores {
				v.A = append(v.A, resp.Bulk(FloatText(d.Score, long)))
			}
			if !f.NoContent {
				v.A = append(v.A, flat(d.Fields))
			}
		}
		return v
	}
	results := resp.V{T: '*', A: []resp.V{}}
	for _, d := range f.Docs {
		rec := resp.Map(resp.Bulk("id"), resp.Bulk(d.Key))
		if f.WithScores {
			rec.A = append(rec.A, resp.Bulk("score"), resp.Double(FloatText(d.Score, long)))
		}
		if !f.NoContent {
			rec.A = append(rec.A, resp.Bulk("extra_attributes"), flatMap(d.Fields))
		}
		rec.A = append(rec.A, resp.Bulk("values"), resp.Arr())
		results.A = append(results.A, rec)
	}
	return ftEnvelope(results, f.Total, variant)
}

func ftEnvelope(results resp.V, total int64, variant int) resp.V {
	v := resp.Map(resp.Bulk("attributes"), resp.Arr())
	if variant%2 == 1 {
		v.A = append(v.A, resp.Bulk("error"), resp.Arr())
	}
	v.A = append(v.A, resp.Bulk("format"), resp.Bulk("STRING"))
	if variant%4 >= 2 { // total before results
		v.A = append(v.A, resp.Bulk("total_results"), resp.Int(total), resp.Bulk("results"), results)
	} else {
		v.A = append(v.A, resp.Bulk("results"), results, resp.Bulk("total_results"), resp.Int(total))
	}
	if variant%2 == 0 {
		v.A = append(v.A, resp.Bulk("warning"), resp.Arr())
	}
	return v
}

// FtAgg models FT.AGGREGATE [WITHCURSOR] / FT.CURSOR READ.
type FtAgg struct {
	Total      int64
	Rows       [][][2]string // distinct field names per row
	WithCursor bool
	Cursor     int64
}

func GenFtAgg(r *rand.Rand) FtAgg {
	f := FtAgg{WithCursor: r.Intn(2) == 0}
	n := r.Intn(5)
	for i := 0; i < n; i++ {
		f.Rows = append(f.Rows, FieldValues(r, r.Intn(4), false))
	}
	f.Total = int64(n) + int64(r.Intn(2)*r.Intn(1000))
	if f.WithCursor {
		f.Cursor = []int64{0, 1, 1 << 31, 1<<62 + 12345, int64(r.Int63())}[r.Intn(5)]
	}
	return f
}

// EncFtAgg: FT.AGGREGATE.
//
//	RESP2: * [ :total , *2k [$field $value ...] per row ... ]
//	RESP3: % attributes => *0 , format => $STRING , results => *N of % [ extra_attributes => %k {$field => $value} , values => *0 ] , total_results => :total , warning => *0
//	WITHCURSOR / FT.CURSOR READ (both versions): *2 [ <the reply above> , :cursor ]
func EncFtAgg(f FtAgg, proto int, variant int) resp.V {
	var v resp.V
	if proto == R2 {
		v = resp.Arr(resp.Int(f.Total))
		for _, row := range f.Rows {
			v.A = append(v.A, flat(row))
		}
	} else {
		results := resp.V{T: '*', A: []resp.V{}}
		for _, row := range f.Rows {
			results.A = append(results.A, resp.Map(resp.Bulk("extra_attributes"), flatMap(row), resp.Bulk("values"), resp.Arr()))
		}
		v = ftEnvelope(results, f.Total, variant)
	}
	if f.WithCursor {
		return resp.Arr(v, resp.Int(f.Cursor))
	}
	return v
}

// ---------------------------------------------------------------- geo

type Geo struct {
	Name           string
	Dist, Lon, Lat float64
	Hash           int64
}

// GeoReply models GEOSEARCH / GEORADIUS with any combination of WITHCOORD, WITHDIST, WITHHASH.
type GeoReply struct {
	Locs                          []Geo
	WithDist, WithHash, WithCoord bool
}

func GenGeo(r *rand.Rand, combo int) GeoReply {
	g := GeoReply{WithDist: combo&1 != 0, WithHash: combo&2 != 0, WithCoord: combo&4 != 0}
	n := r.Intn(5)
	for i := 0; i < n; i++ {
		l := Geo{Name: Str(r)}
		if g.WithDist {
			l.Dist = float64(r.Intn(100000000)) / 10000 // the server prints distances with 4 decimals
		}
		if g.WithHash {
			l.Hash = r.Int63n(1 << 52)
		}
		if g.WithCoord {
			l.Lon = (r.Float64() - 0.5) * 360
			l.Lat = (r.Float64() - 0.5) * 170
		}
		g.Locs = append(g.Locs, l)
	}
	return g
}

// EncGeo: GEOSEARCH / GEORADIUS / GEORADIUSBYMEMBER.
//
//	no WITH* option (both versions): *N [ $member ... ]
//	otherwise *N of * [ $member , [$distance if WITHDIST] , [:hash if WITHHASH] , [*2 [lon lat] if WITHCOORD] ]   in this fixed order;
//	the distance is a bulk string in both versions (fixed 4 decimals); longitude / latitude are bulk strings in RESP2 and doubles in RESP3.
func EncGeo(g GeoReply, proto int) resp.V {
	v := resp.V{T: '*', A: []resp.V{}}
	for _, l := range g.Locs {
		if !g.WithDist && !g.WithHash && !g.WithCoord {
			v.A = append(v.A, resp.Bulk(l.Name))
			continue
		}
		e := resp.Arr(resp.Bulk(l.Name))
		if g.WithDist {
			e.A = append(e.A, resp.Bulk(strconv.FormatFloat(l.Dist, 'f', 4, 64)))
		}
		if g.WithHash {
			e.A = append(e.A, resp.Int(l.Hash))
		}
		if g.WithCoord {
			e.A = append(e.A, resp.Arr(Score(l.Lon, proto, true), Score(l.Lat, proto, true)))
		}
		v.A = append(v.A, e)
	}
	return v
}

// ---------------------------------------------------------------- catalogue

// Realistic returns one random reply per structured helper and protocol version.
func Realistic(r *rand.Rand) []Reply {
	var out []Reply
	add := func(helper string, proto int, v resp.V, data any) {
		out = append(out, Reply{Helper: helper, Proto: proto, V: v, Data: data})
	}
	long := r.Intn(2) == 0
	variant := r.Intn(4)
	xe := GenXEntry(r)
	xes := GenXEntries(r, 4)
	xr := GenXRead(r)
	zp := ZPair{Member: Str(r), Score: Float(r)}
	zps := GenZPairs(r, 5)
	zm := ZMPop{Key: Str(r), Vals: GenZPairs(r, 4)}
	sc := GenScan(r)
	lm := LMPop{Key: Str(r), Vals: GenStrs(r, 5)}
	fs := GenFtSearch(r)
	fa := GenFtAgg(r)
	for _, p := range []int{R2, R3} {
		add("XRANGE-ENTRY", p, EncXEntry(xe, p), xe)
		add("XRANGE", p, EncXRange(xes, p), xes)
		add("XREAD", p, EncXRead(xr, p), xr)
		add("ZPOP1", p, EncZPop1(zp, p, long), zp)
		add("ZSCORES", p, EncZScores(zps, p, long), zps)
		add("ZMPOP", p, EncZMPop(zm, p, long), zm)
		add("SCAN", p, EncScan(sc), sc)
		add("LMPOP", p, EncLMPop(lm), lm)
		add("FT.SEARCH", p, EncFtSearch(fs, p, long, variant), fs)
		add("FT.AGGREGATE", p, EncFtAgg(fa, p, variant), fa)
		g := GenGeo(r, r.Intn(8))
		add("GEOSEARCH", p, EncGeo(g, p), g)
	}
	return out
}

// Canonical returns small fixed replies of every structured helper (every option combination, both
// protocol versions) for exhaustive single-mutation enumeration.
func Canonical() []Reply {
	var out []Reply
	add := func(helper string, proto int, v resp.V, data any) {
		out = append(out, Reply{Helper: helper, Proto: proto, V: v, Data: data})
	}
	xes := []XEntry{{ID: "1-0", FV: [][2]string{{"f", "v"}, {"g", "w"}}}, {ID: "2-0", NilFV: true}}
	xr := []XStream{{Key: "s1", Entries: xes[:1]}, {Key: "s2", Entries: []XEntry{{ID: "3-1", FV: [][2]string{{"a", "b"}}}}}}
	zps := []ZPair{{"m1", 1.5}, {"m2", 2}}
	for _, p := range []int{R2, R3} {
		add("XRANGE-ENTRY", p, EncXEntry(xes[0], p), xes[0])
		add("XRANGE", p, EncXRange(xes, p), xes)
		add("XREAD", p, EncXRead(xr, p), xr)
		add("ZPOP1", p, EncZPop1(zps[0], p, false), zps[0])
		add("ZSCORES", p, EncZScores(zps, p, false), zps)
		zm := ZMPop{Key: "zk", Vals: zps}
		add("ZMPOP", p, EncZMPop(zm, p, false), zm)
		sc := Scan{Cursor: 17, Elems: []string{"k1", "k2"}}
		add("SCAN", p, EncScan(sc), sc)
		lm := LMPop{Key: "lk", Vals: []string{"e1", "e2"}}
		add("LMPOP", p, EncLMPop(lm), lm)
		for opt := 0; opt < 4; opt++ {
			fs := FtSearch{Total: 2, WithScores: opt&1 != 0, NoContent: opt&2 != 0}
			for _, k := range []string{"doc:1", "doc:2"} {
				d := FtDoc{Key: k}
				if fs.WithScores {
					d.Score = 1.5
				}
				if !fs.NoContent {
					d.Fields = [][2]string{{"title", "hello"}, {"n", "1"}}
				}
				fs.Docs = append(fs.Docs, d)
			}
			add("FT.SEARCH", p, EncFtSearch(fs, p, false, opt), fs)
		}
		for opt := 0; opt < 2; opt++ {
			fa := FtAgg{Total: 2, Rows: [][][2]string{{{"g", "x"}, {"n", "3"}}, {{"g", "y"}}}, WithCursor: opt == 1, Cursor: 99}
			add("FT.AGGREGATE", p, EncFtAgg(fa, p, opt), fa)
		}
		for combo := 0; combo < 8; combo++ {
			g := GeoReply{WithDist: combo&1 != 0, WithHash: combo&2 != 0, WithCoord: combo&4 != 0,
				Locs: []Geo{{Name: "Palermo"}, {Name: "Catania"}}}
			for i := range g.Locs {
				if g.WithDist {
					g.Locs[i].Dist = 190.4424 + float64(i)
				}
				if g.WithHash {
					g.Locs[i].Hash = 3479099956230698 + int64(i)
				}
				if g.WithCoord {
					g.Locs[i].Lon, g.Locs[i].Lat = 13.361389+float64(i), 38.115556+float64(i)
				}
			}
			add("GEOSEARCH", p, EncGeo(g, p), g)
		}
	}
	return out
}

// Compact renders v in one line: type byte, '?' for streamed aggregates/strings, payload.
func Compact(v resp.V) string {
	var b []byte
	var w func(v resp.V)
	w = func(v resp.V) {
		if v.Attr != nil {
			b = append(b, '|', '[')
			for i, e := range v.Attr {
				if i > 0 {
					b = append(b, ' ')
				}
				w(e)
			}
			b = append(b, ']')
		}
		if v.Null2 {
			b = append(b, v.T)
			b = append(b, "nil"...)
			return
		}
		switch v.T {
		case '*', '%', '~', '>':
			b = append(b, v.T)
			if v.Stream {
				b = append(b, '?')
			}
			b = append(b, '[')
			for i, e := range v.A {
				if i > 0 {
					b = append(b, ' ')
				}
				w(e)
			}
			b = append(b, ']')
		case ':':
			b = append(b, ':')
			b = strconv.AppendInt(b, v.I, 10)
		case '#':
			if v.I != 0 {
				b = append(b, "#t"...)
			} else {
				b = append(b, "#f"...)
			}
		case '_':
			b = append(b, '_')
		case '$':
			if v.Stream {
				b = append(b, "$?"...)
			}
			b = strconv.AppendQuote(b, v.S)
		default:
			b = append(b, v.T)
			b = strconv.AppendQuote(b, v.S)
		}
	}
	w(v)
	return string(b)
}
