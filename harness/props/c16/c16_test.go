package c16

import (
	"bufio"
	"bytes"
	"encoding/json"
	"fmt"
	"io"
	"math"
	"math/rand"
	"reflect"
	"strconv"
	"strings"
	"testing"

	"github.com/redis/rueidis"
	"verifh/drv"
	"verifh/mon"
	"verifh/props/c16/shapes"
	"verifh/resp"
)

// C16: data -> reply in the RESP2 and RESP3 shapes the server uses (shapes package, transcribed from the
// command reference) -> rueidis' decoder -> typed accessor (through RedisMessage and through RedisResult)
// -> must equal the data.

// ------------------------------------------------------------------ comparison

// same is a deep comparison in which nil and empty slices / maps are equal and NaN equals NaN.
// Types must match exactly (an int is not an int64).
func same(a, b any) bool { return deq(reflect.ValueOf(a), reflect.ValueOf(b)) }

func deq(a, b reflect.Value) bool {
	for a.IsValid() && a.Kind() == reflect.Interface {
		a = a.Elem()
	}
	for b.IsValid() && b.Kind() == reflect.Interface {
		b = b.Elem()
	}
	if !a.IsValid() || !b.IsValid() {
		return !a.IsValid() && !b.IsValid()
	}
	if a.Type() != b.Type() {
		return false
	}
	switch a.Kind() {
	case reflect.Slice, reflect.Array:
		if a.Len() != b.Len() {
			return false
		}
		for i := 0; i < a.Len(); i++ {
			if !deq(a.Index(i), b.Index(i)) {
				return false
			}
		}
		return true
	case reflect.Map:
		if a.Len() != b.Len() {
			return false
		}
		for _, k := range a.MapKeys() {
			bv := b.MapIndex(k)
			if !bv.IsValid() || !deq(a.MapIndex(k), bv) {
				return false
			}
		}
		return true
	case reflect.Struct:
		for i := 0; i < a.NumField(); i++ {
			if !deq(a.Field(i), b.Field(i)) {
				return false
			}
		}
		return true
	case reflect.Pointer:
		if a.IsNil() || b.IsNil() {
			return a.IsNil() && b.IsNil()
		}
		return deq(a.Elem(), b.Elem())
	case reflect.Float64, reflect.Float32:
		x, y := a.Float(), b.Float()
		return x == y || (math.IsNaN(x) && math.IsNaN(y))
	case reflect.String:
		return a.String() == b.String()
	case reflect.Bool:
		return a.Bool() == b.Bool()
	case reflect.Int, reflect.Int8, reflect.Int16, reflect.Int32, reflect.Int64:
		return a.Int() == b.Int()
	case reflect.Uint, reflect.Uint8, reflect.Uint16, reflect.Uint32, reflect.Uint64:
		return a.Uint() == b.Uint()
	}
	return false
}

// ------------------------------------------------------------------ plumbing

type ctx struct {
	t       *testing.T
	run     *mon.Run
	samples map[string]bool
}

func (c *ctx) decode(v resp.V) (rueidis.RedisMessage, []byte) {
	wire := resp.Encode(nil, v)
	r := bufio.NewReader(bytes.NewReader(wire))
	m, err := rueidis.VerifReadNextMessage(r)
	if err == nil {
		if _, e2 := r.ReadByte(); e2 != io.EOF {
			err = fmt.Errorf("trailing bytes")
		}
	}
	if err != nil {
		fmt.Printf("BROKEN property=C16 generated reply does not decode: %s: %v\n", shapes.Compact(v), err)
		c.t.Fatalf("generated reply does not decode: %s: %v", shapes.Compact(v), err)
	}
	return m, wire
}

func show(x any) string {
	s := fmt.Sprintf("%#v", x)
	if len(s) > 700 {
		s = s[:700] + "…"
	}
	return s
}

// expect applies one accessor through the message and through the result and compares both with want.
func expect[T any](c *ctx, helper string, proto int, accessor string, v resp.V, nontrivial bool, want T,
	viaMsg func(*rueidis.RedisMessage) (T, error), viaRes func(rueidis.RedisResult) (T, error)) {
	msg, wire := c.decode(v)
	res := rueidis.NewResult(msg, nil)
	c.run.Case(accessor+"|"+string(wire), nontrivial)
	c.run.Observe("checks_"+accessor, 1)
	if sk := fmt.Sprintf("%.9s/%d", helper, proto); nontrivial && sampled[sk] && !c.samples[sk] && len(wire) < 400 {
		c.samples[sk] = true
		c.run.Sample(map[string]any{"helper": helper, "resp": proto, "accessor": accessor, "reply": shapes.Compact(v), "expected": show(want)})
	}
	for k, via := range []string{"RedisMessage", "RedisResult"} {
		var got T
		var err error
		var pan any
		func() {
			defer func() { pan = recover() }()
			if k == 0 {
				got, err = viaMsg(&msg)
			} else {
				got, err = viaRes(res)
			}
		}()
		c.run.Observe("accessor_calls", 1)
		if pan != nil || err != nil || !same(got, want) {
			key := fmt.Sprintf("%s|%s|RESP%d|%s", accessor, helper, proto, trunc(shapes.Compact(v), 300))
			c.run.Violation("mismatch", key, map[string]any{"accessor": via + "." + accessor, "helper": helper, "resp": proto, "reply": shapes.Compact(v),
				"wire": fmt.Sprintf("%q", wire), "got": show(got), "want": show(want), "err": fmt.Sprint(err), "panic": fmt.Sprint(pan)})
		}
	}
}

// refuse checks that an accessor does not invent a value for a reply whose content has no such reading: it must return an
// error (a panic is a violation too).
func refuse[T any](c *ctx, helper, accessor string, v resp.V, viaMsg func(*rueidis.RedisMessage) (T, error)) {
	msg, wire := c.decode(v)
	c.run.Case(accessor+"|refuse|"+string(wire), true)
	c.run.Observe("checks_"+accessor+"_must_refuse", 1)
	var got T
	var err error
	var pan any
	func() {
		defer func() { pan = recover() }()
		got, err = viaMsg(&msg)
	}()
	c.run.Observe("accessor_calls", 1)
	if pan != nil || err == nil {
		key := fmt.Sprintf("%s|%s|RESP2|%s", accessor, helper, trunc(shapes.Compact(v), 300))
		c.run.Violation("value-invented", key, map[string]any{"accessor": "RedisMessage." + accessor, "helper": helper, "reply": shapes.Compact(v),
			"wire": fmt.Sprintf("%q", wire), "got": show(got), "want": "an error: the string is not a decimal integer", "panic": fmt.Sprint(pan)})
	}
}

// families written out in the evidence file (first non-trivial case of each)
var sampled = map[string]bool{"XREAD/3": true, "ZSCORES/2": true, "FT.SEARCH/2": true, "FT.SEARCH/3": true, "GEOSEARCH/3": true, "FT.AGGREG/3": true}

func trunc(s string, n int) string {
	if len(s) > n {
		return s[:n] + "…"
	}
	return s
}

// ------------------------------------------------------------------ expected values from data

func lastWins(fv [][2]string) map[string]string {
	m := map[string]string{}
	for _, p := range fv {
		m[p[0]] = p[1]
	}
	return m
}

func wantEntry(e shapes.XEntry) rueidis.XRangeEntry {
	if e.NilFV {
		return rueidis.XRangeEntry{ID: e.ID}
	}
	return rueidis.XRangeEntry{ID: e.ID, FieldValues: lastWins(e.FV)}
}

func wantSlice(e shapes.XEntry) rueidis.XRangeSlice {
	s := rueidis.XRangeSlice{ID: e.ID}
	for _, p := range e.FV {
		s.FieldValues = append(s.FieldValues, rueidis.XRangeFieldValue{Field: p[0], Value: p[1]})
	}
	return s
}

func wantEntries(es []shapes.XEntry) (a []rueidis.XRangeEntry, b []rueidis.XRangeSlice) {
	for _, e := range es {
		a = append(a, wantEntry(e))
		b = append(b, wantSlice(e))
	}
	return
}

func wantZ(ps []shapes.ZPair) []rueidis.ZScore {
	var out []rueidis.ZScore
	for _, p := range ps {
		out = append(out, rueidis.ZScore{Member: p.Member, Score: p.Score})
	}
	return out
}

// ------------------------------------------------------------------ families

func (c *ctx) streams(r *rand.Rand) {
	for _, p := range []int{shapes.R2, shapes.R3} {
		e := shapes.GenXEntry(r)
		v := shapes.EncXEntry(e, p)
		expect(c, "XRANGE-ENTRY", p, "AsXRangeEntry", v, true, wantEntry(e), (*rueidis.RedisMessage).AsXRangeEntry, rueidis.RedisResult.AsXRangeEntry)
		expect(c, "XRANGE-ENTRY", p, "AsXRangeSlice", v, true, wantSlice(e), (*rueidis.RedisMessage).AsXRangeSlice, rueidis.RedisResult.AsXRangeSlice)

		es := shapes.GenXEntries(r, 4)
		v = shapes.EncXRange(es, p)
		we, ws := wantEntries(es)
		expect(c, "XRANGE", p, "AsXRange", v, len(es) > 0, we, (*rueidis.RedisMessage).AsXRange, rueidis.RedisResult.AsXRange)
		expect(c, "XRANGE", p, "AsXRangeSlices", v, len(es) > 0, ws, (*rueidis.RedisMessage).AsXRangeSlices, rueidis.RedisResult.AsXRangeSlices)

		ss := shapes.GenXRead(r)
		v = shapes.EncXRead(ss, p)
		wm, wsm := map[string][]rueidis.XRangeEntry{}, map[string][]rueidis.XRangeSlice{}
		for _, s := range ss {
			wm[s.Key], wsm[s.Key] = wantEntries(s.Entries)
		}
		expect(c, "XREAD", p, "AsXRead", v, true, wm, (*rueidis.RedisMessage).AsXRead, rueidis.RedisResult.AsXRead)
		expect(c, "XREAD", p, "AsXReadSlices", v, true, wsm, (*rueidis.RedisMessage).AsXReadSlices, rueidis.RedisResult.AsXReadSlices)
	}
}

func (c *ctx) zsets(r *rand.Rand) {
	long := r.Intn(2) == 0
	for _, p := range []int{shapes.R2, shapes.R3} {
		zp := shapes.ZPair{Member: shapes.Str(r), Score: shapes.Float(r)}
		expect(c, "ZPOP1", p, "AsZScore", shapes.EncZPop1(zp, p, long), true, rueidis.ZScore{Member: zp.Member, Score: zp.Score}, (*rueidis.RedisMessage).AsZScore, rueidis.RedisResult.AsZScore)
		ps := shapes.GenZPairs(r, 5)
		expect(c, "ZSCORES", p, "AsZScores", shapes.EncZScores(ps, p, long), len(ps) > 0, wantZ(ps), (*rueidis.RedisMessage).AsZScores, rueidis.RedisResult.AsZScores)
		zm := shapes.ZMPop{Key: shapes.Str(r), Vals: shapes.GenZPairs(r, 4)}
		if len(zm.Vals) == 0 { // ZMPOP never reports an empty pop (it answers null instead)
			zm.Vals = []shapes.ZPair{zp}
		}
		expect(c, "ZMPOP", p, "AsZMPop", shapes.EncZMPop(zm, p, long), true, rueidis.KeyZScores{Key: zm.Key, Values: wantZ(zm.Vals)}, (*rueidis.RedisMessage).AsZMPop, rueidis.RedisResult.AsZMPop)
	}
}

func (c *ctx) scanPop(r *rand.Rand) {
	sc := shapes.GenScan(r)
	expect(c, "SCAN", 2, "AsScanEntry", shapes.EncScan(sc), true, rueidis.ScanEntry{Cursor: sc.Cursor, Elements: sc.Elems}, (*rueidis.RedisMessage).AsScanEntry, rueidis.RedisResult.AsScanEntry)
	lm := shapes.LMPop{Key: shapes.Str(r), Vals: append([]string{shapes.Str(r)}, shapes.GenStrs(r, 4)...)}
	expect(c, "LMPOP", 2, "AsLMPop", shapes.EncLMPop(lm), true, rueidis.KeyValues{Key: lm.Key, Values: lm.Vals}, (*rueidis.RedisMessage).AsLMPop, rueidis.RedisResult.AsLMPop)
}

type ftSearchOut struct {
	Total int64
	Docs  []rueidis.FtSearchDoc
}
type ftAggOut struct {
	Cursor, Total int64
	Docs          []map[string]string
}

func (c *ctx) search(r *rand.Rand) {
	long := r.Intn(2) == 0
	variant := r.Intn(4)
	fs := shapes.GenFtSearch(r)
	want := ftSearchOut{Total: fs.Total}
	for _, d := range fs.Docs {
		w := rueidis.FtSearchDoc{Key: d.Key, Score: d.Score}
		if !fs.NoContent {
			w.Doc = lastWins(d.Fields)
		}
		want.Docs = append(want.Docs, w)
	}
	fa := shapes.GenFtAgg(r)
	wantA := ftAggOut{Total: fa.Total, Cursor: fa.Cursor}
	for _, row := range fa.Rows {
		wantA.Docs = append(wantA.Docs, lastWins(row))
	}
	for _, p := range []int{shapes.R2, shapes.R3} {
		expect(c, "FT.SEARCH", p, "AsFtSearch", shapes.EncFtSearch(fs, p, long, variant), len(fs.Docs) > 0, want,
			func(m *rueidis.RedisMessage) (ftSearchOut, error) {
				t, d, err := m.AsFtSearch()
				return ftSearchOut{t, d}, err
			},
			func(m rueidis.RedisResult) (ftSearchOut, error) {
				t, d, err := m.AsFtSearch()
				return ftSearchOut{t, d}, err
			})
		v := shapes.EncFtAgg(fa, p, variant)
		expect(c, "FT.AGGREGATE", p, "AsFtAggregateCursor", v, len(fa.Rows) > 0, wantA,
			func(m *rueidis.RedisMessage) (ftAggOut, error) {
				cu, t, d, err := m.AsFtAggregateCursor()
				return ftAggOut{cu, t, d}, err
			},
			func(m rueidis.RedisResult) (ftAggOut, error) {
				cu, t, d, err := m.AsFtAggregateCursor()
				return ftAggOut{cu, t, d}, err
			})
		if !fa.WithCursor {
			expect(c, "FT.AGGREGATE", p, "AsFtAggregate", v, len(fa.Rows) > 0, wantA,
				func(m *rueidis.RedisMessage) (ftAggOut, error) {
					t, d, err := m.AsFtAggregate()
					return ftAggOut{0, t, d}, err
				},
				func(m rueidis.RedisResult) (ftAggOut, error) {
					t, d, err := m.AsFtAggregate()
					return ftAggOut{0, t, d}, err
				})
		}
	}
}

func (c *ctx) geo(r *rand.Rand, combo int) {
	g := shapes.GenGeo(r, combo)
	var want []rueidis.GeoLocation
	for _, l := range g.Locs {
		want = append(want, rueidis.GeoLocation{Name: l.Name, Longitude: l.Lon, Latitude: l.Lat, Dist: l.Dist, GeoHash: l.Hash})
	}
	for _, p := range []int{shapes.R2, shapes.R3} {
		expect(c, fmt.Sprintf("GEOSEARCH/dist=%v,hash=%v,coord=%v", g.WithDist, g.WithHash, g.WithCoord), p, "AsGeosearch", shapes.EncGeo(g, p), len(g.Locs) > 0, want,
			(*rueidis.RedisMessage).AsGeosearch, rueidis.RedisResult.AsGeosearch)
	}
}

var intEdges = []int64{0, 1, -1, 9, 10, 127, 255, 1 << 31, -(1 << 31), math.MaxInt64, math.MinInt64, 42}

func (c *ctx) scalars(r *rand.Rand) {
	// integers: RESP ':' and decimal strings (INCR / GET of a counter / HGET)
	x := intEdges[r.Intn(len(intEdges))]
	if r.Intn(2) == 0 {
		x = r.Int63() >> uint(r.Intn(63))
		if r.Intn(2) == 0 {
			x = -x
		}
	}
	dec := strconv.FormatInt(x, 10)
	expect(c, "INT", 2, "AsInt64", resp.Int(x), true, x, (*rueidis.RedisMessage).AsInt64, rueidis.RedisResult.AsInt64)
	expect(c, "INT", 2, "ToInt64", resp.Int(x), true, x, (*rueidis.RedisMessage).ToInt64, rueidis.RedisResult.ToInt64)
	expect(c, "INT", 2, "AsBool", resp.Int(x), true, x != 0, (*rueidis.RedisMessage).AsBool, rueidis.RedisResult.AsBool)
	expect(c, "INT", 2, "ToAny", resp.Int(x), true, any(x), (*rueidis.RedisMessage).ToAny, rueidis.RedisResult.ToAny)
	for _, v := range []resp.V{resp.Bulk(dec), resp.Simple(dec)} {
		expect(c, "INT-STRING", 2, "AsInt64", v, true, x, (*rueidis.RedisMessage).AsInt64, rueidis.RedisResult.AsInt64)
		expect(c, "INT-STRING", 2, "ToString", v, true, dec, (*rueidis.RedisMessage).ToString, rueidis.RedisResult.ToString)
	}
	if x >= 0 {
		expect(c, "INT", 2, "AsUint64", resp.Int(x), true, uint64(x), (*rueidis.RedisMessage).AsUint64, rueidis.RedisResult.AsUint64)
	}
	// decimal strings another client may have stored in a non-canonical form: leading zeros, explicit plus sign.
	// Their content is still the decimal number (never an octal / hexadecimal / binary reading of it).
	if x > math.MinInt64 {
		abs, sign := x, ""
		if x < 0 {
			abs, sign = -x, "-"
		}
		digits := strconv.FormatInt(abs, 10)
		forms := []string{sign + "0" + digits, sign + "00" + digits, sign + "000000000000000000000" + digits}
		if x >= 0 {
			forms = append(forms, "+"+digits, "+0"+digits)
		}
		nc := forms[r.Intn(len(forms))]
		expect(c, "INT-STRING-NONCANONICAL", 2, "AsInt64", resp.Bulk(nc), true, x, (*rueidis.RedisMessage).AsInt64, rueidis.RedisResult.AsInt64)
		if x >= 0 && nc[0] != '+' {
			expect(c, "INT-STRING-NONCANONICAL", 2, "AsUint64", resp.Bulk(nc), true, uint64(x), (*rueidis.RedisMessage).AsUint64, rueidis.RedisResult.AsUint64)
		}
	}
	// strings that are not decimal integers must not be given an integer reading (0x.., 0b.., 0o.., digit separators)
	notDec := []string{"0x1f", "0X1F", "0b101", "0o17", "1_000", "0x", "1e3", "0x7fffffffffffffff", "-0x10", "١٢٣", "12 ", " 12", "1.0", ""}
	nd := notDec[r.Intn(len(notDec))]
	refuse(c, "NOT-A-DECIMAL-STRING", "AsInt64", resp.Bulk(nd), (*rueidis.RedisMessage).AsInt64)
	refuse(c, "NOT-A-DECIMAL-STRING", "AsUint64", resp.Bulk(nd), (*rueidis.RedisMessage).AsUint64)
	u := r.Uint64()
	if r.Intn(4) == 0 {
		u = []uint64{0, math.MaxUint64, 1 << 63, 1<<63 - 1}[r.Intn(4)]
	}
	expect(c, "INT-STRING", 2, "AsUint64", resp.Bulk(strconv.FormatUint(u, 10)), true, u, (*rueidis.RedisMessage).AsUint64, rueidis.RedisResult.AsUint64)

	// doubles: RESP3 ',' and RESP2 bulk strings (ZSCORE, INCRBYFLOAT, GEODIST)
	f := shapes.Float(r)
	text := shapes.FloatText(f, r.Intn(2) == 0)
	if r.Intn(12) == 0 {
		f, text = math.NaN(), []string{"nan", "-nan"}[r.Intn(2)]
	}
	expect(c, "DOUBLE", 3, "AsFloat64", resp.Double(text), true, f, (*rueidis.RedisMessage).AsFloat64, rueidis.RedisResult.AsFloat64)
	expect(c, "DOUBLE", 3, "ToFloat64", resp.Double(text), true, f, (*rueidis.RedisMessage).ToFloat64, rueidis.RedisResult.ToFloat64)
	expect(c, "DOUBLE", 3, "ToAny", resp.Double(text), true, any(f), (*rueidis.RedisMessage).ToAny, rueidis.RedisResult.ToAny)
	expect(c, "DOUBLE", 2, "AsFloat64", resp.Bulk(text), true, f, (*rueidis.RedisMessage).AsFloat64, rueidis.RedisResult.AsFloat64)

	// booleans: RESP3 '#', RESP2 integers 0/1, the status reply OK
	b := r.Intn(2) == 0
	expect(c, "BOOL", 3, "ToBool", resp.Bool(b), true, b, (*rueidis.RedisMessage).ToBool, rueidis.RedisResult.ToBool)
	expect(c, "BOOL", 3, "AsBool", resp.Bool(b), true, b, (*rueidis.RedisMessage).AsBool, rueidis.RedisResult.AsBool)
	expect(c, "BOOL", 3, "ToAny", resp.Bool(b), true, any(b), (*rueidis.RedisMessage).ToAny, rueidis.RedisResult.ToAny)
	for _, v := range []resp.V{resp.Simple("OK"), resp.Bulk("OK")} {
		expect(c, "STATUS", 2, "AsBool", v, true, true, (*rueidis.RedisMessage).AsBool, rueidis.RedisResult.AsBool)
	}

	// strings: bulk (also streamed in chunks), simple
	s := resp.GenBytes(r, r.Intn(20) == 0)
	vs := []resp.V{resp.Bulk(s)}
	if len(s) > 0 {
		st := resp.Bulk(s)
		st.Stream = true
		for rem := len(s); rem > 0 && len(st.Chunks) < 10; {
			n := 1 + r.Intn(rem)
			st.Chunks = append(st.Chunks, n)
			rem -= n
		}
		vs = append(vs, st)
	}
	if !strings.ContainsAny(s, "\r\n") {
		vs = append(vs, resp.Simple(s))
	}
	for _, v := range vs {
		expect(c, "STRING", 2, "ToString", v, true, s, (*rueidis.RedisMessage).ToString, rueidis.RedisResult.ToString)
		expect(c, "STRING", 2, "AsBytes", v, true, []byte(s), (*rueidis.RedisMessage).AsBytes, rueidis.RedisResult.AsBytes)
		expect(c, "STRING", 2, "ToAny", v, true, any(s), (*rueidis.RedisMessage).ToAny, rueidis.RedisResult.ToAny)
		expect(c, "STRING", 2, "AsReader", v, true, s,
			func(m *rueidis.RedisMessage) (string, error) { return readAll(m.AsReader()) },
			func(m rueidis.RedisResult) (string, error) { return readAll(m.AsReader()) })
	}
}

func readAll(rd io.Reader, err error) (string, error) {
	if err != nil {
		return "", err
	}
	b, err := io.ReadAll(rd)
	return string(b), err
}

func (c *ctx) slices(r *rand.Rand) {
	// strings: LRANGE / KEYS (array), SMEMBERS (RESP3 set)
	ss := shapes.GenStrs(r, 6)
	for _, v := range []resp.V{resp.Strs(ss...), {T: '~', A: resp.Strs(ss...).A}} {
		expect(c, "STRINGS", 2+int(v.T)/'~', "AsStrSlice", v, len(ss) > 0, ss, (*rueidis.RedisMessage).AsStrSlice, rueidis.RedisResult.AsStrSlice)
	}
	// integers: SMISMEMBER / SCRIPT EXISTS / BITFIELD (':' or null), LPOS COUNT; decimal strings (MGET of counters)
	n := r.Intn(6)
	ints := make([]int64, n)
	for proto := 2; proto <= 3; proto++ {
		v := resp.V{T: '*', A: make([]resp.V, n)}
		for i := range ints {
			ints[i] = intEdges[r.Intn(len(intEdges))]
			switch r.Intn(5) {
			case 0:
				ints[i] = 0 // documented: a null element is presented as zero
				v.A[i] = shapes.Null(proto, false)
			case 1:
				v.A[i] = resp.Bulk(strconv.FormatInt(ints[i], 10))
			default:
				v.A[i] = resp.Int(ints[i])
			}
		}
		expect(c, "INTS", proto, "AsIntSlice", v, n > 0, append([]int64{}, ints...), (*rueidis.RedisMessage).AsIntSlice, rueidis.RedisResult.AsIntSlice)
	}
	// doubles: ZMSCORE (RESP2 bulk strings or null, RESP3 doubles or null)
	fl := make([]float64, r.Intn(6))
	for proto := 2; proto <= 3; proto++ {
		v := resp.V{T: '*', A: make([]resp.V, len(fl))}
		for i := range fl {
			if r.Intn(5) == 0 {
				fl[i] = 0 // null is presented as zero
				v.A[i] = shapes.Null(proto, false)
			} else {
				fl[i] = shapes.Float(r)
				v.A[i] = shapes.Score(fl[i], proto, r.Intn(2) == 0)
			}
		}
		expect(c, "DOUBLES", proto, "AsFloatSlice", v, len(fl) > 0, append([]float64{}, fl...), (*rueidis.RedisMessage).AsFloatSlice, rueidis.RedisResult.AsFloatSlice)
	}
	// booleans: SMISMEMBER / SCRIPT EXISTS (integers 0/1 in both versions), RESP3 booleans
	bs := make([]bool, r.Intn(6))
	for kind := 0; kind < 2; kind++ {
		v := resp.V{T: '*', A: make([]resp.V, len(bs))}
		for i := range bs {
			bs[i] = r.Intn(2) == 0
			if kind == 0 {
				v.A[i] = resp.Int(map[bool]int64{true: 1}[bs[i]])
			} else {
				v.A[i] = resp.Bool(bs[i])
			}
		}
		expect(c, "BOOLS", 2+kind, "AsBoolSlice", v, len(bs) > 0, append([]bool{}, bs...), (*rueidis.RedisMessage).AsBoolSlice, rueidis.RedisResult.AsBoolSlice)
	}
	// ToArray keeps every element, in order, whatever it is
	o := resp.GenOpts{MaxDepth: 2, MaxWidth: 4, Streams: true, RESP2: r.Intn(2) == 0}
	arr := resp.V{T: "*~"[r.Intn(2)], A: make([]resp.V, r.Intn(6))}
	want := make([]rueidis.VerifNode, len(arr.A))
	for i := range arr.A {
		arr.A[i] = resp.Gen(r, o)
		want[i] = drv.ExpectNode(arr.A[i])
	}
	dump := func(ms []rueidis.RedisMessage, err error) ([]rueidis.VerifNode, error) {
		out := make([]rueidis.VerifNode, len(ms))
		for i, m := range ms {
			out[i] = rueidis.VerifDump(m)
		}
		return out, err
	}
	expect(c, "ARRAY", 3, "ToArray", arr, len(arr.A) > 0, want,
		func(m *rueidis.RedisMessage) ([]rueidis.VerifNode, error) { return dump(m.ToArray()) },
		func(m rueidis.RedisResult) ([]rueidis.VerifNode, error) { return dump(m.ToArray()) })
}

func (c *ctx) maps(r *rand.Rand) {
	// HGETALL / CONFIG GET / XINFO: RESP2 flat array, RESP3 map; a repeated field keeps its last value
	fv := shapes.FieldValues(r, r.Intn(6), r.Intn(2) == 0)
	flat := resp.V{T: '*', A: []resp.V{}}
	for _, p := range fv {
		flat.A = append(flat.A, resp.Bulk(p[0]), resp.Bulk(p[1]))
	}
	m3 := flat
	m3.T = '%'
	wantNodes := map[string]rueidis.VerifNode{}
	for _, p := range fv {
		wantNodes[p[0]] = drv.ExpectNode(resp.Bulk(p[1]))
	}
	dump := func(ms map[string]rueidis.RedisMessage, err error) (map[string]rueidis.VerifNode, error) {
		out := map[string]rueidis.VerifNode{}
		for k, m := range ms {
			out[k] = rueidis.VerifDump(m)
		}
		return out, err
	}
	for i, v := range []resp.V{flat, m3} {
		expect(c, "HASH", 2+i, "AsStrMap", v, len(fv) > 0, lastWins(fv), (*rueidis.RedisMessage).AsStrMap, rueidis.RedisResult.AsStrMap)
		expect(c, "HASH", 2+i, "AsMap", v, len(fv) > 0, wantNodes,
			func(m *rueidis.RedisMessage) (map[string]rueidis.VerifNode, error) { return dump(m.AsMap()) },
			func(m rueidis.RedisResult) (map[string]rueidis.VerifNode, error) { return dump(m.AsMap()) })
	}
	expect(c, "HASH", 3, "ToMap", m3, len(fv) > 0, wantNodes,
		func(m *rueidis.RedisMessage) (map[string]rueidis.VerifNode, error) { return dump(m.ToMap()) },
		func(m rueidis.RedisResult) (map[string]rueidis.VerifNode, error) { return dump(m.ToMap()) })
	// a map whose values are arbitrary replies (AsMap / ToMap keep them untouched)
	keys := shapes.Distinct(r, r.Intn(4), shapes.Str)
	mixed := resp.V{T: '%', A: []resp.V{}}
	wantMixed := map[string]rueidis.VerifNode{}
	for _, k := range keys {
		val := resp.Gen(r, resp.GenOpts{MaxDepth: 2, MaxWidth: 3})
		mixed.A = append(mixed.A, resp.Bulk(k), val)
		wantMixed[k] = drv.ExpectNode(val)
	}
	expect(c, "MAP", 3, "ToMap", mixed, len(keys) > 0, wantMixed,
		func(m *rueidis.RedisMessage) (map[string]rueidis.VerifNode, error) { return dump(m.ToMap()) },
		func(m rueidis.RedisResult) (map[string]rueidis.VerifNode, error) { return dump(m.ToMap()) })

	// PUBSUB NUMSUB (flat array of channel, integer), HGETALL of counters (decimal strings), RESP3 map forms
	names := shapes.FieldValues(r, r.Intn(6), r.Intn(2) == 0)
	wantInts := map[string]int64{}
	iflat := resp.V{T: '*', A: []resp.V{}}
	for _, p := range names {
		x := intEdges[r.Intn(len(intEdges))]
		wantInts[p[0]] = x
		if r.Intn(2) == 0 {
			iflat.A = append(iflat.A, resp.Bulk(p[0]), resp.Int(x))
		} else {
			iflat.A = append(iflat.A, resp.Bulk(p[0]), resp.Bulk(strconv.FormatInt(x, 10)))
		}
	}
	imap := iflat
	imap.T = '%'
	for i, v := range []resp.V{iflat, imap} {
		expect(c, "INTMAP", 2+i, "AsIntMap", v, len(names) > 0, wantInts, (*rueidis.RedisMessage).AsIntMap, rueidis.RedisResult.AsIntMap)
	}
}

// genAny builds a reply tree together with the Go value ToAny must produce for it.
func genAny(r *rand.Rand, proto, depth int, top bool) (resp.V, any) {
	if depth > 0 && (top || r.Intn(3) == 0) {
		n := r.Intn(4)
		kind := r.Intn(3)
		if proto == shapes.R2 {
			kind = 0
		}
		switch kind {
		case 2: // map with string keys; a repeated key keeps its last value
			v := resp.V{T: '%', A: []resp.V{}}
			want := map[string]any{}
			for _, p := range shapes.FieldValues(r, n, r.Intn(3) == 0) {
				cv, cw := genAny(r, proto, depth-1, false)
				v.A = append(v.A, resp.Bulk(p[0]), cv)
				want[p[0]] = cw
			}
			return v, want
		default:
			v := resp.V{T: '*', A: []resp.V{}}
			if kind == 1 {
				v.T = '~'
			}
			want := []any{}
			for i := 0; i < n; i++ {
				cv, cw := genAny(r, proto, depth-1, false)
				v.A = append(v.A, cv)
				want = append(want, cw)
			}
			return v, want
		}
	}
	k := r.Intn(8)
	if proto == shapes.R2 {
		k = r.Intn(4)
	}
	switch k {
	case 0:
		s := shapes.Str(r)
		return resp.Bulk(s), s
	case 1:
		s := strings.NewReplacer("\r", "_", "\n", "_").Replace(shapes.Str(r))
		return resp.Simple(s), s
	case 2:
		x := intEdges[r.Intn(len(intEdges))]
		return resp.Int(x), x
	case 3:
		if top {
			return resp.Int(3), int64(3)
		}
		return shapes.Null(proto, r.Intn(2) == 0), nil
	case 4:
		f := shapes.Float(r)
		return resp.Double(shapes.FloatText(f, r.Intn(2) == 0)), f
	case 5:
		b := r.Intn(2) == 0
		return resp.Bool(b), b
	case 6:
		s := strconv.FormatUint(r.Uint64(), 10) + strconv.FormatUint(r.Uint64(), 10)
		return resp.V{T: '(', S: s}, s
	default:
		return resp.Null(), nil
	}
}

type jdoc struct {
	A int                `json:"a"`
	B string             `json:"b"`
	C []float64          `json:"c,omitempty"`
	D map[string]bool    `json:"d,omitempty"`
	E *struct{ X int64 } `json:"e,omitempty"`
}

func (c *ctx) jsonSlices(r *rand.Rand) {
	// MGET / JSON.MGET: array of bulk strings, null for a missing key (the zero value stays in place)
	n := r.Intn(6)
	for proto := 2; proto <= 3; proto++ {
		v := resp.V{T: '*', A: make([]resp.V, n)}
		want := make([]jdoc, n)
		for i := 0; i < n; i++ {
			if r.Intn(4) == 0 {
				v.A[i] = shapes.Null(proto, false)
				continue
			}
			d := jdoc{A: r.Intn(2000) - 1000, B: strings.ToValidUTF8(shapes.Str(r), "?")}
			for k := r.Intn(3); k > 0; k-- {
				d.C = append(d.C, shapes.Finite(r))
			}
			if r.Intn(3) == 0 {
				d.D = map[string]bool{"x": r.Intn(2) == 0}
			}
			if r.Intn(3) == 0 {
				d.E = &struct{ X int64 }{X: intEdges[r.Intn(len(intEdges))]}
			}
			b, err := json.Marshal(d)
			if err != nil {
				c.t.Fatalf("json.Marshal: %v", err)
			}
			v.A[i] = resp.Bulk(string(b))
			want[i] = d
		}
		msg, wire := c.decode(v)
		c.run.Case("DecodeSliceOfJSON|"+string(wire), n > 0)
		c.run.Observe("checks_DecodeSliceOfJSON", 1)
		var got []jdoc
		err := rueidis.DecodeSliceOfJSON(rueidis.NewResult(msg, nil), &got)
		if err != nil || !same(got, want) {
			c.run.Violation("mismatch", fmt.Sprintf("DecodeSliceOfJSON|MGET|RESP%d|%s", proto, trunc(shapes.Compact(v), 300)),
				map[string]any{"reply": shapes.Compact(v), "got": show(got), "want": show(want), "err": fmt.Sprint(err)})
		}
		if n > 0 && v.A[0].T == '$' && !v.A[0].Null2 {
			var one jdoc
			expect(c, "JSON.GET", proto, "DecodeJSON", v.A[0], true, want[0],
				func(m *rueidis.RedisMessage) (jdoc, error) { one = jdoc{}; err := m.DecodeJSON(&one); return one, err },
				func(m rueidis.RedisResult) (jdoc, error) { one = jdoc{}; err := m.DecodeJSON(&one); return one, err })
		}
	}
}

// ------------------------------------------------------------------ the test

func TestC16(t *testing.T) {
	run := mon.Start(t, "C16", "exploration",
		"random structured data (stream entries with repeated fields and null payloads, XREAD streams, scored members incl. +-inf, SCAN cursors to 2^64-1, LMPOP/ZMPOP, FT.SEARCH with/without WITHSCORES and NOCONTENT, FT.AGGREGATE with/without cursor, "+
			"GEOSEARCH in all 8 WITHCOORD/WITHDIST/WITHHASH combinations, hashes with repeated fields, integer maps, int/float/bool/string scalars and slices incl. nulls, nested ToAny trees, JSON document arrays) "+
			"encoded in the RESP2 and the RESP3 reply shape of the command, decoded by rueidis' decoder, read through the typed accessor on RedisMessage and on RedisResult and compared with the data; "+
			"one case = (accessor, reply); distinct by accessor+wire bytes; non-trivial = the data has at least one element")
	defer run.Finish()
	run.Assume(
		"reply shapes are transcribed from the Redis / RediSearch command reference (see the comments in props/c16/shapes)",
		"FT.SEARCH RESP2 replies are only unambiguous when document ids are non-empty and not parseable as floats, and without WITHPAYLOADS/WITHSORTKEYS: the generator stays inside that domain",
		"integer texts are canonical decimals (the form Redis itself accepts as an integer); AsIntMap's base-0 parsing of texts such as 010 or 0x10 is outside the domain",
		"XREAD never reports the same key twice; FT field names and aggregate row fields are distinct; NaN scores are only used for the scalar conversions",
		"nil and empty slices / maps are considered equal; verbatim strings are excluded (the txt: prefix makes 'the content' ambiguous)")
	c := &ctx{t: t, run: run, samples: map[string]bool{}}
	rng := run.Rand("data")
	n := run.N(8000, 160000)
	for i := 0; i < n; i++ {
		c.streams(rng)
		c.zsets(rng)
		c.scanPop(rng)
		c.search(rng)
		c.geo(rng, i%8)
		c.scalars(rng)
		c.slices(rng)
		c.maps(rng)
		c.jsonSlices(rng)
		for _, p := range []int{shapes.R2, shapes.R3} {
			v, want := genAny(rng, p, 1+rng.Intn(3), true)
			expect(c, "ANY", p, "ToAny", v, true, want, (*rueidis.RedisMessage).ToAny, rueidis.RedisResult.ToAny)
		}
	}
	// the fixed canonical replies of every helper must also be covered by the generators above: check that each accessor ran
	run.Require("checks_AsXRangeEntry", "checks_AsXRange", "checks_AsXRead", "checks_AsXRangeSlice", "checks_AsXRangeSlices", "checks_AsXReadSlices", "checks_AsZScore", "checks_AsZScores",
		"checks_AsZMPop", "checks_AsLMPop", "checks_AsScanEntry", "checks_AsFtSearch", "checks_AsFtAggregate", "checks_AsFtAggregateCursor", "checks_AsGeosearch", "checks_AsInt64", "checks_AsUint64",
		"checks_AsFloat64", "checks_AsBool", "checks_ToInt64", "checks_ToFloat64", "checks_ToBool", "checks_ToString", "checks_AsBytes", "checks_AsStrSlice", "checks_AsIntSlice", "checks_AsFloatSlice",
		"checks_AsBoolSlice", "checks_AsMap", "checks_AsStrMap", "checks_AsIntMap", "checks_ToMap", "checks_ToAny", "checks_DecodeSliceOfJSON", "checks_DecodeJSON", "checks_ToArray")
}
