package c15

import (
	"bufio"
	"bytes"
	"fmt"
	"io"
	"math/rand"
	"path/filepath"
	"reflect"
	"runtime"
	"sort"
	"strconv"
	"strings"
	"testing"

	"github.com/redis/rueidis"
	"verifh/mon"
	"verifh/props/c16/shapes"
	"verifh/resp"
)

// C15: for any reply value, every RedisResult / RedisMessage accessor and every RedisError classifier
// returns a result or an error and never panics; a wrong-shaped reply yields an error, a null reply
// surfaces as Nil and an error reply as a RedisError with the reply's text.

// ------------------------------------------------------------------ reflection over the accessors

type method struct {
	name   string
	idx    int
	errOut int // index of the result of type error, -1 when there is none
	json   bool
}

var errType = reflect.TypeOf((*error)(nil)).Elem()

// enumerate lists the exported methods of t that can be called without arguments (plus DecodeJSON(any)).
func enumerate(t reflect.Type) (ms []method, skipped []string) {
	for i := 0; i < t.NumMethod(); i++ {
		m := t.Method(i)
		nin := m.Type.NumIn() - 1
		me := method{name: m.Name, idx: i, errOut: -1}
		switch {
		case nin == 0:
		case m.Name == "DecodeJSON" && nin == 1:
			me.json = true
		default:
			skipped = append(skipped, m.Name)
			continue
		}
		for o := 0; o < m.Type.NumOut(); o++ {
			if m.Type.Out(o) == errType {
				me.errOut = o
			}
		}
		ms = append(ms, me)
	}
	return
}

var (
	msgMethods, msgSkipped = enumerate(reflect.TypeOf(&rueidis.RedisMessage{}))
	resMethods, resSkipped = enumerate(reflect.TypeOf(&rueidis.RedisResult{}))
	errMethods, _          = enumerate(reflect.TypeOf(&rueidis.RedisError{}))
)

type outcome struct {
	outs     []reflect.Value
	panicked bool
	pan      string
	site     string // file:line of the innermost rueidis frame of the panic
}

// guard runs f under recover and records where inside rueidis a panic was raised.
func guard(f func()) (o outcome) {
	defer func() {
		if p := recover(); p != nil {
			o.panicked = true
			o.pan = fmt.Sprint(p)
			pcs := make([]uintptr, 64)
			n := runtime.Callers(2, pcs)
			frames := runtime.CallersFrames(pcs[:n])
			for {
				f, more := frames.Next()
				if strings.HasPrefix(f.Function, "github.com/redis/rueidis.") || strings.HasPrefix(f.Function, "github.com/redis/rueidis/") {
					o.site = filepath.Base(f.File) + ":" + strconv.Itoa(f.Line)
					break
				}
				if !more {
					break
				}
			}
		}
	}()
	f()
	return
}

func invoke(recv reflect.Value, m method) outcome {
	var outs []reflect.Value
	o := guard(func() {
		if m.json {
			var target any
			outs = recv.Method(m.idx).Call([]reflect.Value{reflect.ValueOf(&target)})
		} else {
			outs = recv.Method(m.idx).Call(nil)
		}
	})
	o.outs = outs
	return o
}

// ------------------------------------------------------------------ subjects

func decodeWire(wire []byte) (rueidis.RedisMessage, error) {
	r := bufio.NewReader(bytes.NewReader(wire))
	m, err := rueidis.VerifReadNextMessage(r)
	if err != nil {
		return m, err
	}
	if _, err := r.ReadByte(); err != io.EOF {
		return m, fmt.Errorf("trailing bytes after the first reply")
	}
	return m, nil
}

type checker struct {
	t   *testing.T
	run *mon.Run
	// shrunk panics already reported, by accessor|site|compact
	seenPanic map[string]bool
	sites     map[string]map[string]string // accessor -> site -> minimal input
	samples   int
}

const (
	topOther = iota
	topNull
	topError
)

type subject struct {
	origin  string
	v       *resp.V // nil for raw wires
	compact string
	wire    []byte
}

func (c *checker) errOf(o outcome, m method) (error, bool) {
	if m.errOut < 0 || o.panicked {
		return nil, false
	}
	ev := o.outs[m.errOut]
	if ev.IsNil() {
		return nil, true
	}
	return ev.Interface().(error), true
}

// probe reports whether accessor name (on the message or the result) panics on v at the given site.
func probe(v resp.V, onResult bool, name string, site string) bool {
	msg, err := decodeWire(resp.Encode(nil, v))
	if err != nil {
		return false
	}
	var o outcome
	if name == "DecodeSliceOfJSON" {
		o = guard(func() { var d []any; _ = rueidis.DecodeSliceOfJSON(rueidis.NewResult(msg, nil), &d) })
		return o.panicked && o.site == site
	}
	if onResult {
		res := rueidis.NewResult(msg, nil)
		rv := reflect.ValueOf(&res)
		for _, m := range resMethods {
			if m.name == name {
				o = invoke(rv, m)
			}
		}
	} else {
		rv := reflect.ValueOf(&msg)
		for _, m := range msgMethods {
			if m.name == name {
				o = invoke(rv, m)
			}
		}
	}
	return o.panicked && o.site == site
}

func (c *checker) reportPanic(s subject, recv, name string, o outcome) {
	c.run.Observe("panics", 1)
	min := s.compact
	if s.v != nil {
		budget := 3000
		mv := shrink(*s.v, func(x resp.V) bool { return probe(x, recv == "RedisResult", name, o.site) }, &budget)
		min = shapes.Compact(mv)
	}
	id := name + "|" + o.site + "|" + min
	if c.seenPanic[id] {
		return
	}
	c.seenPanic[id] = true
	if c.sites[name] == nil {
		c.sites[name] = map[string]string{}
	}
	if old, ok := c.sites[name][o.site]; !ok || len(min) < len(old) {
		c.sites[name][o.site] = min
	}
	fmt.Printf("PANIC-KEY %s|%s site=%s\n", name, min, o.site)
	c.run.Violation("panic", name+"|"+min, map[string]any{
		"accessor": name, "receiver": recv, "minimal_input": min, "original_input": trunc(s.compact, 600), "original_wire": trunc(fmt.Sprintf("%q", s.wire), 600),
		"origin": s.origin, "panic": o.pan, "site": o.site,
	})
}

func trunc(s string, n int) string {
	if len(s) > n {
		return s[:n] + "…"
	}
	return s
}

// classify calls every RedisError classifier and the package level predicates on err.
func (c *checker) classify(err error) {
	for _, f := range []func(){
		func() { rueidis.IsRedisNil(err) }, func() { rueidis.IsParseErr(err) }, func() { rueidis.IsRedisBusyGroup(err) }, func() { rueidis.IsRedisErr(err) },
	} {
		c.run.Observe("classifier_calls", 1)
		if o := guard(f); o.panicked {
			c.run.Violation("panic", "package-predicate|"+strconv.Quote(fmt.Sprint(err)), map[string]any{"panic": o.pan, "site": o.site})
		}
	}
	re, ok := err.(*rueidis.RedisError)
	if !ok || re == nil {
		return
	}
	var text string
	if o := guard(func() { text = re.Error() }); o.panicked {
		c.run.Violation("panic", "Error|?", map[string]any{"panic": o.pan, "site": o.site})
		return
	}
	rv := reflect.ValueOf(re)
	for _, m := range errMethods {
		c.run.Observe("classifier_calls", 1)
		if o := invoke(rv, m); o.panicked {
			c.run.Observe("panics", 1)
			// smallest text (deleting bytes) on which the same classifier raises the same panic at the same site
			mt := text
			for changed := true; changed; {
				changed = false
				for i := 0; i < len(mt); i++ {
					cand := mt[:i] + mt[i+1:]
					cm, err := decodeWire(resp.Encode(nil, resp.V{T: '!', S: cand}))
					if err != nil {
						continue
					}
					ce, _ := (&cm).Error().(*rueidis.RedisError)
					if ce == nil {
						continue
					}
					if o2 := invoke(reflect.ValueOf(ce), m); o2.panicked && o2.site == o.site && o2.pan == o.pan {
						mt, changed = cand, true
						break
					}
				}
			}
			min := strconv.Quote(mt)
			if c.sites[m.name] == nil {
				c.sites[m.name] = map[string]string{}
			}
			if old, ok := c.sites[m.name][o.site]; !ok || len(min) < len(old) {
				c.sites[m.name][o.site] = min
			}
			c.run.Violation("panic", m.name+"|"+min, map[string]any{"accessor": "(*RedisError)." + m.name, "error_text": text, "panic": o.pan, "site": o.site})
		}
	}
}

// check applies every accessor to one reply.
func (c *checker) check(s subject) (msg rueidis.RedisMessage, ok bool) {
	msg, err := decodeWire(s.wire)
	if err != nil {
		// the generators only emit well-formed replies (faithful decoding of those is C12's subject)
		fmt.Printf("BROKEN property=C15 generator produced a reply the decoder rejects: %s: %v\n", s.compact, err)
		c.t.Fatalf("undecodable generated reply %s: %v", s.compact, err)
	}
	top, want := topOther, ""
	d := rueidis.VerifDump(msg)
	switch d.Typ {
	case '_':
		top = topNull
	case '-', '!':
		top = topError
		want = strings.TrimPrefix(d.Str, "ERR ")
	}
	nontrivial := top != topOther || d.Values != nil || d.Attrs != nil
	c.run.Case(string(s.wire), nontrivial)
	c.run.Observe("inputs_"+s.origin, 1)
	res := rueidis.NewResult(msg, nil)
	seenErr := map[string]bool{}
	var sample map[string]string
	if c.samples < 5 && nontrivial && len(s.wire) < 200 && (c.samples < 2 || top != topOther) {
		sample = map[string]string{}
	}
	for _, recv := range []struct {
		kind string
		rv   reflect.Value
		ms   []method
	}{{"RedisMessage", reflect.ValueOf(&msg), msgMethods}, {"RedisResult", reflect.ValueOf(&res), resMethods}} {
		for _, m := range recv.ms {
			o := invoke(recv.rv, m)
			c.run.Observe("accessor_calls", 1)
			if o.panicked {
				c.reportPanic(s, recv.kind, m.name, o)
				if sample != nil {
					sample[recv.kind+"."+m.name] = "PANIC " + o.pan
				}
				continue
			}
			e, has := c.errOf(o, m)
			if !has {
				continue
			}
			if sample != nil && recv.kind == "RedisMessage" {
				sample[m.name] = fmt.Sprint(e)
			}
			if e != nil {
				if k := fmt.Sprintf("%T|%v", e, e); !seenErr[k] {
					seenErr[k] = true
					c.classify(e)
				}
			}
			if m.name == "NonRedisError" { // by definition not about the reply
				continue
			}
			switch top {
			case topNull:
				c.run.Observe("nil_checks", 1)
				if !rueidis.IsRedisNil(e) {
					c.run.Violation("nil-not-propagated", m.name+"|"+s.compact, map[string]any{"accessor": recv.kind + "." + m.name, "input": s.compact, "err": fmt.Sprint(e)})
				}
			case topError:
				c.run.Observe("error_checks", 1)
				re, isRedis := rueidis.IsRedisErr(e)
				if !isRedis || re.Error() != want {
					c.run.Violation("error-not-propagated", m.name+"|"+s.compact, map[string]any{"accessor": recv.kind + "." + m.name, "input": s.compact, "err": fmt.Sprint(e), "want_text": want})
				}
			}
		}
	}
	// DecodeSliceOfJSON (generic package function)
	for k := 0; k < 2; k++ {
		var e error
		o := guard(func() {
			if k == 0 {
				var d []any
				e = rueidis.DecodeSliceOfJSON(res, &d)
			} else {
				var d []int
				e = rueidis.DecodeSliceOfJSON(res, &d)
			}
		})
		c.run.Observe("accessor_calls", 1)
		if o.panicked {
			c.reportPanic(s, "RedisResult", "DecodeSliceOfJSON", o)
			continue
		}
		switch top {
		case topNull:
			c.run.Observe("nil_checks", 1)
			if !rueidis.IsRedisNil(e) {
				c.run.Violation("nil-not-propagated", "DecodeSliceOfJSON|"+s.compact, map[string]any{"input": s.compact, "err": fmt.Sprint(e)})
			}
		case topError:
			c.run.Observe("error_checks", 1)
			re, isRedis := rueidis.IsRedisErr(e)
			if !isRedis || re.Error() != want {
				c.run.Violation("error-not-propagated", "DecodeSliceOfJSON|"+s.compact, map[string]any{"input": s.compact, "err": fmt.Sprint(e), "want_text": want})
			}
		}
	}
	c.classify(nil)
	if sample != nil {
		c.samples++
		c.run.Sample(map[string]any{"input": s.compact, "origin": s.origin, "errors_by_accessor": sample})
	}
	return msg, true
}

// ------------------------------------------------------------------ shrinking

func cloneWith(v resp.V, i int, c resp.V) resp.V {
	n := v
	n.A = append([]resp.V{}, v.A...)
	n.A[i] = c
	return n
}

func isAgg(v resp.V) bool {
	return !v.Null2 && (v.T == '*' || v.T == '%' || v.T == '~' || v.T == '>')
}

func fixMap(v *resp.V) {
	if v.T == '%' && len(v.A)%2 == 1 {
		v.Stream = true
	}
}

// variants lists the single-step simplifications of v (at any depth).
func variants(v resp.V) []resp.V {
	var out []resp.V
	if v.Attr != nil {
		c := v
		c.Attr = nil
		out = append(out, c)
	}
	if isAgg(v) {
		for _, ch := range v.A { // replace the node by one of its elements
			out = append(out, ch)
		}
		for i := range v.A { // remove one element
			c := v
			c.A = append(append([]resp.V{}, v.A[:i]...), v.A[i+1:]...)
			if c.T == '%' && !c.Stream {
				if i%2 == 1 || i+1 >= len(v.A) {
					continue
				}
				c.A = append(append([]resp.V{}, v.A[:i]...), v.A[i+2:]...)
			}
			out = append(out, c)
		}
		for i := 0; i+1 < len(v.A); i++ { // remove two adjacent elements (keeps the parity of a streamed map)
			c := v
			c.A = append(append([]resp.V{}, v.A[:i]...), v.A[i+2:]...)
			out = append(out, c)
		}
		if v.Stream && (v.T != '%' || len(v.A)%2 == 0) {
			c := v
			c.Stream = false
			out = append(out, c)
		}
		if v.T == '~' || v.T == '>' {
			c := v
			c.T = '*'
			out = append(out, c)
		}
		for i, ch := range v.A {
			for _, cv := range variants(ch) {
				out = append(out, cloneWith(v, i, cv))
			}
		}
		return append(out, canonScalars...)
	}
	// scalars: replace by a canonical scalar of lower rank
	for _, cs := range canonScalars[:scalarRank(v)] {
		out = append(out, cs)
	}
	return out
}

// canonical scalars in order of simplicity; everything else ranks after them
var canonScalars = []resp.V{resp.Bulk(""), resp.Bulk("a"), resp.Bulk("1.5"), resp.Int(0), resp.Null()}

func scalarRank(v resp.V) int {
	for i, cs := range canonScalars {
		if v.T == cs.T && v.S == cs.S && v.I == cs.I && !v.Stream && !v.Null2 && v.Attr == nil {
			return i
		}
	}
	return len(canonScalars)
}

func shrink(v resp.V, still func(resp.V) bool, budget *int) resp.V {
	for changed := true; changed; {
		changed = false
		for _, c := range variants(v) {
			if *budget <= 0 {
				return v
			}
			*budget--
			if still(c) {
				v, changed = c, true
				break
			}
		}
	}
	return v
}

// ------------------------------------------------------------------ mutations of realistic replies

func alternates() []resp.V {
	odd := resp.V{T: '%', Stream: true, A: []resp.V{resp.Bulk("k")}}
	odd3 := resp.V{T: '%', Stream: true, A: []resp.V{resp.Bulk("k"), resp.Bulk("v"), resp.Bulk("k2")}}
	return []resp.V{resp.Int(7), resp.Bulk("x"), resp.Bulk(""), resp.Simple("OK"), resp.Null(), resp.NullBulk(), resp.NullArr(), resp.Double("1.5"), resp.Bool(true),
		resp.Arr(), resp.Arr(resp.Bulk("x")), resp.Arr(resp.Arr()), resp.Map(), resp.Map(resp.Bulk("k"), resp.Bulk("v")), odd, odd3, resp.Set(resp.Bulk("x")),
		resp.Err("ERR boom"), {T: '(', S: "123456789012345678901234567890"}, {T: '=', S: "txt:x"}}
}

// walk calls f with every node of v (not inside attributes) and a function producing a copy of the whole
// tree with that node replaced.
func walk(v resp.V, f func(n resp.V, replace func(resp.V) resp.V)) {
	var rec func(n resp.V, rebuild func(resp.V) resp.V)
	rec = func(n resp.V, rebuild func(resp.V) resp.V) {
		f(n, rebuild)
		if isAgg(n) {
			for i, ch := range n.A {
				i, n := i, n
				rec(ch, func(c resp.V) resp.V { return rebuild(cloneWith(n, i, c)) })
			}
		}
	}
	rec(v, func(c resp.V) resp.V { return c })
}

// mutationsAt lists every single mutation of node n: drop one element, empty it, truncate it, swap its type.
func mutationsAt(n resp.V) []resp.V {
	var out []resp.V
	if isAgg(n) {
		for i := range n.A {
			c := n
			c.A = append(append([]resp.V{}, n.A[:i]...), n.A[i+1:]...)
			fixMap(&c)
			out = append(out, c)
		}
		if len(n.A) > 0 {
			c := n
			c.A = []resp.V{}
			out = append(out, c)
		}
		for k := 1; k < len(n.A)-1; k++ { // k = len-1 is "drop the last", k = 0 is "empty"
			c := n
			c.A = append([]resp.V{}, n.A[:k]...)
			fixMap(&c)
			out = append(out, c)
		}
	}
	return append(out, alternates()...)
}

func allSingleMutations(v resp.V) []resp.V {
	var out []resp.V
	walk(v, func(n resp.V, replace func(resp.V) resp.V) {
		for _, m := range mutationsAt(n) {
			out = append(out, replace(m))
		}
	})
	return out
}

func randomMutation(r *rand.Rand, v resp.V) resp.V {
	type site struct {
		n       resp.V
		replace func(resp.V) resp.V
	}
	var sites []site
	walk(v, func(n resp.V, replace func(resp.V) resp.V) { sites = append(sites, site{n, replace}) })
	s := sites[r.Intn(len(sites))]
	ms := mutationsAt(s.n)
	// structural mutations and type swaps equally likely
	nalt := len(alternates())
	if nstruct := len(ms) - nalt; nstruct > 0 && r.Intn(2) == 0 {
		return s.replace(ms[r.Intn(nstruct)])
	}
	return s.replace(ms[len(ms)-nalt+r.Intn(nalt)])
}

// oddify turns some maps of the tree into streamed maps with an odd number of elements.
func oddify(r *rand.Rand, v resp.V, p int) resp.V {
	if !isAgg(v) {
		return v
	}
	n := v
	n.A = make([]resp.V, len(v.A))
	for i, ch := range v.A {
		n.A[i] = oddify(r, ch, p)
	}
	if n.T == '%' && len(n.A) > 0 && r.Intn(p) == 0 {
		i := r.Intn(len(n.A))
		n.A = append(n.A[:i:i], n.A[i+1:]...)
		n.Stream = true
	}
	return n
}

type features struct{ oddMap, emptyNested, attrs, streamed bool }

func scan(v resp.V, depth int, f *features) {
	if v.Attr != nil {
		f.attrs = true
	}
	if v.Stream {
		f.streamed = true
	}
	if isAgg(v) {
		if v.T == '%' && len(v.A)%2 == 1 {
			f.oddMap = true
		}
		if depth > 0 && len(v.A) == 0 {
			f.emptyNested = true
		}
		for _, ch := range v.A {
			scan(ch, depth+1, f)
		}
	}
}

// ------------------------------------------------------------------ error texts

func errorTexts(r *rand.Rand, n int) []string {
	texts := []string{"", " ", "MOVED", "MOVED ", "MOVED 1", "MOVED 1 ", "MOVED 1 :", "MOVED 1 host:1", "MOVED 1 host:1 extra", "MOVED  1", "MOVED\t1\thost:1", "MOVEDX", "MOVED1 2 3",
		"ASK", "ASK ", "ASK 1", "ASK 1 ", "ASK 1 :", "ASK 1 host:1", "ASKING", "ASK1",
		"REDIRECT", "REDIRECT ", "REDIRECT host:1", "REDIRECT :", "REDIRECTED",
		"MOVED 1 127.0.0.1:6379", "MOVED 1 ::1:6379", "MOVED 1 [::1]:6379", "MOVED 1 2001:db8::1:6379", "MOVED 1 fe80::1%eth0:6379", "MOVED 1 :6379", "MOVED 1 [", "MOVED 1 ]:", "MOVED 16383 ::",
		"ASK 1 ::1:6379", "ASK 1 [::1]:6379", "ASK 1 2001:db8::1:6379", "REDIRECT ::1:6379", "REDIRECT [::1]:6379", "REDIRECT 2001:db8::1:6379",
		"ERR MOVED", "ERR MOVED 1", "ERR ASK", "ERR REDIRECT", "ERR ", "ERR", "ERR ERR x", "ERR unknown command", "moved 1 host:1",
		"TRYAGAIN", "TRYAGAIN Multiple keys request during rehashing of slot", "LOADING Redis is loading the dataset in memory", "CLUSTERDOWN Hash slot not served", "CLUSTERDOWN",
		"NOSCRIPT No matching script. Please use EVAL.", "NOSCRIPT", "BUSYGROUP Consumer Group name already exists", "BUSYGROUP", "WRONGTYPE Operation against a key holding the wrong kind of value",
		"NOAUTH Authentication required.", "READONLY You can't write against a read only replica.", "redis nil message"}
	heads := []string{"MOVED", "ASK", "REDIRECT", "TRYAGAIN", "LOADING", "CLUSTERDOWN", "NOSCRIPT", "BUSYGROUP", "ERR", "ERR MOVED", "MOVE", "AS", "REDIR", "moved", ""}
	toks := []string{"", "1", "16383", "-1", "host:1", ":", "::", "::1:6379", "[::1]:6379", "127.0.0.1:6379", "[", "]", "a.b:1", "x", "99999999999999999999"}
	seps := []string{" ", " ", " ", "  ", "", "\t", ":"}
	for i := 0; i < n; i++ {
		switch r.Intn(4) {
		case 0: // arbitrary bytes without CR / LF
			b := make([]byte, r.Intn(20))
			for j := range b {
				b[j] = byte(r.Intn(256))
				if b[j] == '\r' || b[j] == '\n' {
					b[j] = ' '
				}
			}
			texts = append(texts, string(b))
		default:
			s := heads[r.Intn(len(heads))]
			for k := r.Intn(5); k > 0; k-- {
				s += seps[r.Intn(len(seps))] + toks[r.Intn(len(toks))]
			}
			texts = append(texts, s)
		}
	}
	return texts
}

// ------------------------------------------------------------------ curated wrong-type table

type wrongCase struct {
	accessors []string
	inputs    []resp.V
}

func wrongTypeTable() []wrongCase {
	I, S, A1, A0 := resp.Int(5), resp.Bulk("abc"), resp.Arr(resp.Bulk("a")), resp.Arr()
	M, B, D := resp.Map(resp.Bulk("a"), resp.Bulk("b")), resp.Bool(true), resp.Double("1.5")
	ST := resp.Set(resp.Bulk("a"))
	return []wrongCase{
		{[]string{"ToString", "AsReader", "AsBytes", "DecodeJSON"}, []resp.V{I, A1, A0, M, ST}},
		{[]string{"DecodeJSON"}, []resp.V{S, resp.Bulk("{"), resp.Bulk("")}},
		{[]string{"AsInt64", "AsUint64"}, []resp.V{S, A1, M, B, D, resp.Bulk(""), resp.Bulk("1.5"), resp.Bulk("99999999999999999999999")}},
		{[]string{"AsUint64"}, []resp.V{resp.Bulk("-1")}},
		{[]string{"AsFloat64"}, []resp.V{S, A1, M, resp.Bulk("")}},
		{[]string{"AsBool"}, []resp.V{A1, A0, M, D}},
		{[]string{"ToInt64"}, []resp.V{S, resp.Bulk("5"), A1, M, B, D}},
		{[]string{"ToBool"}, []resp.V{S, I, A1, M, D}},
		{[]string{"ToFloat64"}, []resp.V{S, resp.Bulk("1.5"), I, A1, M, B}},
		{[]string{"ToArray", "AsStrSlice", "AsIntSlice", "AsFloatSlice", "AsBoolSlice", "AsXRange", "AsXRangeSlices", "AsZScore", "AsZScores", "AsScanEntry", "AsGeosearch", "DecodeSliceOfJSON"}, []resp.V{S, I, M, B, D}},
		{[]string{"AsIntSlice", "AsFloatSlice"}, []resp.V{resp.Arr(resp.Bulk("abc"))}},
		{[]string{"DecodeSliceOfJSON"}, []resp.V{resp.Arr(resp.Bulk("{")), resp.Arr(resp.Int(1))}},
		{[]string{"AsXRangeEntry", "AsXRangeSlice"}, []resp.V{S, I, M, A0, A1, resp.Arr(resp.Int(1), resp.Arr()), resp.Arr(resp.Bulk("1-0"), resp.Bulk("x")), resp.Arr(resp.Bulk("1-0"), resp.Arr(), resp.Arr())}},
		{[]string{"AsXRangeEntry"}, []resp.V{resp.Arr(resp.Bulk("1-0"), resp.Arr(resp.Bulk("f")))}},
		{[]string{"AsXRange", "AsXRangeSlices"}, []resp.V{A1, resp.Arr(resp.Arr(resp.Bulk("1-0")))}},
		{[]string{"AsXRead", "AsXReadSlices"}, []resp.V{S, I, B, D, A1, resp.Arr(resp.Arr(resp.Bulk("k"))), resp.Arr(resp.Arr(resp.Bulk("k"), resp.Bulk("x"))), resp.Map(resp.Bulk("k"), resp.Bulk("x"))}},
		{[]string{"AsZScore"}, []resp.V{A0, A1, resp.Arr(resp.Bulk("m"), resp.Bulk("abc")), resp.Arr(resp.Bulk("m"), resp.Bulk("1"), resp.Bulk("n"))}},
		{[]string{"AsZScores"}, []resp.V{resp.Arr(resp.Bulk("m"), resp.Bulk("abc")), resp.Arr(resp.Arr(resp.Bulk("m"))), resp.Arr(resp.Arr(resp.Bulk("m"), resp.Bulk("abc")))}},
		{[]string{"AsScanEntry"}, []resp.V{A0, A1, resp.Arr(resp.Bulk("abc"), resp.Arr()), resp.Arr(resp.Bulk("0"), resp.Bulk("x"))}},
		{[]string{"AsMap", "AsStrMap", "AsIntMap"}, []resp.V{S, I, B, D, A1, resp.Arr(resp.Bulk("a"), resp.Bulk("b"), resp.Bulk("c"))}},
		{[]string{"AsIntMap"}, []resp.V{resp.Map(resp.Bulk("a"), resp.Bulk("abc"))}},
		{[]string{"AsMap", "ToMap"}, []resp.V{resp.Map(resp.Int(1), resp.Int(2))}},
		{[]string{"ToMap"}, []resp.V{S, I, B, D, A1, A0, resp.Arr(resp.Bulk("a"), resp.Bulk("b")), ST}},
		{[]string{"ToAny"}, []resp.V{resp.Push(resp.Bulk("a"))}},
		{[]string{"AsLMPop", "AsZMPop"}, []resp.V{S, I, B, A0, A1, resp.Arr(resp.Bulk("k"), resp.Bulk("x"))}},
		{[]string{"AsZMPop"}, []resp.V{resp.Arr(resp.Bulk("k"), resp.Arr(resp.Arr(resp.Bulk("m"), resp.Bulk("abc"))))}},
		{[]string{"AsFtSearch", "AsFtAggregate", "AsFtAggregateCursor"}, []resp.V{S, I, B, D, A0}},
		{[]string{"AsGeosearch"}, []resp.V{resp.Arr(resp.Arr(resp.Bulk("n"), resp.Bulk("abc"))), resp.Arr(resp.Arr(resp.Bulk("n"), resp.Arr(resp.Bulk("1"))))}},
	}
}

func (c *checker) wrongType() {
	for _, wc := range wrongTypeTable() {
		for _, in := range wc.inputs {
			wire := resp.Encode(nil, in)
			msg, err := decodeWire(wire)
			if err != nil {
				c.t.Fatalf("wrong-type table entry %s does not decode: %v", shapes.Compact(in), err)
			}
			res := rueidis.NewResult(msg, nil)
			for _, name := range wc.accessors {
				found := 0
				report := func(recv string, e error, o outcome) {
					found++
					c.run.Observe("wrongtype_checks", 1)
					c.run.Case("wrongtype|"+name+"|"+recv+"|"+string(wire), true)
					if o.panicked {
						c.reportPanic(subject{origin: "wrongtype", v: &in, compact: shapes.Compact(in), wire: wire}, recv, name, o)
						return
					}
					if e == nil {
						c.run.Violation("wrong-type-accepted", name+"|"+shapes.Compact(in), map[string]any{"accessor": recv + "." + name, "input": shapes.Compact(in), "err": nil})
					}
				}
				if name == "DecodeSliceOfJSON" {
					var e error
					o := guard(func() { var d []map[string]any; e = rueidis.DecodeSliceOfJSON(res, &d) })
					report("RedisResult", e, o)
					continue
				}
				for _, m := range msgMethods {
					if m.name == name {
						o := invoke(reflect.ValueOf(&msg), m)
						e, _ := c.errOf(o, m)
						report("RedisMessage", e, o)
					}
				}
				for _, m := range resMethods {
					if m.name == name {
						o := invoke(reflect.ValueOf(&res), m)
						e, _ := c.errOf(o, m)
						report("RedisResult", e, o)
					}
				}
				if found == 0 {
					c.t.Fatalf("wrong-type table names unknown accessor %s", name)
				}
			}
		}
	}
}

// ------------------------------------------------------------------ the test

func names(ms []method) []string {
	var s []string
	for _, m := range ms {
		s = append(s, m.name)
	}
	sort.Strings(s)
	return s
}

func TestC15(t *testing.T) {
	run := mon.Start(t, "C15", "exploration",
		"every exported zero-argument method of *RedisMessage and *RedisResult (enumerated by reflection) + DecodeJSON(&any) + DecodeSliceOfJSON + every *RedisError method + IsRedisNil/IsParseErr/IsRedisBusyGroup/IsRedisErr, "+
			"called under recover on replies decoded by the real decoder from: (a) random RESP2/RESP3 trees (attributes, streamed aggregates, streamed maps with an odd element count, empty nested arrays), "+
			"(b) every single mutation (drop an element / empty / truncate / swap the type of any node, 20 replacement values) of canonical XRANGE, XREAD, ZPOP, ZRANGE WITHSCORES, ZMPOP, SCAN, LMPOP, FT.SEARCH, FT.AGGREGATE(+cursor), GEOSEARCH(8 WITH* combinations) replies in both protocol shapes, plus 1-3 random mutations of random such replies, "+
			"(c) redirect-like and random error texts as simple and blob errors, (d) a curated (accessor, wrong-type reply) table; one case = one reply with all accessors applied, distinct by wire bytes, non-trivial = aggregate, null or error reply")
	defer run.Finish()
	run.Assume("replies are produced by rueidis' own decoder from well-formed RESP (decoder fidelity is C12)",
		"the panic site is the innermost github.com/redis/rueidis frame on the stack at recover time",
		"methods with arguments other than DecodeJSON (CacheMarshal, CacheUnmarshalView) are out of scope")
	run.Extra("message_methods", names(msgMethods))
	run.Extra("result_methods", names(resMethods))
	run.Extra("error_methods", names(errMethods))
	run.Extra("skipped_methods", append(append([]string{}, msgSkipped...), resSkipped...))
	// the enumeration must contain what the property names
	for _, need := range []string{"ToString", "ToMap", "ToAny", "AsMap", "AsStrMap", "AsXRead", "AsXReadSlices", "AsZScores", "AsLMPop", "AsZMPop", "AsFtSearch", "AsFtAggregate", "AsFtAggregateCursor", "AsGeosearch", "AsScanEntry", "DecodeJSON", "ToArray"} {
		for _, set := range [][]method{msgMethods, resMethods} {
			ok := false
			for _, m := range set {
				ok = ok || m.name == need
			}
			if !ok {
				t.Fatalf("reflection did not find accessor %s", need)
			}
		}
	}
	for _, need := range []string{"IsMoved", "IsAsk", "IsRedirect", "IsTryAgain", "IsLoading", "IsClusterDown", "IsNoScript", "IsBusyGroup", "IsNil", "Error"} {
		ok := false
		for _, m := range errMethods {
			ok = ok || m.name == need
		}
		if !ok {
			t.Fatalf("reflection did not find classifier %s", need)
		}
	}
	c := &checker{t: t, run: run, seenPanic: map[string]bool{}, sites: map[string]map[string]string{}}

	sub := func(origin string, v resp.V) subject {
		return subject{origin: origin, v: &v, compact: shapes.Compact(v), wire: resp.Encode(nil, v)}
	}
	feat := func(v resp.V) {
		var f features
		scan(v, 0, &f)
		if f.oddMap {
			run.Observe("inputs_with_odd_streamed_map", 1)
		}
		if f.emptyNested {
			run.Observe("inputs_with_empty_nested_aggregate", 1)
		}
		if f.attrs {
			run.Observe("inputs_with_attributes", 1)
		}
		if f.streamed {
			run.Observe("inputs_with_streaming", 1)
		}
	}

	// (d) curated wrong-type table
	c.wrongType()

	// nulls in every spelling, with and without attributes
	for _, v := range []resp.V{resp.Null(), resp.NullBulk(), resp.NullArr(), {T: '_', Attr: []resp.V{resp.Bulk("a"), resp.Int(1)}}, {T: '_', Attr: []resp.V{}}} {
		c.check(sub("null", v))
	}
	// raw frames the generators do not cover: a bare end marker, end markers inside fixed aggregates, a streamed attribute with an odd element count
	for _, w := range []string{".\r\n", "*2\r\n.\r\n.\r\n", "%1\r\n.\r\n.\r\n", "~?\r\n.\r\n", ">1\r\n+x\r\n", "|?\r\n+a\r\n.\r\n:1\r\n", "|?\r\n+a\r\n.\r\n%?\r\n+k\r\n.\r\n", "|1\r\n+a\r\n+b\r\n_\r\n", "|1\r\n+a\r\n+b\r\n-MOVED\r\n"} {
		c.check(subject{origin: "raw", compact: strconv.Quote(w), wire: []byte(w)})
	}

	// (c) error texts, as simple and blob errors; the classifiers are reached through the errors the accessors return
	rng := run.Rand("errtexts")
	c.classify(rueidis.Nil)
	for _, text := range errorTexts(rng, run.N(1500, 60000)) {
		c.check(sub("errtext", resp.V{T: '!', S: text}))
		if !strings.ContainsAny(text, "\r\n") {
			c.check(sub("errtext", resp.Err(text)))
		}
	}

	// (b1) every single mutation of the canonical structured replies
	for _, rep := range shapes.Canonical() {
		c.check(sub("canonical", rep.V))
		for _, m := range allSingleMutations(rep.V) {
			feat(m)
			c.check(sub("mutated1", m))
		}
	}
	// (b2) random realistic replies with 1..3 random mutations
	rng = run.Rand("mutations")
	nb := run.N(150, 6000)
	for i := 0; i < nb; i++ {
		for _, rep := range shapes.Realistic(rng) {
			v := rep.V
			for k := 1 + rng.Intn(3); k > 0; k-- {
				v = randomMutation(rng, v)
			}
			feat(v)
			c.check(sub("mutatedN", v))
		}
	}

	// (a) random trees through the real decoder
	rng = run.Rand("trees")
	na := run.N(6000, 300000)
	for i := 0; i < na; i++ {
		o := resp.GenOpts{MaxDepth: 1 + rng.Intn(5), MaxWidth: 1 + rng.Intn(6), Attrs: true, Streams: true, Push: true, RESP2: i%5 == 4}
		v := resp.Gen(rng, o)
		if i%2 == 0 {
			v = oddify(rng, v, 2)
		}
		feat(v)
		c.check(sub("random", v))
	}

	// distinct (accessor, site) pairs with their smallest input, for the report
	type row struct{ Accessor, Site, MinimalInput string }
	var rows []row
	for a, m := range c.sites {
		for s, in := range m {
			rows = append(rows, row{a, s, in})
		}
	}
	sort.Slice(rows, func(i, j int) bool {
		if rows[i].Accessor != rows[j].Accessor {
			return rows[i].Accessor < rows[j].Accessor
		}
		return rows[i].Site < rows[j].Site
	})
	run.Extra("panic_sites", rows)
	for _, r := range rows {
		fmt.Printf("PANIC-SITE accessor=%s site=%s minimal_input=%s\n", r.Accessor, r.Site, r.MinimalInput)
	}
	run.Require("accessor_calls", "classifier_calls", "nil_checks", "error_checks", "wrongtype_checks",
		"inputs_with_odd_streamed_map", "inputs_with_empty_nested_aggregate", "inputs_with_attributes", "inputs_random", "inputs_mutated1", "inputs_mutatedN", "inputs_errtext")
}
