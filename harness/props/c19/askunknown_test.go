package c19

import (
	"context"
	"fmt"
	"time"

	"github.com/redis/rueidis"
	"verifh/fakeredis"
	"verifh/mon"
	"verifh/resp"
)

// A slot is migrated towards a node that is outside the topology the client has learnt: the node joined after the
// client's last refresh, and further refreshes are held back (CLUSTER SLOTS / SHARDS keep answering the topology of
// before, slowly). The source answers ASK <new node>. Ownership has not changed, so for the command that was
// redirected AND for every later command of that slot the rules are the static ones: first reception on the slot's
// primary per the served topology, ASK followed under ASKING, final reply returned - also with MaxMovedRedirections=1,
// which a single ASK redirect does not exhaust.
func partAskUnknownNode(run *mon.Run) {
	rng := run.Rand("ask-unknown")
	nw := scale(run.N(40, 600))
	ctx := context.Background()
	for wi := 0; wi < nw; wi++ {
		m := wi % 3 // MaxMovedRedirections 0, 1, 2
		o := worldOpts{shards: 2 + rng.Intn(4), shards8: rng.Intn(2) == 0, maxMoved: m, logReplies: true, seed: run.Seed*4001 + int64(wi), disableCache: wi%5 == 4}
		w, err := newCluster(rng, o)
		if err != nil {
			run.Inconclusive("ask-unknown world: client setup failed: " + err.Error())
			continue
		}
		// freeze what CLUSTER SLOTS / SHARDS answer and make them slow: the client cannot learn the new node
		n0 := w.srv.Node(w.prims[0])
		frozen := map[string]resp.V{"SLOTS": n0.Exec("CLUSTER", "SLOTS"), "SHARDS": n0.Exec("CLUSTER", "SHARDS")}
		w.srv.Lock()
		w.srv.ClusterReply = func(_, sub string) (resp.V, bool) { v, ok := frozen[sub]; return v, ok }
		w.srv.Unlock()
		w.srv.Plan(&fakeredis.Rule{Name: "slow-topology", Match: fakeredis.MatchCmd("CLUSTER"), Action: fakeredis.Action{DelayBefore: 3 * time.Second}})
		newAddr := "10.0.99.1:7990"
		if o.sameIP {
			newAddr = "10.0.0.1:7990"
		}
		w.srv.AddNode(newAddr, "master", nil)
		ks := newKeyspace(rng, 3)
		mig := &keyspace{tags: ks.tags[:1], slots: ks.slots[:1]}
		other := &keyspace{tags: ks.tags[1:], slots: ks.slots[1:]}
		slot := mig.slots[0]
		primary := w.owner(slot)
		w.srv.Migrate(slot, newAddr)
		kinds := []string{"Do", "DoWrite", "DoCache", "DoMulti"}
		var all []issued
		var order []int // 0 = the first (ASK-redirected) call, 1.. = later calls on the migrating slot, -1 = other slots
		call := func(k *keyspace, ord int) {
			kind := kinds[rng.Intn(len(kinds))]
			defer func() {
				if p := recover(); p != nil {
					run.Violation("panic", "ask-unknown|"+kind+"|"+firstLine(fmt.Sprint(p)), map[string]any{"world": w.desc, "panic": fmt.Sprint(p)})
				}
			}()
			for _, is := range w.do(ctx, rng, k, kind, false) {
				all = append(all, is)
				order = append(order, ord)
			}
		}
		call(mig, 0)
		for i := 1; i <= 6; i++ {
			if rng.Intn(3) == 0 {
				call(other, -1)
			}
			call(mig, i)
		}
		hm := hops(w.srv.Log())
		for i, is := range all {
			hs := hm[is.UID]
			val, errStr := resultString(is.Result)
			key := fmt.Sprintf("ask-unknown|%s|m=%d", is.Kind, m)
			wit := map[string]any{"world": w.desc, "new_node_outside_learnt_topology": newAddr, "migrating_slot": slot, "slot_primary": primary, "call_number_on_slot": order[i],
				"command": is.Key, "hops": hopStrings(hs), "result": val + errStr}
			if order[i] >= 0 {
				switch {
				case len(hs) == 0:
					run.Violation("command-not-sent", key, wit)
				case hs[0].Node != primary:
					class := "first-hop-not-on-slot-owner"
					if order[i] > 0 {
						class = "later-command-first-hop-not-on-slot-owner"
					}
					run.Violation(class, key, wit)
				default:
					run.Observe("ask_unknown_first_hop_on_primary", 1)
					if order[i] > 0 {
						run.Observe("ask_unknown_later_commands_on_primary", 1)
					}
				}
				if errStr != "" && errStr != rueidis.ErrDoCacheAborted.Error() {
					run.Violation("command-failed-with-one-ask-redirect", key, wit)
				}
			}
			w.checkRedirectsAndFinal(run, "ask-unknown", is, hs, map[string]any{"new_node_outside_learnt_topology": newAddr, "call_number_on_slot": order[i]})
			run.Case(fmt.Sprintf("ask-unknown|%s|m=%d|later=%v|hops=%d", is.Kind, m, order[i] > 0, len(hs)), true)
		}
		if wi < 1 {
			run.Sample(map[string]any{"part": "ask-unknown", "world": w.desc, "new_node": newAddr, "slot": slot, "commands": len(all)})
		}
		w.close()
	}
}
