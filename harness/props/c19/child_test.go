package c19

import (
	"context"
	"fmt"
	"os"
	"strings"
	"testing"
	"time"

	"github.com/redis/rueidis"
	"verifh/drv"
	"verifh/fakeredis"
	"verifh/mon"
)

// Crash isolation. A cached call that is answered ASK makes the cluster client send its opt-in / MULTI / PTTL / cmd /
// EXEC block to the importing node; when the pipe that receives the EXEC reply has no cache (DisableCache) the reader
// goroutine dies, and a panic in a background goroutine cannot be recovered by the caller: it ends the process. Such
// combinations therefore run in a re-executed child process (like C13 does); the main parts keep away from them.

// TestC19Child is the body of the child process: VERIF_C19_SCENARIO = <call>/<cache on|off>.
func TestC19Child(t *testing.T) {
	if !drv.IsChild() {
		t.Skip("child process body")
	}
	sc := os.Getenv("VERIF_C19_SCENARIO")
	call, cache, _ := strings.Cut(sc, "/")
	s := fakeredis.New(fakeredis.Options{}, "10.0.0.1:7000", "10.0.0.2:7000", "10.0.0.3:7000")
	s.EnableCluster()
	opt := drv.Option(s, "10.0.0.1:7000")
	opt.DisableCache = cache == "off"
	c, err := rueidis.NewClient(opt)
	if err != nil {
		fmt.Println("CHILD-SETUP-FAILED", err)
		return
	}
	keys := []string{"{a}ck.1", "{b}ck.2", "{c}ck.3"}
	for _, k := range keys {
		slot := fakeredis.Slot(k)
		src := s.SlotOwner(slot)
		s.Node(src).Exec("SET", k, "val:"+k)
		dst := "10.0.0.2:7000"
		if src == dst {
			dst = "10.0.0.3:7000"
		}
		s.Migrate(slot, dst)
		s.MoveKey(k) // the key now lives on the importing node: the source answers ASK
	}
	ctx := context.Background()
	var got []string
	switch call {
	case "DoCache":
		r := c.DoCache(ctx, c.B().Get().Key(keys[0]).Cache(), time.Minute)
		v, e := resultString(r)
		got = append(got, v+e)
	case "DoMultiCache":
		var cts []rueidis.CacheableTTL
		for _, k := range keys {
			cts = append(cts, rueidis.CT(c.B().Get().Key(k).Cache(), time.Minute))
		}
		for _, r := range c.DoMultiCache(ctx, cts...) {
			v, e := resultString(r)
			got = append(got, v+e)
		}
	}
	time.Sleep(50 * time.Millisecond) // let the reader goroutines process what is on the wire
	// a second round on the same connections: a reader that died silently would show here
	r := c.Do(ctx, c.B().Arbitrary("VERIF.ECHO").Keys(keys[0]).Args("u.child", "str").ReadOnly())
	v, e := resultString(r)
	got = append(got, v+e)
	c.Close()
	s.Close()
	fmt.Printf("CHILD-OK %q\n", got)
}

func partCrashIsolated(run *mon.Run) {
	for _, sc := range []string{"DoCache/on", "DoMultiCache/on", "DoCache/off", "DoMultiCache/off"} {
		out, err := drv.RunChild("TestC19Child", map[string]string{"VERIF_C19_SCENARIO": sc}, 2048)
		call, cache, _ := strings.Cut(sc, "/")
		key := fmt.Sprintf("isolated|%s|cache=%s|ASK-to-importing-node", call, cache)
		switch {
		case strings.Contains(out, "CHILD-OK"):
			line := out[strings.Index(out, "CHILD-OK"):]
			line = firstLine(line)
			run.Observe("isolated_ask_scenarios_survived", 1)
			want := "val:{a}ck.1"
			if !strings.Contains(line, want) || !strings.Contains(line, "echo:u.child") {
				run.Violation("wrong-reply", key, map[string]any{"scenario": sc, "child_output": line})
			}
		case strings.Contains(out, "panic:") || strings.Contains(out, "fatal error:"):
			i := strings.Index(out, "panic:")
			if i < 0 {
				i = strings.Index(out, "fatal error:")
			}
			run.Violation("process-crash", key, map[string]any{"scenario": sc, "what": "cached call whose key's slot is being migrated (source answers ASK, key already on the importing node)", "child_output": trunc(out[i:], 1500)})
		default:
			run.Inconclusive(fmt.Sprintf("isolated scenario %s: child ended without verdict (%v): %s", sc, err, drv.Tail(out, 300)))
		}
		run.Case("isolated|"+sc, true)
	}
}
