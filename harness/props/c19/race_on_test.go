//go:build race

package c19

const raceBuild = true
