package c19

import (
	"context"
	"crypto/tls"
	"fmt"
	"math/rand"
	"net"
	"os"
	"sort"
	"strconv"
	"strings"
	"sync"
	"sync/atomic"
	"testing"
	"time"

	"github.com/redis/rueidis"
	"verifh/drv"
	"verifh/fakeredis"
	"verifh/mon"
	"verifh/resp"
)

// C19, live part. Every user command carries a uid (VERIF.ECHO / VERIF.WRITE <key> <uid>, or GET <unique key> for the
// cached calls). From the fake cluster's log the oracle rebuilds, per uid, the ordered list of hops
// (node, connection, reply or execution) and, per connection, whether ASKING was in effect when the hop was received.
//
//   routing   - static topology learnt by the client: the first hop of a command whose slot has a primary the topology
//               announces usably is on that primary;
//   execution - (changing topology) the node that executed a command owned its slot - or was importing it and the hop
//               was received under ASKING - in the topology served at that instant (ownership history kept by the
//               driver with logical-clock windows around every change);
//   redirect  - a hop answered MOVED a is followed by a hop on a; a hop answered ASK a by a hop on a received under ASKING;
//               without MaxMovedRedirections a redirect error is never the call's result;
//   bound     - with MaxMovedRedirections=m a command is received at most m+1 times on a pure redirect loop and the
//               call returns the last redirect error;
//   final     - the call's result is the last hop's outcome (the executed value, or its error).

// ----------------------------------------------------------------- the world

type nodeSpec struct {
	Addr    string
	Primary string // "" for primaries
	View    string // "" | host | empty | q | fail | hidden
}

type cworld struct {
	srv      *fakeredis.Server
	client   rueidis.Client
	prims    []string
	nodes    []nodeSpec
	alias    sync.Map // announced host:port -> real address
	shards8  bool
	maxMoved int
	visible  map[string]bool // primaries the announced topology lets a client use
	desc     map[string]any
	ks       *keyspace // set by the parts whose clusters are static: lets closedForClient probe a node
}

type worldOpts struct {
	shards, replicas int
	shards8          bool
	gaps, split      bool
	views            bool
	sameIP           bool
	maxMoved         int
	logReplies       bool
	seed             int64
	disableCache     bool
}

func strp(s string) *string { return &s }

func newCluster(rng *rand.Rand, o worldOpts) (*cworld, error) {
	w := &cworld{shards8: o.shards8, maxMoved: o.maxMoved, visible: map[string]bool{}}
	fo := fakeredis.Options{Seed: o.seed, LogReplies: o.logReplies, ChunkWrites: rng.Intn(2) == 0}
	if o.shards8 {
		fo.Version = "8.0.0"
	}
	addr := func(i, j int) string {
		if o.sameIP {
			return fmt.Sprintf("10.0.0.1:%d", 7000+i*10+j)
		}
		return fmt.Sprintf("10.0.%d.%d:%d", i+1, j+1, 7000+i*10+j)
	}
	for i := 0; i < o.shards; i++ {
		w.prims = append(w.prims, addr(i, 0))
	}
	w.srv = fakeredis.New(fo, w.prims...)
	for i, p := range w.prims {
		w.nodes = append(w.nodes, nodeSpec{Addr: p})
		pn := w.srv.Node(p)
		nrep := 0
		if o.replicas > 0 {
			nrep = rng.Intn(o.replicas + 1)
		}
		for j := 1; j <= nrep; j++ {
			a := addr(i, j)
			w.srv.AddNode(a, "slave", pn)
			w.nodes = append(w.nodes, nodeSpec{Addr: a, Primary: p})
		}
	}
	w.srv.EnableCluster()
	// slot layout: pieces dealt to primaries, optionally with gaps and several ranges per primary
	if o.gaps || o.split {
		pieces := o.shards
		if o.split {
			pieces += 1 + rng.Intn(2*o.shards+1)
		}
		cuts := map[int]bool{}
		for len(cuts) < pieces-1 {
			cuts[1+rng.Intn(16383)] = true
		}
		var cs []int
		for c := range cuts {
			cs = append(cs, c)
		}
		sort.Ints(cs)
		cs = append(cs, 16384)
		start := 0
		for i, c := range cs {
			owner := w.prims[i%o.shards]
			if i >= o.shards {
				owner = w.prims[rng.Intn(o.shards)]
			}
			if o.gaps && rng.Intn(6) == 0 && len(cs) > 1 {
				owner = ""
			}
			w.srv.SetSlotOwner(start, c-1, owner)
			start = c
		}
	}
	for _, p := range w.prims {
		w.visible[p] = true
	}
	if o.views {
		for i := range w.nodes {
			n := &w.nodes[i]
			node := w.srv.Node(n.Addr)
			host, port, _ := net.SplitHostPort(n.Addr)
			_ = host
			r := rng.Intn(12)
			switch {
			case r < 3:
				n.View = "host"
				h := fmt.Sprintf("node%d.cluster.example", i)
				node.View = &fakeredis.NodeView{Endpoint: strp(h)}
				w.alias.Store(net.JoinHostPort(h, port), n.Addr)
			case r < 5 && o.sameIP:
				n.View = "empty"
				node.View = &fakeredis.NodeView{Endpoint: strp("")}
			case r == 5 && (n.Primary != "" || rng.Intn(3) == 0):
				n.View = "q"
				node.View = &fakeredis.NodeView{Endpoint: strp("?")}
				if n.Primary == "" {
					w.visible[n.Addr] = false
				}
			case r == 6 && n.Primary != "":
				n.View = "fail"
				node.View = &fakeredis.NodeView{Health: "fail"}
			case r == 7 && n.Primary != "":
				n.View = "hidden"
				node.View = &fakeredis.NodeView{Hidden: true}
			case r == 8:
				n.View = "tlsport"
				node.View = &fakeredis.NodeView{TLSPort: 16000 + int64(i)}
			}
		}
	}
	// the client starts from a primary it can always use
	init := ""
	for _, n := range w.nodes {
		if n.Primary == "" && (n.View == "" || n.View == "tlsport") {
			init = n.Addr
			break
		}
	}
	if init == "" {
		init = w.prims[0]
		w.srv.Node(init).View = nil
		w.nodes[0].View = ""
		w.visible[init] = true
	}
	opt := drv.Option(w.srv, init)
	opt.DialCtxFn = func(ctx context.Context, a string, _ *net.Dialer, _ *tls.Config) (net.Conn, error) {
		if real, ok := w.alias.Load(a); ok {
			a = real.(string)
		} else if h, p, err := net.SplitHostPort(a); err == nil && o.sameIP && strings.HasSuffix(h, ".cluster.example") {
			a = "10.0.0.1:" + p // an empty endpoint announced by a node the client knows by name: same host, other port
		}
		return w.srv.Dial(ctx, a)
	}
	opt.ClusterOption.MaxMovedRedirections = o.maxMoved
	opt.DisableCache = o.disableCache
	opt.RetryDelay = func(attempts int, _ rueidis.Completed, _ error) time.Duration {
		if attempts > 40 {
			return -1
		}
		return 0
	}
	c, err := rueidis.NewClient(opt)
	if err != nil {
		w.srv.Close()
		return nil, err
	}
	w.client = c
	var views []string
	for _, n := range w.nodes {
		if n.View != "" {
			views = append(views, n.Addr+"="+n.View)
		}
	}
	w.desc = map[string]any{"shards": o.shards, "nodes": len(w.nodes), "cluster_shards_cmd": o.shards8, "gaps": o.gaps, "split": o.split, "same_ip": o.sameIP, "views": views, "max_moved": o.maxMoved}
	return w, nil
}

func (w *cworld) close() {
	w.client.Close()
	w.srv.Close()
}

// --------------------------------------------------------------- log analysis

type hop struct {
	Seq     int64
	Node    string
	Conn    int64
	Asking  bool    // ASKING in effect when the command was received
	Reply   *resp.V // direct reply (nil when none was logged)
	RepSeq  int64
	Execd   bool
	ExecSeq int64
	ExecVal resp.V
}

func (h hop) String() string {
	s := fmt.Sprintf("@%d %s conn=%d", h.Seq, h.Node, h.Conn)
	if h.Asking {
		s += " ASKING"
	}
	if h.Execd {
		s += " executed"
	} else if h.Reply != nil {
		s += " -> " + h.Reply.String()
	} else {
		s += " (no reply)"
	}
	return s
}

func uidOf(argv []string) string {
	if len(argv) == 0 {
		return ""
	}
	switch strings.ToUpper(argv[0]) {
	case "VERIF.ECHO", "VERIF.WRITE":
		if len(argv) > 2 {
			return argv[2]
		}
	case "GET":
		if len(argv) > 1 && strings.Contains(argv[1], "ck.") {
			return argv[1]
		}
	}
	return ""
}

type connState struct{ asking, inMulti bool }

// hops rebuilds the per-uid hop lists from a log slice.
func hops(events []fakeredis.Event) map[string][]*hop {
	out := map[string][]*hop{}
	cs := map[int64]*connState{}
	for _, e := range events {
		if e.Conn == 0 || len(e.Argv) == 0 {
			continue
		}
		name := strings.ToUpper(e.Argv[0])
		switch e.Kind {
		case "recv":
			st := cs[e.Conn]
			if st == nil {
				st = &connState{}
				cs[e.Conn] = st
			}
			switch name {
			case "ASKING":
				st.asking = true
			case "MULTI":
				st.inMulti = true
			case "EXEC", "DISCARD":
				st.inMulti, st.asking = false, false
			default:
				if uid := uidOf(e.Argv); uid != "" {
					out[uid] = append(out[uid], &hop{Seq: e.Seq, Node: e.Node, Conn: e.Conn, Asking: st.asking})
				}
				if !st.inMulti {
					st.asking = false
				}
			}
		case "reply", "exec":
			uid := uidOf(e.Argv)
			if uid == "" {
				continue
			}
			hs := out[uid]
			for i := len(hs) - 1; i >= 0; i-- {
				if hs[i].Conn == e.Conn {
					if e.Kind == "exec" {
						hs[i].Execd, hs[i].ExecSeq, hs[i].ExecVal = true, e.Seq, e.Reply
					} else if hs[i].Reply == nil {
						v := e.Reply
						hs[i].Reply, hs[i].RepSeq = &v, e.Seq
					}
					break
				}
			}
		}
	}
	return out
}

func redirectOf(v *resp.V) (kind, addr string) {
	if v == nil || (v.T != '-' && v.T != '!') {
		return "", ""
	}
	f := strings.Fields(v.S)
	if len(f) >= 3 && (f[0] == "MOVED" || f[0] == "ASK") {
		return f[0], f[2]
	}
	if len(f) > 0 && (f[0] == "TRYAGAIN" || f[0] == "LOADING" || f[0] == "CLUSTERDOWN") {
		return f[0], ""
	}
	return "", ""
}

func hopStrings(hs []*hop) []string {
	var s []string
	for _, h := range hs {
		s = append(s, h.String())
	}
	return s
}

// issued is one user command of a call.
type issued struct {
	Batch  int64 // members of one DoMulti share it
	UID    string
	Key    string
	Slot   int
	Kind   string // Do | DoWrite | DoCache | DoMulti
	Want   string // expected successful value
	Result rueidis.RedisResult
}

func resultString(r rueidis.RedisResult) (val string, errStr string) {
	if err := r.Error(); err != nil {
		if rueidis.IsRedisNil(err) {
			return "<nil>", ""
		}
		return "", err.Error()
	}
	s, err := r.ToString()
	if err != nil {
		m, _ := r.ToMessage()
		return "<" + m.String() + ">", ""
	}
	return s, ""
}

func vString(v resp.V) string {
	if v.IsNull() {
		return "<nil>"
	}
	return v.S
}

// checkRedirectsAndFinal applies the redirect / bound / final rules to one command.
func (w *cworld) checkRedirectsAndFinal(run *mon.Run, part string, is issued, hs []*hop, extra map[string]any) {
	wit := func(m map[string]any) map[string]any {
		m["world"] = w.desc
		m["command"] = fmt.Sprintf("%s key=%s uid=%s slot=%d", is.Kind, is.Key, is.UID, is.Slot)
		m["hops"] = hopStrings(hs)
		v, e := resultString(is.Result)
		m["result"] = v + e
		for k, x := range extra {
			m[k] = x
		}
		return m
	}
	pureLoop := len(hs) > 0
	for i, h := range hs {
		kind, addr := redirectOf(h.Reply)
		if h.Execd || (kind != "MOVED" && kind != "ASK") {
			pureLoop = false
		}
		if h.Execd || i+1 >= len(hs) {
			continue
		}
		next := hs[i+1]
		if (kind == "MOVED" || kind == "ASK") && next.Node != addr && w.closedForClient(addr) {
			// The attempt on the named node never left the client: its connection to that address is one the client has
			// closed itself (listed known finding C19-K1: a same-address MOVED racing with a topology refresh), the
			// retry then went elsewhere. Reported as that finding, identified by the ErrClosing probe, not as a redirect
			// that was ignored.
			run.Violation("node-unreachable-after-same-address-redirect", part+"|ErrClosing-while-client-open", wit(map[string]any{"hop": i, "named": addr, "next_received_by": next.Node,
				"what": "a command sent straight to a slot of the named node fails with ErrClosing although the driver never closes or kills a connection in this part"}))
			return
		}
		switch kind {
		case "MOVED":
			run.Observe("moved_followed", 1)
			if next.Node != addr {
				run.Violation("moved-not-followed", part+"|"+is.Kind, wit(map[string]any{"hop": i, "named": addr, "next_received_by": next.Node}))
			}
		case "ASK":
			run.Observe("ask_followed", 1)
			if next.Node != addr {
				run.Violation("ask-not-followed", part+"|"+is.Kind, wit(map[string]any{"hop": i, "named": addr, "next_received_by": next.Node}))
			} else if !next.Asking {
				run.Violation("ask-without-asking", part+"|"+is.Kind, wit(map[string]any{"hop": i, "named": addr}))
			} else {
				run.Observe("asking_preceded", 1)
			}
		}
	}
	val, errStr := resultString(is.Result)
	if len(hs) == 0 {
		return
	}
	last := hs[len(hs)-1]
	lk, _ := redirectOf(last.Reply)
	if w.maxMoved > 0 && pureLoop {
		run.Observe("redirect_loops_bounded", 1)
		if len(hs) > w.maxMoved+1 {
			run.Violation("too-many-redirects", fmt.Sprintf("%s|%s|m=%d", part, is.Kind, w.maxMoved), wit(map[string]any{"received": len(hs), "allowed": w.maxMoved + 1}))
		}
	}
	if errStr != "" && (strings.HasPrefix(errStr, "MOVED ") || strings.HasPrefix(errStr, "ASK ")) {
		if w.maxMoved == 0 {
			run.Violation("redirect-error-returned", part+"|"+is.Kind, wit(map[string]any{}))
			return
		}
		if len(hs) < w.maxMoved+1 {
			run.Violation("redirect-error-returned-before-limit", fmt.Sprintf("%s|%s|m=%d", part, is.Kind, w.maxMoved), wit(map[string]any{"received": len(hs), "limit": w.maxMoved}))
			return
		}
	}
	// final: the result is the last hop's outcome
	switch {
	case last.Execd:
		want := vString(last.ExecVal)
		if errStr != "" || val != want {
			run.Violation("final-reply-not-returned", part+"|"+is.Kind+"|executed", wit(map[string]any{"executed_value": want}))
		} else if is.Want != "" && val != is.Want {
			run.Violation("wrong-reply", part+"|"+is.Kind, wit(map[string]any{"expected": is.Want}))
		} else {
			run.Observe("final_reply_checked", 1)
		}
	case last.Reply != nil && (last.Reply.T == '-' || last.Reply.T == '!'):
		want := strings.TrimPrefix(last.Reply.S, "ERR ")
		if errStr != want {
			run.Violation("final-reply-not-returned", part+"|"+is.Kind+"|error:"+lk, wit(map[string]any{"last_reply": want}))
		} else {
			run.Observe("final_error_checked", 1)
		}
	}
}

// ------------------------------------------------------------------- helpers

var uidSeq atomic.Int64

func newUID() (string, int64) {
	n := uidSeq.Add(1)
	return "u." + strconv.FormatInt(n, 10), n
}

// keyForSlot returns a key hashing to a slot of the given index in tags (a fixed list of hash tags).
type keyspace struct {
	tags  []string
	slots []int
}

func newKeyspace(rng *rand.Rand, n int) *keyspace {
	ks := &keyspace{}
	seen := map[int]bool{}
	for i := 0; len(ks.tags) < n; i++ {
		t := fmt.Sprintf("g%d", rng.Intn(1<<20))
		s := fakeredis.Slot(t)
		if !seen[s] {
			seen[s] = true
			ks.tags = append(ks.tags, t)
			ks.slots = append(ks.slots, s)
		}
	}
	return ks
}

func (w *cworld) owner(slot int) string { return w.srv.SlotOwner(slot) }

// do issues one call of the given kind for a key in tag and returns what was issued with results.
func (w *cworld) do(ctx context.Context, rng *rand.Rand, ks *keyspace, kind string, populate bool) []issued {
	c := w.client
	mk := func(kind string, ti int) (issued, rueidis.Completed) {
		uid, _ := newUID()
		key := "{" + ks.tags[ti] + "}k"
		is := issued{UID: uid, Key: key, Slot: ks.slots[ti], Kind: kind, Want: "echo:" + uid}
		if kind == "DoWrite" {
			return is, c.B().Arbitrary("VERIF.WRITE").Keys(key).Args(uid, "str").Build()
		}
		return is, c.B().Arbitrary("VERIF.ECHO").Keys(key).Args(uid, "str").ReadOnly()
	}
	switch kind {
	case "Do", "DoWrite":
		is, cmd := mk(kind, rng.Intn(len(ks.tags)))
		is.Result = c.Do(ctx, cmd)
		return []issued{is}
	case "DoCache":
		ti := rng.Intn(len(ks.tags))
		_, n := newUID()
		key := fmt.Sprintf("{%s}ck.%d", ks.tags[ti], n)
		is := issued{UID: key, Key: key, Slot: ks.slots[ti], Kind: kind, Want: "<nil>"}
		if populate {
			if o := w.owner(is.Slot); o != "" {
				w.srv.Node(o).Exec("SET", key, "val:"+key)
				is.Want = "val:" + key
			}
		}
		is.Result = c.DoCache(ctx, c.B().Get().Key(key).Cache(), time.Minute)
		return []issued{is}
	default: // DoMulti
		n := 2 + rng.Intn(5)
		iss := make([]issued, n)
		cmds := make(rueidis.Commands, n)
		_, batch := newUID()
		for i := range cmds {
			k := "Do"
			if rng.Intn(3) == 0 {
				k = "DoWrite"
			}
			iss[i], cmds[i] = mk(k, rng.Intn(len(ks.tags)))
			iss[i].Kind = "DoMulti"
			iss[i].Batch = batch
		}
		rs := c.DoMulti(ctx, cmds...)
		for i := range iss {
			if i < len(rs) {
				iss[i].Result = rs[i]
			}
		}
		return iss
	}
}

// --------------------------------------------------------------------- parts

// partStatic: random topologies, no change after the client learnt them: first hop on the announced owner.
func partStatic(run *mon.Run) {
	rng := run.Rand("static")
	nw := scale(run.N(150, 3000))
	ctx := context.Background()
	for wi := 0; wi < nw; wi++ {
		o := worldOpts{shards: 1 + rng.Intn(12), replicas: rng.Intn(4), shards8: wi%2 == 1, gaps: rng.Intn(3) == 0, split: rng.Intn(2) == 0, views: rng.Intn(3) > 0,
			sameIP: rng.Intn(2) == 0, logReplies: true, seed: run.Seed*1009 + int64(wi)}
		var w *cworld
		var err error
		func() {
			defer func() {
				if p := recover(); p != nil {
					run.Violation("panic", "static|NewClient|"+firstLine(fmt.Sprint(p)), map[string]any{"opts": fmt.Sprintf("%+v", o), "panic": fmt.Sprint(p)})
				}
			}()
			w, err = newCluster(rng, o)
		}()
		if w == nil {
			if err != nil {
				run.Inconclusive("static world: client setup failed: " + err.Error())
			}
			continue
		}
		ks := newKeyspace(rng, 40)
		var all []issued
		for ci := 0; ci < 50; ci++ {
			kind := []string{"Do", "DoWrite", "DoCache", "DoMulti"}[rng.Intn(4)]
			func() {
				defer func() {
					if p := recover(); p != nil {
						run.Violation("panic", "static|"+kind+"|"+firstLine(fmt.Sprint(p)), map[string]any{"world": w.desc, "panic": fmt.Sprint(p)})
					}
				}()
				all = append(all, w.do(ctx, rng, ks, kind, true)...)
			}()
		}
		hm := hops(w.srv.Log())
		unroutable := map[int64]bool{} // batches with a member on a slot the client cannot route: DoMulti fails as a whole with ErrNoSlot
		for _, is := range all {
			if o := w.owner(is.Slot); is.Batch != 0 && (o == "" || !w.visible[o]) {
				unroutable[is.Batch] = true
			}
		}
		for _, is := range all {
			hs := hm[is.UID]
			owner := w.owner(is.Slot)
			val, errStr := resultString(is.Result)
			feat := "owned"
			switch {
			case owner != "" && w.visible[owner] && unroutable[is.Batch] && len(hs) == 0:
				feat = "sibling-unroutable"
				run.Observe("batch_members_not_sent_because_a_sibling_has_no_node", 1)
			case owner == "":
				feat = "gap"
				run.Observe("commands_on_unassigned_slots", 1)
				for _, h := range hs {
					if h.Execd {
						run.Violation("executed-on-unassigned-slot", "static|"+is.Kind, map[string]any{"world": w.desc, "hops": hopStrings(hs)})
					}
				}
			case !w.visible[owner]:
				feat = "owner-not-announced"
				run.Observe("commands_on_unusable_primaries", 1)
			default:
				if len(hs) == 0 {
					run.Violation("command-not-sent", "static|"+is.Kind, map[string]any{"world": w.desc, "command": fmt.Sprintf("%+v", is.Key), "owner": owner, "result": val + errStr})
					break
				}
				if hs[0].Node != owner {
					run.Violation("first-hop-not-on-slot-owner", "static|"+is.Kind+"|"+map[bool]string{false: "SLOTS", true: "SHARDS"}[w.shards8], map[string]any{"world": w.desc, "command": is.Key, "slot": is.Slot, "owner": owner, "hops": hopStrings(hs)})
				} else {
					run.Observe("first_hop_on_owner", 1)
				}
				if len(hs) > 1 {
					run.Observe("static_extra_hops", 1)
				}
				w.checkRedirectsAndFinal(run, "static", is, hs, nil)
			}
			run.Case(fmt.Sprintf("static|shards=%d|v8=%v|%s|%s|views=%v", o.shards, o.shards8, is.Kind, feat, o.views), o.shards > 1)
		}
		if wi < 2 {
			run.Sample(map[string]any{"part": "static", "world": w.desc, "commands": len(all)})
		}
		w.close()
	}
}

// closedForClient reports whether a plain read for a slot owned by addr fails with ErrClosing, i.e. whether the client
// routes that node's slots to a connection it has closed itself (only in parts that set w.ks: static clusters in which
// the driver never closes or kills a connection).
func (w *cworld) closedForClient(addr string) bool {
	if w.ks == nil {
		return false
	}
	for i, s := range w.ks.slots {
		if w.srv.SlotOwner(s) != addr {
			continue
		}
		res := w.client.Do(context.Background(), w.client.B().Get().Key("{"+w.ks.tags[i]+"}probe").Build())
		_, e := resultString(res)
		return e == errClosingText
	}
	return false
}

// partScripted: scripted redirect chains and loops on a static cluster.
func partScripted(run *mon.Run) {
	rng := run.Rand("scripted")
	ctx := context.Background()
	nw := scale(run.N(40, 800))
	cases := run.N(80, 120)
	if raceBuild {
		cases = 40
	}
	for wi := 0; wi < nw; wi++ {
		m := 0
		if wi%2 == 1 {
			m = 1 + rng.Intn(4)
		}
		o := worldOpts{shards: 3 + rng.Intn(4), shards8: rng.Intn(2) == 0, maxMoved: m, logReplies: true, seed: run.Seed*2003 + int64(wi), disableCache: wi%4 == 3}
		w, err := newCluster(rng, o)
		if err != nil {
			run.Inconclusive("scripted world: client setup failed: " + err.Error())
			continue
		}
		ks := newKeyspace(rng, 24)
		w.ks = ks
		for ci := 0; ci < cases; ci++ {
			kind := []string{"Do", "DoWrite", "DoCache", "DoMulti"}[rng.Intn(4)]
			from := w.srv.LogLen()
			// the script: replies given to the successive receptions of the target command
			loop := m > 0 && rng.Intn(3) == 0
			steps := 1 + rng.Intn(5)
			var script []string
			target := ""
			arm := func(uid string, slot int) {
				target = uid
				match := func(_ *fakeredis.Conn, a []string) bool { return uidOf(a) == uid }
				other := func() string { return w.prims[rng.Intn(len(w.prims))] }
				if loop {
					rk := []string{"MOVED", "ASK"}[rng.Intn(2)]
					if o.disableCache && kind == "DoCache" {
						rk = "MOVED"
					}
					a, b := other(), other()
					script = append(script, fmt.Sprintf("loop %s %s/%s", rk, a, b))
					// alternate between two nodes so that the loop is not a self-redirect only
					w.srv.Plan(&fakeredis.Rule{Name: "loop", Match: func(c *fakeredis.Conn, argv []string) bool { return match(c, argv) && c.NodeAddr() != a }, Action: fakeredis.Action{Reply: errp(fmt.Sprintf("%s %d %s", rk, slot, a))}})
					w.srv.Plan(&fakeredis.Rule{Name: "loop", Match: match, Action: fakeredis.Action{Reply: errp(fmt.Sprintf("%s %d %s", rk, slot, b))}})
					return
				}
				for s := 0; s < steps; s++ {
					var r string
					switch x := rng.Intn(10); {
					case x < 4:
						r = fmt.Sprintf("MOVED %d %s", slot, other())
					case x < 8 && !(o.disableCache && kind == "DoCache"): // that combination ends the process: see child_test.go
						r = fmt.Sprintf("ASK %d %s", slot, other())
					case x < 8:
						r = fmt.Sprintf("MOVED %d %s", slot, other())
					case x == 8:
						r = "TRYAGAIN Multiple keys request during rehashing of slot"
					default:
						r = "LOADING Redis is loading the dataset in memory"
					}
					script = append(script, r)
					w.srv.Plan(&fakeredis.Rule{Name: "step", Match: match, Times: 1, Action: fakeredis.Action{Reply: errp(r)}})
				}
			}
			var iss []issued
			func() {
				defer func() {
					if p := recover(); p != nil {
						run.Violation("panic", "scripted|"+kind+"|"+firstLine(fmt.Sprint(p)), map[string]any{"world": w.desc, "script": script, "panic": fmt.Sprint(p)})
					}
				}()
				iss = w.doScripted(ctx, rng, ks, kind, arm)
			}()
			w.srv.ClearPlan()
			if tainted(run, "scripted", w, iss) {
				break
			}
			hm := hops(w.srv.Log()[from:])
			for _, is := range iss {
				hs := hm[is.UID]
				extra := map[string]any{"script": script, "scripted_uid": target}
				w.checkRedirectsAndFinal(run, "scripted", is, hs, extra)
				if is.UID == target {
					kinds := map[string]bool{}
					for _, h := range hs {
						k, _ := redirectOf(h.Reply)
						kinds[k] = true
					}
					run.Case(fmt.Sprintf("scripted|%s|m=%d|loop=%v|len=%d|hops=%d|%v", kind, m, loop, len(script), len(hs), sortedSet(kinds)), true)
					if ci < 1 && wi < 4 {
						run.Sample(map[string]any{"part": "scripted", "call": kind, "max_moved": m, "script": script, "hops": hopStrings(hs)})
					}
				}
			}
		}
		w.close()
	}
}

// scale reduces a case count in race builds (about 10x slower), so that both builds stay in the same wall-time range.
func scale(n int) int {
	if raceBuild {
		return max(n/6, 2)
	}
	return n
}

const errClosingText = "rueidis client is closing or unable to connect redis"

// tainted reports the client-made connection loss (see reconnect_test.go) once per world; the per-command rules are
// not applied to a world in which it happened, because every one of them is then broken as a consequence.
func tainted(run *mon.Run, part string, w *cworld, iss []issued) bool {
	for _, is := range iss {
		if _, e := resultString(is.Result); e == errClosingText {
			run.Violation("node-unreachable-after-same-address-redirect", part+"|ErrClosing-while-client-open", map[string]any{"world": w.desc, "command": is.Key, "result": e,
				"what": "the driver never closes or kills a connection in this part, yet a command failed with ErrClosing: the client closed a connection it still routes to"})
			return true
		}
	}
	return false
}

func errp(s string) *resp.V { v := resp.Err(s); return &v }

func sortedSet(m map[string]bool) []string {
	var s []string
	for k := range m {
		s = append(s, k)
	}
	sort.Strings(s)
	return s
}

// doScripted builds the call first, arms the script for one of its commands, then runs it.
func (w *cworld) doScripted(ctx context.Context, rng *rand.Rand, ks *keyspace, kind string, arm func(uid string, slot int)) []issued {
	c := w.client
	mk := func(kind string, ti int) (issued, rueidis.Completed) {
		uid, _ := newUID()
		key := "{" + ks.tags[ti] + "}k"
		is := issued{UID: uid, Key: key, Slot: ks.slots[ti], Kind: kind, Want: "echo:" + uid}
		if kind == "DoWrite" {
			return is, c.B().Arbitrary("VERIF.WRITE").Keys(key).Args(uid, "str").Build()
		}
		return is, c.B().Arbitrary("VERIF.ECHO").Keys(key).Args(uid, "str").ReadOnly()
	}
	switch kind {
	case "Do", "DoWrite":
		is, cmd := mk(kind, rng.Intn(len(ks.tags)))
		arm(is.UID, is.Slot)
		is.Result = c.Do(ctx, cmd)
		return []issued{is}
	case "DoCache":
		ti := rng.Intn(len(ks.tags))
		_, n := newUID()
		key := fmt.Sprintf("{%s}ck.%d", ks.tags[ti], n)
		is := issued{UID: key, Key: key, Slot: ks.slots[ti], Kind: kind, Want: "val:" + key}
		w.srv.Node(w.owner(is.Slot)).Exec("SET", key, "val:"+key) // every chain ends on the owner
		arm(is.UID, is.Slot)
		is.Result = c.DoCache(ctx, c.B().Get().Key(key).Cache(), time.Minute)
		return []issued{is}
	default:
		n := 2 + rng.Intn(4)
		iss := make([]issued, n)
		cmds := make(rueidis.Commands, n)
		for i := range cmds {
			k := "Do"
			if rng.Intn(3) == 0 {
				k = "DoWrite"
			}
			iss[i], cmds[i] = mk(k, rng.Intn(len(ks.tags)))
			iss[i].Kind = "DoMulti"
		}
		t := rng.Intn(n)
		arm(iss[t].UID, iss[t].Slot)
		rs := c.DoMulti(ctx, cmds...)
		for i := range iss {
			if i < len(rs) {
				iss[i].Result = rs[i]
			}
		}
		return iss
	}
}

// ------------------------------------------------------------------- chaos

type change struct {
	before, after int64
	slot          int
	kind          string // owner | migstart | migend
	node          string
}

type history struct {
	mu      sync.Mutex
	initial map[int]string
	recs    map[int][]change
}

func (h *history) record(slot int, kind, node string, f func()) {
	b := mon.Stamp()
	f()
	a := mon.Stamp()
	h.mu.Lock()
	h.recs[slot] = append(h.recs[slot], change{before: b, after: a, slot: slot, kind: kind, node: node})
	h.mu.Unlock()
}

// acceptable returns the nodes that could legitimately execute a command of slot at logical time q:
// owners maps node -> true; importing maps node -> true (legitimate only under ASKING).
func (h *history) acceptable(slot int, q int64) (owners, importing map[string]bool) {
	owners, importing = map[string]bool{}, map[string]bool{}
	owner, mig := h.initial[slot], ""
	apply := func(c change) {
		switch c.kind {
		case "owner":
			owner, mig = c.node, ""
		case "migstart":
			mig = c.node
		case "migend":
			if mig != "" {
				owner = mig
			}
			mig = ""
		}
	}
	h.mu.Lock()
	recs := h.recs[slot]
	h.mu.Unlock()
	for _, c := range recs {
		if c.after < q {
			apply(c)
			continue
		}
		if c.before < q { // the change was being applied around q: both states are acceptable
			owners[owner] = true
			if mig != "" {
				importing[mig] = true
			}
			apply(c)
		}
		break
	}
	owners[owner] = true
	if mig != "" {
		importing[mig] = true
	}
	return
}

// acceptableBetween is the union of acceptable over every instant of [q1, q2].
func (h *history) acceptableBetween(slot int, q1, q2 int64) (owners, importing map[string]bool) {
	qs := []int64{q1, q2}
	h.mu.Lock()
	for _, c := range h.recs[slot] {
		for _, x := range []int64{c.before, c.after} {
			if x > q1 && x < q2 {
				qs = append(qs, x-1, x+1)
			}
		}
	}
	h.mu.Unlock()
	owners, importing = map[string]bool{}, map[string]bool{}
	for _, q := range qs {
		o, i := h.acceptable(slot, q)
		for k := range o {
			owners[k] = true
		}
		for k := range i {
			importing[k] = true
		}
	}
	return
}

func partChaos(run *mon.Run) {
	rng := run.Rand("chaos")
	nw := run.N(12, 150)
	callers, ops := 8, run.N(350, 600)
	if raceBuild { // this is the part the race detector is for: scaled less than the sequential parts
		nw, ops = max(nw/2, 5), ops/3
	}
	for wi := 0; wi < nw; wi++ {
		o := worldOpts{shards: 3 + rng.Intn(4), replicas: 2, shards8: wi%2 == 0, logReplies: true, seed: run.Seed*3001 + int64(wi)}
		w, err := newCluster(rng, o)
		if err != nil {
			run.Inconclusive("chaos world: client setup failed: " + err.Error())
			continue
		}
		ks := newKeyspace(rng, 32)
		h := &history{initial: map[int]string{}, recs: map[int][]change{}}
		for _, s := range ks.slots {
			h.initial[s] = w.owner(s)
		}
		// replicas per primary as of now (fail-over promotes one of them)
		reps := map[string][]string{}
		for _, n := range w.nodes {
			if n.Primary != "" {
				reps[n.Primary] = append(reps[n.Primary], n.Addr)
			}
		}
		stop := make(chan struct{})
		var bg sync.WaitGroup
		bg.Add(1)
		crng := rand.New(rand.NewSource(run.Seed*77 + int64(wi)))
		var migrations, failovers, reassigns int64
		go func() {
			defer bg.Done()
			curPrims := append([]string{}, w.prims...)
			for {
				select {
				case <-stop:
					return
				default:
				}
				time.Sleep(time.Duration(100+crng.Intn(400)) * time.Microsecond)
				si := crng.Intn(len(ks.slots))
				slot := ks.slots[si]
				switch r := crng.Intn(10); {
				case r < 6: // live migration of one slot
					src := w.owner(slot)
					dst := curPrims[crng.Intn(len(curPrims))]
					if dst == src {
						continue
					}
					h.record(slot, "migstart", dst, func() { w.srv.Migrate(slot, dst) })
					// keep the slot in migration until the callers have sent some more commands (not a time span: the race build is much slower)
					base, more := w.srv.Counter("recv"), int64(20+crng.Intn(120))
					for i := 0; i < 4000 && w.srv.Counter("recv") < base+more; i++ {
						time.Sleep(50 * time.Microsecond)
					}
					h.record(slot, "migend", dst, func() { w.srv.FinishMigration(slot) })
					atomic.AddInt64(&migrations, 1)
				case r < 9: // abrupt reassignment (the old owner just answers MOVED from now on)
					dst := curPrims[crng.Intn(len(curPrims))]
					h.record(slot, "owner", dst, func() { w.srv.SetSlotOwner(slot, slot, dst) })
					atomic.AddInt64(&reassigns, 1)
				default: // fail-over of a shard: a replica takes every slot of its primary
					pi := crng.Intn(len(curPrims))
					old := curPrims[pi]
					rs := reps[old]
					if len(rs) == 0 {
						continue
					}
					nu := rs[crng.Intn(len(rs))]
					// every tracked slot owned by old moves to nu: one window for all of them
					b := mon.Stamp()
					var moved []int
					for _, s := range ks.slots {
						if w.owner(s) == old {
							moved = append(moved, s)
						}
					}
					w.srv.Promote(nu)
					a := mon.Stamp()
					h.mu.Lock()
					for _, s := range moved {
						h.recs[s] = append(h.recs[s], change{before: b, after: a, slot: s, kind: "owner", node: nu})
					}
					h.mu.Unlock()
					// bookkeeping of who is whose replica now
					var nrs []string
					for _, x := range rs {
						if x != nu {
							nrs = append(nrs, x)
						}
					}
					reps[nu] = append(nrs, old)
					delete(reps, old)
					curPrims[pi] = nu
					atomic.AddInt64(&failovers, 1)
				}
			}
		}()
		var mu sync.Mutex
		var all []issued
		var wg sync.WaitGroup
		ctx := context.Background()
		for ci := 0; ci < callers; ci++ {
			wg.Add(1)
			go func(ci int) {
				defer wg.Done()
				r := rand.New(rand.NewSource(run.Seed*131 + int64(wi*100+ci)))
				for op := 0; op < ops; op++ {
					kind := []string{"Do", "DoWrite", "DoCache", "DoMulti"}[r.Intn(4)]
					var iss []issued
					func() {
						defer func() {
							if p := recover(); p != nil {
								run.Violation("panic", "chaos|"+kind+"|"+firstLine(fmt.Sprint(p)), map[string]any{"world": w.desc, "panic": fmt.Sprint(p)})
							}
						}()
						iss = w.do(ctx, r, ks, kind, false)
					}()
					mu.Lock()
					all = append(all, iss...)
					mu.Unlock()
				}
			}(ci)
		}
		wg.Wait()
		close(stop)
		bg.Wait()
		run.Observe("chaos_migrations", atomic.LoadInt64(&migrations))
		run.Observe("chaos_reassignments", atomic.LoadInt64(&reassigns))
		run.Observe("chaos_failovers", atomic.LoadInt64(&failovers))
		if tainted(run, "chaos", w, all) {
			w.close()
			continue
		}
		hm := hops(w.srv.Log())
		for _, is := range all {
			hs := hm[is.UID]
			for _, hp := range hs {
				if !hp.Execd {
					continue
				}
				// the node checks ownership when it accepts the command: at execution for a plain command, at queueing
				// time (between its reception and its QUEUED reply) for a command of a MULTI block
				owners, importing := h.acceptable(is.Slot, hp.ExecSeq)
				if hp.Reply != nil && hp.Reply.S == "QUEUED" && hp.RepSeq < hp.ExecSeq {
					owners, importing = h.acceptableBetween(is.Slot, hp.Seq, hp.RepSeq)
				}
				switch {
				case owners[hp.Node]:
					run.Observe("executed_on_owner", 1)
				case importing[hp.Node] && hp.Asking:
					run.Observe("executed_on_importing_node_under_asking", 1)
				default:
					run.Violation("executed-on-non-owner", "chaos|"+is.Kind, map[string]any{"world": w.desc, "command": is.Key, "slot": is.Slot, "executed_by": hp.Node, "at": hp.ExecSeq,
						"owners_then": sortedSet(owners), "importing_then": sortedSet(importing), "hops": hopStrings(hs)})
				}
			}
			_, errStr := resultString(is.Result)
			if errStr == rueidis.ErrDoCacheAborted.Error() {
				// the server aborted the EXEC of the cached call's internal block (the topology changed between two of its
				// commands): the documented outcome of DoCache in that case, not a routing matter
				run.Observe("docache_aborted_by_exec", 1)
			} else if errStr != "" && !strings.HasPrefix(errStr, "MOVED ") && !strings.HasPrefix(errStr, "ASK ") {
				// nothing in this workload breaks connections or withdraws slots: any other error is a command that got lost on the way
				run.Violation("unexplained-error", "chaos|"+is.Kind+"|"+firstLine(errStr), map[string]any{"world": w.desc, "command": is.Key, "error": errStr, "hops": hopStrings(hs)})
			}
			w.checkRedirectsAndFinal(run, "chaos", is, hs, nil)
			red := 0
			for _, hp := range hs {
				if k, _ := redirectOf(hp.Reply); k == "MOVED" || k == "ASK" {
					red++
				}
			}
			run.Case(fmt.Sprintf("chaos|%s|hops=%d|redirects=%d|v8=%v", is.Kind, len(hs), red, o.shards8), len(hs) > 1)
		}
		if wi < 2 {
			run.Sample(map[string]any{"part": "chaos", "world": w.desc, "commands": len(all), "migrations": migrations, "reassignments": reassigns, "failovers": failovers})
		}
		w.close()
	}
}

func TestC19(t *testing.T) {
	run := mon.Start(t, "C19", "exploration",
		"(parse) generated CLUSTER SLOTS / CLUSTER SHARDS replies for topologies of 1-12 shards x 0-3 replicas with gaps, split ranges, IP / hostname / IPv6 / empty / null / '?' endpoints, fail / loading health, tls-port, RESP2 and RESP3 shapes, compared with a reference parser, plus 6 mutated (malformed) variants each through both parsers, built directly and through the real decoder; "+
			"(static) real cluster clients over such topologies served by the fake cluster, Do / DoCache / DoMulti on 40 slots; (scripted) MOVED / ASK / TRYAGAIN / LOADING reply chains of length 1-5 and endless MOVED / ASK loops with MaxMovedRedirections 0-4 on Do / DoCache / DoMulti members; "+
			"(chaos) 8 concurrent callers while slots are live-migrated (ASK), reassigned (MOVED) and shards fail over; a case = (part, reply kind / call kind, topology features or hop and redirect counts)")
	defer run.Finish()
	run.Assume("an empty or null endpoint means the host the reply was obtained from (Redis documentation of CLUSTER SLOTS / SHARDS); '?' means unknown",
		"ASKING stays in effect for the commands of a MULTI block that follows it (Redis semantics), which is how the cached path sends a command to an importing node",
		"ownership at execution time is decided with logical-clock windows around every topology change made by the driver")
	t0 := time.Now()
	only := os.Getenv("VERIF_C19_PARTS") // debugging aid: comma separated part names
	timed := func(name string, f func(*mon.Run)) {
		if only != "" && !strings.Contains(only, name) {
			return
		}
		f(run)
		run.Extra("wall_s_"+name, time.Since(t0).Seconds())
		t0 = time.Now()
	}
	timed("parse", checkParsing)
	timed("static", partStatic)
	timed("scripted", partScripted)
	timed("askunknown", partAskUnknownNode)
	timed("chaos", partChaos)
	timed("isolated", partCrashIsolated)
	timed("reconnect", func(r *mon.Run) { partReconnectRace(r, t) })
	run.Require("wellformed_slots_compared", "wellformed_shards_compared", "mutated_replies_parsed", "first_hop_on_owner", "moved_followed", "ask_followed", "asking_preceded",
		"redirect_loops_bounded", "final_reply_checked", "final_error_checked", "executed_on_owner", "executed_on_importing_node_under_asking", "chaos_migrations", "chaos_failovers", "chaos_reassignments", "ask_unknown_later_commands_on_primary")
}
