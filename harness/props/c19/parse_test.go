package c19

import (
	"bufio"
	"bytes"
	"fmt"
	"math/rand"
	"sort"
	"strconv"
	"strings"

	"github.com/redis/rueidis"
	"verifh/drv"
	"verifh/mon"
	"verifh/resp"
)

// ---------------------------------------------------------------------------
// Topology parsing: generated CLUSTER SLOTS / CLUSTER SHARDS replies, a reference
// parser written from the property statement and the Redis documentation of the
// two commands, and a mutator for malformed replies.
//
// Reference rules:
//   * a node's address is endpoint:port; an empty / null endpoint means "the host the
//     reply was obtained from" (defaultAddr's host); endpoint "?" means unknown: the node is skipped;
//   * CLUSTER SHARDS: nodes whose health is not "online" are skipped; the port is tls-port
//     when the client uses TLS and tls-port > 0, otherwise port; the primary is the listed
//     node with role "master" that survived the filters; a shard without one is skipped;
//   * CLUSTER SLOTS: the first node of a row is the primary; a row whose primary is skipped maps nothing;
//   * every listed range of a (surviving) group maps to that group's primary; the group's
//     other surviving nodes are its replicas.
// ---------------------------------------------------------------------------

type gNode struct {
	IP       string
	Port     int64
	TLSPort  int64
	Endpoint string // literal endpoint value; "\x00null" = RESP null
	Hostname string
	Health   string
	Role     string
	ID       string
}

type gShard struct {
	Ranges [][2]int64
	Nodes  []gNode // any order; exactly one surviving master in well-formed topologies (or none on purpose)
}

type topology struct {
	Shards []gShard
	TLS    bool
	Def    string // address the reply was obtained from
}

const nullEP = "\x00null"

func splitHost(addr string) string {
	i := strings.LastIndexByte(addr, ':')
	if i < 0 {
		return addr
	}
	return strings.TrimSuffix(strings.TrimPrefix(addr[:i], "["), "]")
}

func joinHostPort(host string, port int64) string {
	if strings.IndexByte(host, ':') >= 0 {
		return "[" + host + "]:" + strconv.FormatInt(port, 10)
	}
	return host + ":" + strconv.FormatInt(port, 10)
}

// refAddr is the reference address rule; ok=false means the node has no usable endpoint.
func refAddr(def, endpoint string, port int64) (string, bool) {
	switch endpoint {
	case "?":
		return "", false
	case "", nullEP:
		return joinHostPort(splitHost(def), port), true
	}
	return joinHostPort(endpoint, port), true
}

type refGroup struct {
	Primary  string
	Replicas []string
	Ranges   [][2]int64
}

// refSlots: reference interpretation of a CLUSTER SLOTS topology (rows = shard x range).
func refSlots(t topology) map[string]*refGroup {
	out := map[string]*refGroup{}
	for _, sh := range t.Shards {
		if len(sh.Nodes) == 0 {
			continue
		}
		p, ok := refAddr(t.Def, sh.Nodes[0].Endpoint, sh.Nodes[0].Port)
		if !ok {
			continue
		}
		g := &refGroup{Primary: p}
		for _, n := range sh.Nodes[1:] {
			if a, ok := refAddr(t.Def, n.Endpoint, n.Port); ok {
				g.Replicas = append(g.Replicas, a)
			}
		}
		g.Ranges = sh.Ranges
		if len(sh.Ranges) > 0 {
			out[p] = g
		}
	}
	return out
}

func refShards(t topology) map[string]*refGroup {
	out := map[string]*refGroup{}
	for _, sh := range t.Shards {
		g := &refGroup{}
		for _, n := range sh.Nodes {
			if n.Health != "online" {
				continue
			}
			port := n.Port
			if t.TLS && n.TLSPort > 0 {
				port = n.TLSPort
			}
			a, ok := refAddr(t.Def, n.Endpoint, port)
			if !ok {
				continue
			}
			if n.Role == "master" {
				if g.Primary != "" {
					g.Replicas = append(g.Replicas, g.Primary) // never generated: two surviving masters
				}
				g.Primary = a
			} else {
				g.Replicas = append(g.Replicas, a)
			}
		}
		g.Ranges = sh.Ranges
		if g.Primary != "" && len(sh.Ranges) > 0 {
			out[g.Primary] = g
		}
	}
	return out
}

// ------------------------------------------------------------ reply construction

func nBulk(s string) rueidis.VerifNode { return rueidis.VerifNode{Typ: '$', Str: s} }
func nInt(i int64) rueidis.VerifNode   { return rueidis.VerifNode{Typ: ':', Int: i} }
func nNull() rueidis.VerifNode         { return rueidis.VerifNode{Typ: '_'} }
func nArr(typ byte, vs ...rueidis.VerifNode) rueidis.VerifNode {
	if vs == nil {
		vs = []rueidis.VerifNode{}
	}
	return rueidis.VerifNode{Typ: typ, Values: vs}
}

func epNode(ep string) rueidis.VerifNode {
	if ep == nullEP {
		return nNull()
	}
	return nBulk(ep)
}

// buildSlots renders the topology as a CLUSTER SLOTS reply (resp3: metadata as map).
func buildSlots(t topology, rng *rand.Rand, resp3 bool) rueidis.VerifNode {
	var rows []rueidis.VerifNode
	for _, sh := range t.Shards {
		for _, r := range sh.Ranges {
			row := []rueidis.VerifNode{nInt(r[0]), nInt(r[1])}
			for _, n := range sh.Nodes {
				var meta rueidis.VerifNode
				mt := byte('*')
				if resp3 {
					mt = '%'
				}
				if n.Hostname != "" {
					meta = nArr(mt, nBulk("hostname"), nBulk(n.Hostname))
				} else {
					meta = nArr(mt)
				}
				nv := []rueidis.VerifNode{epNode(n.Endpoint), nInt(n.Port), nBulk(n.ID)}
				if rng.Intn(8) > 0 { // old servers have no metadata element
					nv = append(nv, meta)
				}
				row = append(row, nArr('*', nv...))
			}
			rows = append(rows, nArr('*', row...))
		}
	}
	rng.Shuffle(len(rows), func(i, j int) { rows[i], rows[j] = rows[j], rows[i] })
	return nArr('*', rows...)
}

// buildShards renders the topology as a CLUSTER SHARDS reply (resp3: maps, otherwise flat arrays).
func buildShards(t topology, rng *rand.Rand, resp3 bool) rueidis.VerifNode {
	mt := byte('*')
	if resp3 {
		mt = '%'
	}
	var shards []rueidis.VerifNode
	for _, sh := range t.Shards {
		var sl []rueidis.VerifNode
		for _, r := range sh.Ranges {
			sl = append(sl, nInt(r[0]), nInt(r[1]))
		}
		var ns []rueidis.VerifNode
		for _, n := range sh.Nodes {
			kvs := [][2]rueidis.VerifNode{
				{nBulk("id"), nBulk(n.ID)},
				{nBulk("ip"), nBulk(n.IP)},
				{nBulk("endpoint"), epNode(n.Endpoint)},
				{nBulk("role"), nBulk(n.Role)},
				{nBulk("replication-offset"), nInt(int64(rng.Intn(100000)))},
				{nBulk("health"), nBulk(n.Health)},
			}
			if n.Port > 0 {
				kvs = append(kvs, [2]rueidis.VerifNode{nBulk("port"), nInt(n.Port)})
			}
			if n.TLSPort > 0 {
				kvs = append(kvs, [2]rueidis.VerifNode{nBulk("tls-port"), nInt(n.TLSPort)})
			}
			if n.Hostname != "" {
				kvs = append(kvs, [2]rueidis.VerifNode{nBulk("hostname"), nBulk(n.Hostname)})
			}
			rng.Shuffle(len(kvs), func(i, j int) { kvs[i], kvs[j] = kvs[j], kvs[i] })
			var flat []rueidis.VerifNode
			for _, kv := range kvs {
				flat = append(flat, kv[0], kv[1])
			}
			ns = append(ns, nArr(mt, flat...))
		}
		a, b := nBulk("slots"), nArr('*', sl...)
		c, d := nBulk("nodes"), nArr('*', ns...)
		if rng.Intn(2) == 0 {
			a, b, c, d = c, d, a, b
		}
		shards = append(shards, nArr(mt, a, b, c, d))
	}
	rng.Shuffle(len(shards), func(i, j int) { shards[i], shards[j] = shards[j], shards[i] })
	return nArr('*', shards...)
}

// ------------------------------------------------------------ topology generation

func genTopology(rng *rand.Rand, shardsCmd bool) topology {
	t := topology{TLS: rng.Intn(3) == 0}
	defs := []string{"10.9.9.9:7777", "redis-seed.example.com:6379", "[fd00::9]:7000", "127.0.0.1:30001"}
	t.Def = defs[rng.Intn(len(defs))]
	ns := 1 + rng.Intn(12)
	if rng.Intn(6) == 0 {
		ns = 1
	}
	// cut [0,16383] into pieces, some of them gaps, deal them to shards
	pieces := ns + rng.Intn(2*ns+1)
	cuts := map[int]bool{}
	for len(cuts) < pieces-1 {
		cuts[1+rng.Intn(16383)] = true
	}
	var cs []int
	for c := range cuts {
		cs = append(cs, c)
	}
	sort.Ints(cs)
	cs = append(cs, 16384)
	t.Shards = make([]gShard, ns)
	start := 0
	for i, c := range cs {
		r := [2]int64{int64(start), int64(c - 1)}
		start = c
		if rng.Intn(7) == 0 && pieces > 1 {
			continue // gap
		}
		si := i % ns
		if i >= ns {
			si = rng.Intn(ns)
		}
		t.Shards[si].Ranges = append(t.Shards[si].Ranges, r)
	}
	port := int64(7000 + rng.Intn(1000))
	id := 0
	epKinds := []string{"ip", "ip", "ip", "host", "host", "empty", "null", "q", "ip6"}
	for si := range t.Shards {
		nrep := rng.Intn(4)
		for ni := 0; ni <= nrep; ni++ {
			id++
			port++
			n := gNode{IP: fmt.Sprintf("10.%d.%d.%d", rng.Intn(200), si, ni+1), Port: port, ID: fmt.Sprintf("%040x", id), Health: "online", Role: "replica"}
			if ni == 0 {
				n.Role = "master"
			}
			kind := epKinds[rng.Intn(len(epKinds))]
			if rng.Intn(2) == 0 {
				kind = "ip"
			}
			switch kind {
			case "ip":
				n.Endpoint = n.IP
			case "host":
				n.Hostname = fmt.Sprintf("node-%d-%d.cluster.example", si, ni)
				n.Endpoint = n.Hostname
			case "empty":
				n.Endpoint = ""
			case "null":
				n.Endpoint = nullEP
			case "q":
				n.Endpoint = "?"
			case "ip6":
				n.Endpoint = fmt.Sprintf("fd00::%x:%x", si+1, ni+1)
			}
			if shardsCmd {
				if t.TLS || rng.Intn(4) == 0 {
					n.TLSPort = port + 10000
					if rng.Intn(4) == 0 {
						n.Port = 0 // TLS-only node
						if !t.TLS {
							n.Port = port
						}
					}
				}
				switch rng.Intn(12) {
				case 0:
					n.Health = "fail"
				case 1:
					n.Health = "loading"
				}
			}
			t.Shards[si].Nodes = append(t.Shards[si].Nodes, n)
		}
		if shardsCmd {
			sh := &t.Shards[si]
			if rng.Intn(10) == 0 { // a failed former master next to the promoted one
				id++
				port++
				sh.Nodes = append(sh.Nodes, gNode{IP: "10.250.0.1", Endpoint: "10.250.0.1", Port: port, ID: fmt.Sprintf("%040x", id), Health: "fail", Role: "master"})
			}
			rng.Shuffle(len(sh.Nodes), func(i, j int) { sh.Nodes[i], sh.Nodes[j] = sh.Nodes[j], sh.Nodes[i] })
		}
	}
	return t
}

// --------------------------------------------------------------- comparison

func coverage(groups map[string][][2]int64, idx map[string]int16) (cov [16384]int16, bad string) {
	for p, rs := range groups {
		id, ok := idx[p]
		if !ok {
			id = int16(len(idx) + 1)
			idx[p] = id
		}
		for _, r := range rs {
			for i := r[0]; i <= r[1] && i >= 0 && i < 16384; i++ {
				if cov[i] != 0 && cov[i] != id {
					bad = fmt.Sprintf("slot %d mapped to two primaries, one of them %s", i, p)
				}
				cov[i] = id
			}
		}
	}
	return
}

func sortedCopy(s []string) []string {
	c := append([]string{}, s...)
	sort.Strings(c)
	return c
}

// compareGroups returns "" when got realises exactly the reference mapping.
func compareGroups(got map[string]rueidis.VerifGroup, want map[string]*refGroup) string {
	gr := map[string][][2]int64{}
	for p, g := range got {
		if len(g.Nodes) == 0 || g.Nodes[0] != p {
			return fmt.Sprintf("group keyed %q does not start with its primary: %v", p, g.Nodes)
		}
		if len(g.Slots) > 0 {
			gr[p] = g.Slots
		}
	}
	wr := map[string][][2]int64{}
	for p, g := range want {
		wr[p] = g.Ranges
	}
	idx := map[string]int16{}
	gc, bad := coverage(gr, idx)
	if bad != "" {
		return bad
	}
	wc, _ := coverage(wr, idx)
	if gc != wc {
		name := func(id int16) string {
			for p, x := range idx {
				if x == id {
					return p
				}
			}
			return ""
		}
		for i := range gc {
			if gc[i] != wc[i] {
				return fmt.Sprintf("slot %d: parsed primary %q, reference %q", i, name(gc[i]), name(wc[i]))
			}
		}
	}
	for p, g := range want {
		gg, ok := got[p]
		if !ok {
			return fmt.Sprintf("group of primary %s missing", p)
		}
		a, b := sortedCopy(gg.Nodes[1:]), sortedCopy(g.Replicas)
		if strings.Join(a, ",") != strings.Join(b, ",") {
			return fmt.Sprintf("replicas of %s: parsed %v, reference %v", p, a, b)
		}
	}
	return ""
}

// ----------------------------------------------------------------- mutation

func randomScalar(rng *rand.Rand) rueidis.VerifNode {
	switch rng.Intn(12) {
	case 0:
		return nNull()
	case 1:
		return nInt(int64(rng.Intn(70000)) - 20000)
	case 2:
		return nInt([]int64{-1, 0, 16383, 16384, 1 << 40, -(1 << 40), 9223372036854775807, -9223372036854775808}[rng.Intn(8)])
	case 3:
		return nBulk("")
	case 4:
		return nBulk([]string{"?", "master", "replica", "online", "fail", "slots", "nodes", "port", "tls-port", "endpoint", "health", "role", ":", "[::1]", "a:b:c", "host:1:2"}[rng.Intn(16)])
	case 5:
		return rueidis.VerifNode{Typ: '+', Str: "OK"}
	case 6:
		return rueidis.VerifNode{Typ: '-', Str: "ERR injected"}
	case 7:
		return rueidis.VerifNode{Typ: '#', Int: int64(rng.Intn(2))}
	case 8:
		return rueidis.VerifNode{Typ: ',', Str: "3.5"}
	case 9:
		return nArr([]byte{'*', '%', '~'}[rng.Intn(3)])
	case 10:
		return nArr([]byte{'*', '%', '~'}[rng.Intn(3)], nBulk("k"))
	default:
		return nArr('*', nArr('*', nInt(1)), nNull(), nBulk("x"))
	}
}

func clone(n rueidis.VerifNode) rueidis.VerifNode {
	c := n
	if n.Values != nil {
		c.Values = make([]rueidis.VerifNode, len(n.Values))
		for i := range n.Values {
			c.Values[i] = clone(n.Values[i])
		}
	}
	return c
}

// collect returns pointers to every node of the tree.
func collect(n *rueidis.VerifNode, out *[]*rueidis.VerifNode) {
	*out = append(*out, n)
	for i := range n.Values {
		collect(&n.Values[i], out)
	}
}

func mutate(rng *rand.Rand, tree rueidis.VerifNode) (rueidis.VerifNode, []string) {
	t := clone(tree)
	var ops []string
	for k := 1 + rng.Intn(4); k > 0; k-- {
		var all []*rueidis.VerifNode
		collect(&t, &all)
		n := all[rng.Intn(len(all))]
		switch op := rng.Intn(10); op {
		case 0, 1:
			*n = randomScalar(rng)
			ops = append(ops, "replace-subtree")
		case 2:
			if len(n.Values) > 0 {
				n.Values = n.Values[:rng.Intn(len(n.Values))]
				ops = append(ops, "truncate")
			}
		case 3:
			if len(n.Values) > 0 {
				i := rng.Intn(len(n.Values))
				n.Values = append(n.Values[:i], n.Values[i+1:]...)
				ops = append(ops, "drop-element")
			}
		case 4:
			if len(n.Values) > 0 {
				i := rng.Intn(len(n.Values))
				n.Values = append(n.Values, clone(n.Values[i]))
				ops = append(ops, "duplicate-element")
			}
		case 5:
			if n.Values != nil {
				n.Typ = []byte{'*', '%', '~', '>'}[rng.Intn(4)]
				ops = append(ops, "retype-aggregate")
			}
		case 6:
			if n.Typ == ':' {
				*n = nBulk(strconv.FormatInt(n.Int, 10))
				ops = append(ops, "int-as-string")
			} else if n.Typ == '$' {
				*n = nInt(int64(len(n.Str)))
				ops = append(ops, "string-as-int")
			}
		case 7:
			if n.Typ == ':' {
				n.Int = []int64{-1, -16384, 16384, 1 << 33, -(1 << 62), n.Int + 20000, n.Int - 20000}[rng.Intn(7)]
				ops = append(ops, "int-out-of-range")
			}
		case 8:
			if len(n.Values) > 1 {
				i, j := rng.Intn(len(n.Values)), rng.Intn(len(n.Values))
				n.Values[i], n.Values[j] = n.Values[j], n.Values[i]
				ops = append(ops, "swap-elements")
			}
		case 9:
			if n.Typ == '$' {
				n.Str = []string{"", "?", "fail", "master", strings.Repeat("h", 300), "a b", "\r\n", "[", "]:1"}[rng.Intn(9)]
				ops = append(ops, "string-value")
			}
		}
	}
	return t, ops
}

// toV converts a VerifNode tree into a wire value (to go through the real decoder).
func toV(n rueidis.VerifNode) resp.V {
	switch n.Typ {
	case '*', '%', '~', '>':
		v := resp.V{T: n.Typ, A: make([]resp.V, len(n.Values))}
		for i, e := range n.Values {
			v.A[i] = toV(e)
		}
		if n.Typ == '%' && len(v.A)%2 == 1 {
			v.T = '*' // an odd map cannot be put on the wire
		}
		return v
	case ':', '#':
		return resp.V{T: n.Typ, I: n.Int}
	case '_':
		return resp.Null()
	}
	s := n.Str
	if n.Typ != '$' {
		s = strings.NewReplacer("\r", "_", "\n", "_").Replace(s)
	}
	return resp.V{T: n.Typ, S: s}
}

func viaWire(n rueidis.VerifNode) (rueidis.RedisMessage, error) {
	b := resp.Encode(nil, toV(n))
	return rueidis.VerifReadNextMessage(bufio.NewReader(bytes.NewReader(b)))
}

// ---------------------------------------------------------------- the check

func safeParse(shardsCmd bool, m rueidis.RedisMessage, def string, tls bool) (g map[string]rueidis.VerifGroup, pnc any) {
	defer func() { pnc = recover() }()
	if shardsCmd {
		return rueidis.VerifParseShards(m, def, tls), nil
	}
	return rueidis.VerifParseSlots(m, def), nil
}

func topoSummary(t topology) map[string]any {
	var sh []string
	for _, s := range t.Shards {
		var ns []string
		for _, n := range s.Nodes {
			ep := n.Endpoint
			if ep == nullEP {
				ep = "<null>"
			}
			ns = append(ns, fmt.Sprintf("%s ep=%q port=%d tls=%d %s", n.Role, ep, n.Port, n.TLSPort, n.Health))
		}
		sh = append(sh, fmt.Sprintf("ranges=%v nodes=[%s]", s.Ranges, strings.Join(ns, "; ")))
	}
	return map[string]any{"tls": t.TLS, "default_addr": t.Def, "shards": sh}
}

func checkParsing(run *mon.Run) {
	rng := run.Rand("parse")
	n := scale(run.N(2500, 100000))
	for i := 0; i < n; i++ {
		shardsCmd := i%2 == 1
		resp3 := rng.Intn(2) == 0
		t := genTopology(rng, shardsCmd)
		var tree rueidis.VerifNode
		var want map[string]*refGroup
		name := "SLOTS"
		if shardsCmd {
			tree, want, name = buildShards(t, rng, resp3), refShards(t), "SHARDS"
		} else {
			tree, want = buildSlots(t, rng, resp3), refSlots(t)
		}
		// well-formed: through VerifBuild and through the real decoder
		for pass, how := range []string{"built", "decoded"} {
			var m rueidis.RedisMessage
			if pass == 0 {
				m = rueidis.VerifBuild(tree)
			} else {
				var err error
				if m, err = viaWire(tree); err != nil {
					run.Inconclusive("generated reply did not decode: " + err.Error())
					continue
				}
			}
			got, pnc := safeParse(shardsCmd, m, t.Def, t.TLS)
			if pnc != nil {
				run.Violation("parse-panic", name+"|well-formed", map[string]any{"topology": topoSummary(t), "panic": fmt.Sprint(pnc), "how": how})
				continue
			}
			if diff := compareGroups(got, want); diff != "" {
				run.Violation("parse-differs-from-reference", name+"|"+diffClass(diff, t), map[string]any{"topology": topoSummary(t), "diff": diff, "how": how, "resp3": resp3, "parsed": fmt.Sprint(got)})
			}
			run.Observe("wellformed_"+strings.ToLower(name)+"_compared", 1)
		}
		feats := features(t, shardsCmd)
		run.Case(fmt.Sprintf("parse|%s|resp3=%v|%s", name, resp3, feats), len(t.Shards) > 1 || strings.Contains(feats, "q") || strings.Contains(feats, "fail"))
		if i < 2 {
			run.Sample(map[string]any{"kind": "parse", "reply": name, "topology": topoSummary(t), "reference": fmt.Sprint(len(want)) + " groups"})
		}
		// malformed: mutate, both parsers, both construction paths
		for k := 0; k < 6; k++ {
			mt, ops := mutate(rng, tree)
			for _, sc := range []bool{false, true} {
				pn := "SLOTS"
				if sc {
					pn = "SHARDS"
				}
				if _, pnc := safeParse(sc, rueidis.VerifBuild(mt), t.Def, t.TLS); pnc != nil {
					run.Violation("parse-panic", pn+"-parser|mutated|"+firstLine(fmt.Sprint(pnc)), map[string]any{"base_reply": name, "mutations": ops, "panic": fmt.Sprint(pnc), "tree": trunc(drv.NodeString(mt), 3000)})
				}
				if m, err := viaWire(mt); err == nil {
					if _, pnc := safeParse(sc, m, t.Def, t.TLS); pnc != nil {
						run.Violation("parse-panic", pn+"-parser|mutated-decoded|"+firstLine(fmt.Sprint(pnc)), map[string]any{"base_reply": name, "mutations": ops, "panic": fmt.Sprint(pnc), "tree": trunc(drv.NodeString(mt), 3000)})
					}
				}
				run.Observe("mutated_replies_parsed", 2)
			}
		}
		run.Evals(6)
	}
}

func diffClass(diff string, t topology) string {
	switch {
	case strings.HasPrefix(diff, "replicas of"):
		return "replica-set"
	case strings.HasPrefix(diff, "slot "):
		return "slot-owner"
	case strings.HasPrefix(diff, "group of primary"):
		return "group-missing"
	}
	return "other"
}

func features(t topology, shardsCmd bool) string {
	f := map[string]bool{}
	gaps := 0
	covered := 0
	for _, s := range t.Shards {
		if len(s.Ranges) > 1 {
			f["split"] = true
		}
		if len(s.Ranges) == 0 {
			f["empty-shard"] = true
		}
		for _, r := range s.Ranges {
			covered += int(r[1]-r[0]) + 1
		}
		for _, n := range s.Nodes {
			switch n.Endpoint {
			case "?":
				f["q-"+n.Role] = true
			case "", nullEP:
				f["empty-ep"] = true
			}
			if n.Hostname != "" {
				f["host"] = true
			}
			if n.Health != "online" {
				f["fail-"+n.Role] = true
			}
			if n.TLSPort > 0 && t.TLS {
				f["tlsport"] = true
			}
		}
		if len(s.Nodes) > 1 {
			f["replicas"] = true
		}
	}
	if covered < 16384 {
		gaps = 1
		f["gaps"] = true
	}
	_ = gaps
	var ks []string
	for k := range f {
		ks = append(ks, k)
	}
	sort.Strings(ks)
	return fmt.Sprintf("shards=%d|%s", len(t.Shards), strings.Join(ks, ","))
}

func firstLine(s string) string {
	if i := strings.IndexByte(s, '\n'); i >= 0 {
		s = s[:i]
	}
	if len(s) > 90 {
		s = s[:90]
	}
	return s
}

func trunc(s string, n int) string {
	if len(s) > n {
		return s[:n] + "..."
	}
	return s
}
