package c19

import (
	"context"
	"fmt"
	"strings"
	"testing"
	"time"

	"github.com/redis/rueidis"
	"verifh/drv"
	"verifh/fakeredis"
	"verifh/mon"
)

// A MOVED reply that names the address of the connection the call started on makes the cluster client replace that
// connection and close the old one five seconds later. The scenario below (virtual time) lets a topology refresh run
// across that replacement: the refresh has taken its snapshot of the connection table before the replacement and
// installs it afterwards. Property at stake: commands of the node's slots still reach the node (routing) and the
// final reply is returned, after the redirect as before it.
//
// timeline (virtual seconds): 0 a replica's connection is dropped, its re-dial (done by the refresh to read the
// availability zone) is slow; 2 a command of node A's slot is answered MOVED->B by A and MOVED->A by B; ~4 the refresh
// completes; 7 the old connection of A is closed; 10, 30, 90: commands for A's slots.
func partReconnectRace(run *mon.Run, t *testing.T) {
	type obs struct {
		at     string
		result string
		hops   []string
	}
	var observed []obs
	var setupErr string
	dl, stacks := drv.Bubble(t, func() {
		A, B, A2, B2 := "10.0.0.1:7000", "10.0.0.2:7000", "10.0.0.3:7000", "10.0.0.4:7000"
		s := fakeredis.New(fakeredis.Options{LogReplies: true}, A, B)
		s.AddNode(A2, "slave", s.Node(A))
		s.AddNode(B2, "slave", s.Node(B))
		s.EnableCluster()
		opt := drv.Option(s, A)
		opt.EnableReplicaAZInfo = true
		opt.SendToReplicas = func(rueidis.Completed) bool { return false }
		c, err := rueidis.NewClient(opt)
		if err != nil {
			setupErr = err.Error()
			s.Close()
			return
		}
		// a key of a slot owned by A
		key := ""
		for i := 0; key == ""; i++ {
			k := fmt.Sprintf("{r%d}k", i)
			if s.SlotOwner(fakeredis.Slot(k)) == A {
				key = k
			}
		}
		slot := fakeredis.Slot(key)
		call := func(at string) {
			uid, _ := newUID()
			from := s.LogLen()
			done := make(chan rueidis.RedisResult, 1)
			go func() {
				// a (virtual) deadline bounds the client's retry loop; nothing in the scenario is slower than 4 s
				ctx, cancel := context.WithTimeout(context.Background(), 20*time.Second)
				defer cancel()
				done <- c.Do(ctx, c.B().Arbitrary("VERIF.ECHO").Keys(key).Args(uid, "str").ReadOnly())
			}()
			var res string
			select {
			case r := <-done:
				v, e := resultString(r)
				res = v + e
				if v != "echo:"+uid {
					res += " (expected echo:" + uid + ")"
				}
			case <-time.After(60 * time.Second):
				res = "no result after 60 virtual seconds"
			}
			observed = append(observed, obs{at, res, hopStrings(hops(s.Log()[from:])[uid])})
		}
		call("t=-1 before anything")
		// the refresh that the dropped connection triggers re-dials B2 to read its availability zone: make that slow
		s.Plan(&fakeredis.Rule{Name: "slow-hello", Match: func(cn *fakeredis.Conn, a []string) bool {
			return cn.NodeAddr() == B2 && strings.EqualFold(a[0], "HELLO")
		}, Times: 1, Action: fakeredis.Action{DelayReply: 4 * time.Second}})
		s.KillAll(B2)
		time.Sleep(2 * time.Second)
		// the redirect chain A -> B -> A for one command
		uidMatch := func(node string) func(cn *fakeredis.Conn, a []string) bool {
			return func(cn *fakeredis.Conn, a []string) bool { return cn.NodeAddr() == node && uidOf(a) != "" }
		}
		s.Plan(&fakeredis.Rule{Name: "A-says-B", Match: uidMatch(A), Times: 1, Action: fakeredis.Action{Reply: errp(fmt.Sprintf("MOVED %d %s", slot, B))}})
		call("t=2 answered MOVED->B by A, MOVED->A by B") // B answers the genuine MOVED back to A
		time.Sleep(8 * time.Second)
		call("t=10")
		time.Sleep(20 * time.Second)
		call("t=30")
		time.Sleep(60 * time.Second)
		call("t=90")
		c.Close()
		time.Sleep(10 * time.Second) // delayed refreshes (<= 1 s) and delayed connection closes (5 s) end by themselves
		s.Close()
	})
	if setupErr != "" {
		run.Inconclusive("reconnect scenario: client setup failed: " + setupErr)
		return
	}
	if dl != "" {
		run.Violation("hang-or-leak", "reconnect|same-address-MOVED-during-refresh", map[string]any{"synctest": dl, "rueidis_frames": drv.RueidisFrames(stacks), "stacks": drv.Tail(stacks, 6000)})
		return
	}
	var hist []string
	bad := ""
	for _, o := range observed {
		hist = append(hist, fmt.Sprintf("%s: result=%s hops=%v", o.at, o.result, o.hops))
		if strings.Contains(o.result, "expected") || strings.Contains(o.result, "no result") {
			if bad == "" {
				bad = o.at
			}
		}
	}
	run.Observe("reconnect_scenario_calls", int64(len(observed)))
	run.Case("reconnect|same-address-MOVED-during-refresh", true)
	if bad != "" {
		run.Violation("node-unreachable-after-same-address-redirect", "reconnect|same-address-MOVED-during-refresh", map[string]any{"history": hist, "first_failure": bad,
			"what": "a command of a slot served by a healthy, reachable primary is not delivered / does not return its reply after the client replaced that node's connection while a topology refresh was in flight"})
	}
}
