// Package c37 drives rueidisprob's sliding-window Bloom filter (real Lua scripts on fakeredis + minilua) in virtual
// time: every item successfully added at t must be reported present by every probe in [t, t+window/2].
package c37

import (
	"context"
	"fmt"
	"math"
	"math/rand"
	"sort"
	"strconv"
	"strings"
	"sync"
	"testing"
	"time"

	"github.com/redis/rueidis"
	"github.com/redis/rueidis/rueidisprob"
	"verifh/drv"
	"verifh/fakeredis"
	"verifh/mon"
	"verifh/resp"
)

const addr = "127.0.0.1:6379"

type cfg struct {
	n      uint
	rate   float64
	window time.Duration
	ro     bool
}

func rateStr(r float64) string { return strconv.FormatFloat(r, 'g', -1, 64) }
func (c cfg) base() string     { return fmt.Sprintf("n=%d rate=%s", c.n, rateStr(c.rate)) }
func (c cfg) String() string {
	return fmt.Sprintf("n=%d rate=%s window=%v ro=%v", c.n, rateStr(c.rate), c.window, c.ro)
}

func predictedBits(n uint, r float64) float64 {
	return math.Ceil(-float64(n) * math.Log(r) / (math.Ln2 * math.Ln2))
}

// event of a scenario: at offset At (whole milliseconds after the constructor call) add Add fresh items and/or probe.
type event struct {
	At    time.Duration
	Add   int
	Probe bool
}

// scenario builds the timeline for a filter whose rotation lock lasts h (= the filter's windowHalfMs).
func scenario(kind int, h time.Duration, rng *rand.Rand) (string, []event) {
	ms := time.Millisecond
	switch kind {
	case 6:
		// adds 1 ms before the instants at which a filter that derived a SHORTER lock period p from the window would rotate
		// (window or half-window truncated to whole seconds / tenths, half of it, two thirds), probes right after those
		// instants and at each item's deadline
		var cands []time.Duration
		for _, p := range []time.Duration{(2 * h).Truncate(time.Second) / 2, h.Truncate(time.Second), h.Truncate(100 * ms), h / 2, 2 * h / 3, h - ms} {
			if p >= 2*ms && p < h {
				cands = append(cands, p)
			}
		}
		if len(cands) == 0 {
			cands = []time.Duration{h / 2}
		}
		p := cands[rng.Intn(len(cands))]
		if (2*h).Truncate(time.Second)/2 < h && (2*h).Truncate(time.Second) > 0 && rng.Intn(2) == 0 {
			p = (2 * h).Truncate(time.Second) / 2
		}
		var ev []event
		for j := time.Duration(1); j <= 5; j++ {
			ev = append(ev, event{At: j*p - ms, Add: 1}, event{At: j * p, Probe: true}, event{At: j*p + ms, Probe: true}, event{At: j*p - ms + h, Probe: true})
		}
		sort.SliceStable(ev, func(i, j int) bool { return ev[i].At < ev[j].At })
		return "adds-before-shorter-period-instants", ev
	case 0: // rotation immediately after the add: the lock taken by the constructor runs out 1 ms after t
		return "rotation-immediately-after-add", []event{
			{At: h - ms, Add: 1}, {At: h - ms, Probe: true}, {At: h, Probe: true}, {At: h + ms, Probe: true}, {At: h + h/4, Add: 2}, {At: h + h/2, Probe: true},
			{At: 2*h - 2*ms, Probe: true}, {At: 2*h - ms, Probe: true}, {At: 2*h - ms, Add: 1}, {At: 2 * h, Probe: true}, {At: 3*h - ms, Probe: true},
		}
	case 1: // rotation mid-way, triggered by an unrelated add
		return "rotation-mid-way", []event{
			{At: h / 2, Add: 1}, {At: h/2 + ms, Probe: true}, {At: h, Add: 1}, {At: h, Probe: true}, {At: h + h/4, Probe: true}, {At: h + h/2 - ms, Probe: true}, {At: h + h/2, Probe: true},
			{At: 2 * h, Add: 1}, {At: 2*h + h/2, Probe: true}, {At: 3 * h, Probe: true},
		}
	case 2: // rotation late: the add comes right after a rotation, the next one falls 1 ms before t + h
		return "rotation-late", []event{
			{At: ms, Add: 1}, {At: h - ms, Probe: true}, {At: h, Probe: true}, {At: h + ms, Probe: true}, {At: h + 2*ms, Add: 1}, {At: 2*h + ms, Probe: true}, {At: 2*h + 2*ms, Probe: true},
		}
	case 3: // nothing touches the filter between the add and the last admissible probe
		return "idle-until-deadline", []event{
			{At: h / 3, Add: 2}, {At: h/3 + h, Probe: true}, {At: h/3 + h, Add: 1}, {At: h/3 + 2*h, Probe: true}, {At: 4 * h, Add: 1}, {At: 5 * h, Probe: true},
		}
	case 4: // a steady stream of adds, every one followed by a probe of everything still due
		var ev []event
		for at := time.Duration(0); at <= 3*h+h/2; at += (h/7/ms + 1) * ms {
			ev = append(ev, event{At: at, Add: 1, Probe: true})
		}
		return "steady-stream", ev
	default:
		var ev []event
		n := 25 + rng.Intn(15)
		for i := 0; i < n; i++ {
			at := time.Duration(rng.Int63n(int64(4*h/ms))) * ms
			if rng.Intn(4) == 0 { // near a multiple of the lock period
				at = time.Duration(1+rng.Intn(3))*h + time.Duration(rng.Intn(5)-2)*ms
			}
			ev = append(ev, event{At: at, Add: rng.Intn(3), Probe: rng.Intn(3) > 0})
		}
		sort.SliceStable(ev, func(i, j int) bool { return ev[i].At < ev[j].At })
		return "random", ev
	}
}

type tap struct {
	mu        sync.Mutex
	addK      string
	rotations []time.Time
	roEvals   int64
	bfRO      int64
	scriptRun int64
}

func (tp *tap) hook(e fakeredis.Event) {
	tp.mu.Lock()
	defer tp.mu.Unlock()
	switch e.Kind {
	case "recv":
		if len(e.Argv) < 3 {
			return
		}
		cmd := strings.ToUpper(e.Argv[0])
		if !strings.HasPrefix(cmd, "EVAL") {
			return
		}
		if strings.HasSuffix(cmd, "_RO") {
			tp.roEvals++
		}
		// add / exists scripts: 5 keys, ARGV = hashIterations, windowHalfMs, indexes...
		if nk, err := strconv.Atoi(e.Argv[2]); err == nil && nk == 5 && len(e.Argv) >= 3+nk+2 {
			tp.addK = e.Argv[3+nk]
		}
	case "script":
		tp.scriptRun++
	case "exec":
		if e.Note != "script" || len(e.Argv) < 3 {
			return
		}
		switch strings.ToUpper(e.Argv[0]) {
		case "RENAME":
			if strings.HasSuffix(e.Argv[1], ":n") { // the next filter becomes the current one: one rotation
				tp.rotations = append(tp.rotations, time.Now())
			}
		case "BITFIELD_RO":
			tp.bfRO++
		}
	}
}

var refusals = []string{"OOM command not allowed when used memory > 'maxmemory'.", "READONLY You can't write against a read only replica.",
	"WRONGTYPE Operation against a key holding the wrong kind of value", "ERR Error running script (call to f_0): @user_script:20: -MISCONF Redis is configured to save RDB snapshots"}

type tracked struct {
	key string
	at  time.Time
}

type driver struct {
	run *mon.Run
	rng *rand.Rand
	seq int
}

func (d *driver) fresh() string {
	d.seq++
	switch d.rng.Intn(8) {
	case 0:
		b := make([]byte, 1+d.rng.Intn(24))
		d.rng.Read(b)
		return fmt.Sprintf("m%d:", d.seq) + string(b)
	case 1:
		return fmt.Sprintf("m%d:héllo 世界 \x00\r\n", d.seq)
	default:
		return fmt.Sprintf("m%d", d.seq)
	}
}

type step struct {
	AtMs   int64    `json:"at_ms"`
	Op     string   `json:"op"`
	Keys   []string `json:"keys,omitempty"`
	Answer string   `json:"answer,omitempty"`
}

// play runs one scenario in one bubble. It returns the number of hash functions seen on the wire and whether the history completed.
func (d *driver) play(t *testing.T, c cfg, kind int) (k string, done bool) {
	run := d.run
	var name string
	dl, stacks := drv.Bubble(t, func() {
		srv := fakeredis.New(fakeredis.Options{NoLog: true, Seed: run.Seed}, addr)
		defer srv.Close()
		tp := &tap{}
		srv.OnEvent = tp.hook
		opt := drv.Option(srv, addr)
		opt.DisableCache = true
		opt.Dialer.KeepAlive = -1 // no background PING every virtual second
		client, err := rueidis.NewClient(opt)
		if err != nil {
			run.Inconclusive("client: " + err.Error())
			return
		}
		defer client.Close()
		var opts []rueidisprob.SlidingBloomFilterOptionFunc
		if c.ro {
			opts = append(opts, rueidisprob.WithReadOnlyExists(true))
		}
		t0 := time.Now()
		var bf rueidisprob.BloomFilter
		func() {
			defer func() {
				if p := recover(); p != nil {
					run.Violation("panic", c.base()+" constructor", map[string]any{"config": c.String(), "panic": fmt.Sprint(p)})
				}
			}()
			bf, err = rueidisprob.NewSlidingBloomFilter(client, "c37", c.n, c.rate, c.window, opts...)
		}()
		if bf == nil || err != nil {
			if err != nil {
				run.Inconclusive("constructor (accepted in the dry run) failed on the server: " + err.Error())
			}
			return
		}
		h := time.Duration(c.window.Milliseconds()/2) * time.Millisecond // the lock period the filter announces to its scripts
		var evs []event
		name, evs = scenario(kind, h, d.rng)
		ctx := context.Background()
		var items []tracked
		var hist []step
		note := func(op string, keys []string, ans string) {
			qs := make([]string, 0, len(keys))
			for i, x := range keys {
				if i == 8 {
					qs = append(qs, "…")
					break
				}
				qs = append(qs, strconv.Quote(x))
			}
			hist = append(hist, step{AtMs: time.Since(t0).Milliseconds(), Op: op, Keys: qs, Answer: ans})
			if len(hist) > 16 {
				hist = hist[len(hist)-16:]
			}
		}
		shape := ""
		key := func() string {
			if k == "0" || name == "" {
				return fmt.Sprintf("%s hashes=%s%s", c.base(), k, shape)
			}
			return fmt.Sprintf("%s hashes=%s window=%v timeline=%s%s", c.base(), k, c.window, name, shape)
		}
		fail := func(op string, err error) {
			run.Inconclusive(fmt.Sprintf("%s returned an error (unsupported by the fake server or outside the property): %v", op, err))
			run.Observe("op_errors", 1)
		}
		guard := func(op string, f func()) (panicked bool) {
			defer func() {
				if p := recover(); p != nil {
					panicked = true
					run.Violation("panic", key()+" op="+op, map[string]any{"config": c.String(), "panic": fmt.Sprint(p), "history": hist})
				}
			}()
			f()
			return false
		}
		rotationsBetween := func(a, b time.Time) []time.Time {
			tp.mu.Lock()
			defer tp.mu.Unlock()
			var out []time.Time
			for _, r := range tp.rotations {
				if r.After(a) && !r.After(b) {
					out = append(out, r)
				}
			}
			return out
		}
		for _, ev := range evs {
			shape = ""
			if wait := time.Until(t0.Add(ev.At)); wait > 0 {
				time.Sleep(wait)
			}
			if ev.Add > 0 {
				keys := make([]string, ev.Add)
				for i := range keys {
					keys[i] = d.fresh()
				}
				before := time.Now()
				var err error
				op := "Add"
				var rule *fakeredis.Rule
				refused := ""
				if d.rng.Intn(8) == 0 { // the server answers this add script with an error reply instead of running it
					refused = refusals[d.rng.Intn(len(refusals))]
					v := resp.Err(refused)
					rule = srv.Plan(&fakeredis.Rule{Name: "refuse-add", Times: 1, Action: fakeredis.Action{Reply: &v},
						Match: func(_ *fakeredis.Conn, a []string) bool {
							return len(a) > 10 && strings.HasPrefix(strings.ToUpper(a[0]), "EVAL") && a[2] == "5"
						}})
				}
				if guard(op, func() {
					if len(keys) == 1 {
						err = bf.Add(ctx, keys[0])
					} else {
						op = "AddMulti"
						err = bf.AddMulti(ctx, keys)
					}
				}) {
					return
				}
				fired := rule != nil && srv.RuleFired(rule) > 0
				srv.ClearPlan()
				if err != nil && fired { // refused and reported: nothing was added
					note(op, keys, "refused: "+err.Error())
					run.Observe("adds_refused_by_server_and_reported", 1)
					if !ev.Probe {
						continue
					}
					keys = nil
				} else if err != nil {
					fail(op, err)
					return
				} else if rule != nil && !fired {
					run.Inconclusive("the fault rule for the add script did not fire")
					return
				}
				if fired && err == nil {
					// error reply from the server, success reported to the caller: the items now count as added and must be present
					run.Observe("adds_refused_by_server_but_reported_successful", 1)
					shape = " add-answered-with-error-reply=" + strings.SplitN(refused, " ", 2)[0]
					note("(server replied)", nil, refused)
					ev.Probe = true
				}
				if !time.Now().Equal(before) {
					run.Inconclusive("virtual time advanced during a call")
					return
				}
				if len(keys) > 0 {
					note(op, keys, "ok")
					run.Observe("adds", 1)
				}
				for _, x := range keys {
					items = append(items, tracked{x, before})
				}
				tp.mu.Lock()
				k = tp.addK
				tp.mu.Unlock()
			}
			if !ev.Probe {
				continue
			}
			now := time.Now()
			var due []tracked
			for _, it := range items {
				if now.Sub(it.at) <= c.window/2 {
					due = append(due, it)
				}
			}
			limit := 16
			if kv, err := strconv.Atoi(k); err == nil && kv > 0 && 1500/kv < limit {
				limit = max(1, 1500/kv)
			}
			if len(due) > limit { // the oldest (closest to their deadline) and the newest
				old := (limit + 1) / 2
				due = append(append([]tracked(nil), due[:old]...), due[len(due)-(limit-old):]...)
			}
			keys := make([]string, 0, len(due)+1)
			for _, it := range due {
				keys = append(keys, it.key)
			}
			absentAt := -1
			if d.rng.Intn(2) == 0 || len(keys) == 0 {
				absentAt = d.rng.Intn(len(keys) + 1)
				keys = append(keys[:absentAt], append([]string{fmt.Sprintf("absent%d", d.seq)}, keys[absentAt:]...)...)
				d.seq++
			}
			var res []bool
			var err error
			op := "ExistsMulti"
			if guard(op, func() {
				if len(keys) == 1 {
					op = "Exists"
					var b bool
					b, err = bf.Exists(ctx, keys[0])
					res = []bool{b}
				} else {
					res, err = bf.ExistsMulti(ctx, keys)
				}
			}) {
				return
			}
			if err != nil {
				fail(op, err)
				return
			}
			note(op, keys, fmt.Sprint(res))
			if len(res) != len(keys) {
				run.Violation("misaligned-answers", key()+" "+op, map[string]any{"config": c.String(), "scenario": name, "answers": res, "history": hist})
				return
			}
			for i, x := range keys {
				if i == absentAt {
					if res[i] {
						run.Observe("false_positives", 1)
					} else {
						run.Observe("true_negatives", 1)
					}
					continue
				}
				j := i
				if absentAt >= 0 && i > absentAt {
					j = i - 1
				}
				it := due[j]
				age := now.Sub(it.at)
				rots := rotationsBetween(it.at, now)
				where := "no-rotation"
				if len(rots) > 0 {
					switch off := rots[0].Sub(it.at); {
					case off <= 2*time.Millisecond:
						where = "rotation-immediately-after-add"
					case off >= h-2*time.Millisecond:
						where = "rotation-late"
					case off >= h/4 && off <= 3*h/4:
						where = "rotation-mid-way"
					default:
						where = "rotation-elsewhere"
					}
					run.Observe("checks_with_"+where, 1)
				}
				atDeadline := age == c.window/2 || (c.window/2-age) < time.Millisecond
				if atDeadline {
					run.Observe("checks_at_the_deadline", 1)
				}
				run.Observe("due_answers_checked", 1)
				run.Case(fmt.Sprintf("%s window=%v ro=%v k=%s %s %s age=%d/8 deadline=%v n=%d", c.base(), c.window, c.ro, k, name, where, int(8*age/(c.window/2+1)), atDeadline, min(len(keys), 4)), len(rots) > 0 || age > 0)
				if !res[i] {
					run.Violation("false-negative", key(), map[string]any{"config": c.String(), "scenario": name, "key": strconv.Quote(x), "added_at_ms": it.at.Sub(t0).Milliseconds(), "probed_at_ms": now.Sub(t0).Milliseconds(),
						"age_ms": age.Milliseconds(), "half_window_ms": (c.window / 2).Milliseconds(), "rotations_between_ms": msList(rots, t0), "position": i, "answers": res, "history": hist})
					return
				}
			}
		}
		done = true
		tp.mu.Lock()
		run.Observe("rotations_observed", int64(len(tp.rotations)))
		run.Observe("script_runs", tp.scriptRun)
		run.Observe("bitfield_ro_in_scripts", tp.bfRO)
		tp.mu.Unlock()
	})
	if dl != "" {
		run.Inconclusive("bubble ended with blocked goroutines: " + fmt.Sprint(drv.RueidisFrames(stacks)))
		run.Observe("bubble_deadlocks", 1)
	}
	run.Observe("bubbles", 1)
	if c.window%time.Second != 0 {
		run.Observe("bubbles_with_fractional_second_windows", 1)
	}
	run.Observe("scenario_"+name, 1)
	return k, done
}

func msList(ts []time.Time, t0 time.Time) []int64 {
	out := make([]int64, len(ts))
	for i, t := range ts {
		out[i] = t.Sub(t0).Milliseconds()
	}
	return out
}

func TestC37(t *testing.T) {
	run := mon.Start(t, "C37", "exploration",
		"every grid point (expectedNumberOfItems in {0,1,2,3,10,100,1e4,1e6,1e7} x falsePositiveRate in {5e-324,1e-300,1e-12,1e-6,0.01,0.5,0.7,0.7071,0.7072,0.75,0.9,0.99,0.999999,1-2^-53,1,1+2^-52,0,-0.5,NaN,+Inf} x window in {100ms,999ms,1s,1001ms,1.5s,2s,2.5s,3.7s,10s,10.9s,1m,90.5s,1h, three random windows with fractional seconds} x read-only option (alternating)) that NewSlidingBloomFilter accepts is played in synctest bubbles (virtual clock shared by client, fakeredis TIME and key expiry), "+
			"one timeline per bubble out of seven kinds: rotation 1 ms after the add, mid-way, 1 ms before t+window/2, no traffic until the deadline, steady stream, random, adds 1 ms before the rotation instants of a hypothetical shorter lock period (window or half-window truncated to seconds / tenths, 1/2, 2/3, minus 1 ms) (events on whole virtual milliseconds); one add in eight is answered by the server with an error reply instead of being executed (an Add that returns nil then still counts as added); every probe asks for all items added within the last window/2 plus a fresh key at a random position; "+
			"a case = (n, rate, window, option, hash functions on the wire, timeline kind, where the first rotation after the add fell, age bucket of the item, probe at the deadline?), non-trivial when time passed or a rotation happened between add and probe")
	defer run.Finish()
	run.Assume("fakeredis TIME, SET PX NX, RENAME, BITFIELD(_RO), key expiry and minilua behave as Redis 7 (harness self tests); fakeredis expires a key at now >= deadline (Redis: now > deadline at millisecond resolution), i.e. never later than Redis would, and all events sit on whole virtual milliseconds so that this cannot matter",
		"a call takes no virtual time (checked: time.Now() is identical before and after every Add)")
	d := &driver{run: run, rng: run.Rand("history")}
	ns := []uint{0, 1, 2, 3, 10, 100, 10_000, 1_000_000, 10_000_000}
	rates := []float64{math.SmallestNonzeroFloat64, 1e-300, 1e-12, 1e-6, 0.01, 0.5, 0.7, 0.7071, 0.7072, 0.75, 0.9, 0.99, 0.999999, math.Nextafter(1, 0), 1, math.Nextafter(1, 2), 0, -0.5, math.NaN(), math.Inf(1)}
	windows := []time.Duration{100 * time.Millisecond, 999 * time.Millisecond, time.Second, 1001 * time.Millisecond, 1500 * time.Millisecond, 2 * time.Second, 2500 * time.Millisecond, 3700 * time.Millisecond,
		10 * time.Second, 10900 * time.Millisecond, time.Minute, 90500 * time.Millisecond, time.Hour}
	wr := run.Rand("windows")
	for len(windows) < 16 { // random windows with a fractional number of seconds
		if w := time.Duration(1000+wr.Intn(19000)) * time.Millisecond; w%time.Second != 0 {
			windows = append(windows, w)
		}
	}
	maxBits := float64(uint64(1) << 28)
	if !run.Quick() {
		maxBits = float64(uint64(1) << 32)
	}
	rounds := run.N(1, 12)

	var zero []string
	rejected := map[string]int{}
	ci := 0
	for _, n := range ns {
		for _, r := range rates {
			ci++
			base := cfg{n: n, rate: r}.base()
			bits := predictedBits(n, r)
			big := bits > float64(1<<24)
			i := 0
			stop := false
			for round := 0; round < rounds && !stop; round++ {
				for wi, w := range windows {
					for _, ro := range []bool{(wi+round+ci)%2 == 0} { // the read-only option alternates over windows, rounds and configurations
						c := cfg{n: n, rate: r, window: w, ro: ro}
						if run.Quick() && w >= time.Second && (wi+ci)%3 == 2 {
							continue // quick tier: every configuration sees two thirds of the windows, a different third is left out each time
						}
						if ok, err := probeConstructor(c); !ok {
							if round == 0 {
								run.Observe("configs_rejected", 1)
								rejected[err.Error()]++
							}
							continue
						}
						if bits > maxBits {
							if round == 0 {
								run.Observe("accepted_configs_skipped_for_memory", 1)
							}
							continue
						}
						if (big && i >= 2) || (bits > float64(1<<28) && i >= 1) {
							continue
						}
						k, done := d.play(t, c, (i+ci)%7)
						i++
						if i == 1 {
							run.Observe("configs_accepted_and_run", 1)
						}
						if k == "0" && !done {
							zero = append(zero, base)
							run.Observe("zero_hash_function_configs", 1)
							stop = true
							break
						}
						if (n == 100 && (r == 0.01 || r == 1e-12) && (w == time.Second || w == 1500*time.Millisecond || w == time.Hour)) || (n == 1 && r == 0.5 && w == 1001*time.Millisecond) {
							run.Sample(map[string]any{"config": c.String(), "hash_functions_on_wire": k, "timeline": i - 1})
						}
					}
					if stop {
						break
					}
				}
			}
		}
	}
	run.Extra("rejected_configs", rejected)
	run.Extra("zero_hash_function_configs", zero)
	run.Require("due_answers_checked", "checks_with_rotation-immediately-after-add", "checks_with_rotation-mid-way", "checks_with_rotation-late", "checks_at_the_deadline", "rotations_observed", "true_negatives", "bitfield_ro_in_scripts", "adds_refused_by_server_and_reported", "scenario_adds-before-shorter-period-instants", "bubbles_with_fractional_second_windows")
}

// probeConstructor tells whether the constructor's own validation accepts the configuration, without a server:
// with a nil client an accepted configuration panics when it tries to run the initialisation script.
func probeConstructor(c cfg) (accepted bool, err error) {
	defer func() {
		if p := recover(); p != nil {
			accepted, err = true, nil
		}
	}()
	_, err = rueidisprob.NewSlidingBloomFilter(nil, "probe", c.n, c.rate, c.window)
	return err == nil, err
}
