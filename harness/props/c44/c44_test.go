package c44

import (
	"crypto/tls"
	"fmt"
	"math/rand"
	"net/url"
	"reflect"
	"regexp"
	"sort"
	"strconv"
	"strings"
	"testing"
	"time"

	"github.com/redis/rueidis"
	"verifh/mon"
)

// Reference mapping, written from the doc comment of ParseURL
//
//   redis://<user>:<password>@<host>:<port>/<db_number>
//   redis://<user>:<password>@<host>:<port>?addr=<host2>:<port2>&addr=<host3>:<port3>
//   unix://<user>:<password>@</path/to/redis.sock>?db=<db_number>
//
// the README list of parameters and the property statement:
//
//   scheme redis|valkey           plain TCP, no TLSConfig, no custom dial function
//   scheme rediss|valkeys         TLSConfig set, ServerName = host, InsecureSkipVerify from skip_verify
//   scheme unix                   DialCtxFn set, InitAddress[0] = socket path
//   userinfo                      Username, Password
//   host[:port]                   InitAddress[0] = host:port (default localhost / 6379; IPv6 literals in brackets)
//   /<db> or db=                  SelectDB
//   dial_timeout=                 Dialer.Timeout
//   write_timeout=                ConnWriteTimeout
//   addr=<host>:<port> (repeated) appended to InitAddress in order
//   protocol=2                    AlwaysRESP2
//   client_cache=0                DisableCache
//   max_retries=0                 DisableRetry
//   client_name=                  ClientName
//   master_set=                   Sentinel.MasterSet
//
// Every other leaf of the returned ClientOption must keep its zero value.

type urlCase struct {
	raw      string
	want     map[string]string // leaf path -> rendered expected value (only non-zero leaves)
	src      map[string]string // rendered value -> URL component it came from (values are pairwise distinct)
	hostKind string
	ncomp    int
	comps    []string
}

// ---- rendering of a ClientOption as leaf path -> string ----

func render(v reflect.Value) (string, bool) {
	switch v.Kind() {
	case reflect.String:
		return v.String(), true
	case reflect.Bool:
		return strconv.FormatBool(v.Bool()), true
	case reflect.Int, reflect.Int8, reflect.Int16, reflect.Int32, reflect.Int64:
		if v.Type() == reflect.TypeOf(time.Duration(0)) {
			return time.Duration(v.Int()).String(), true
		}
		return strconv.FormatInt(v.Int(), 10), true
	case reflect.Uint, reflect.Uint8, reflect.Uint16, reflect.Uint32, reflect.Uint64:
		return strconv.FormatUint(v.Uint(), 10), true
	case reflect.Float32, reflect.Float64:
		return strconv.FormatFloat(v.Float(), 'g', -1, 64), true
	case reflect.Func, reflect.Map, reflect.Chan, reflect.Interface, reflect.UnsafePointer:
		if v.IsNil() {
			return "nil", true
		}
		return "set", true
	case reflect.Slice:
		if v.Type().Elem().Kind() == reflect.String {
			parts := make([]string, v.Len())
			for i := range parts {
				parts[i] = v.Index(i).String()
			}
			return strings.Join(parts, ","), true
		}
		if v.Len() == 0 {
			return "", true
		}
		return fmt.Sprintf("len=%d", v.Len()), true
	}
	return "", false
}

func leaves(prefix string, v reflect.Value, out map[string]string, depth int) {
	if s, ok := render(v); ok {
		out[prefix] = s
		return
	}
	switch v.Kind() {
	case reflect.Pointer:
		if v.IsNil() {
			out[prefix] = "nil"
			return
		}
		out[prefix] = "set"
		if depth < 4 {
			leaves(prefix, v.Elem(), out, depth+1)
		}
	case reflect.Struct:
		exported := 0
		for i := 0; i < v.NumField(); i++ {
			f := v.Type().Field(i)
			if !f.IsExported() {
				continue
			}
			exported++
			p := f.Name
			if prefix != "" {
				p = prefix + "." + f.Name
			}
			leaves(p, v.Field(i), out, depth+1)
		}
		if exported == 0 { // e.g. time.Time
			if v.IsZero() {
				out[prefix+".(opaque)"] = ""
			} else {
				out[prefix+".(opaque)"] = "set"
			}
		}
	case reflect.Array:
		if v.IsZero() {
			out[prefix] = ""
		} else {
			out[prefix] = "set"
		}
	}
}

// zeroLeaves is the rendering of the zero ClientOption, including the leaves below its nil *tls.Config pointers.
var zeroLeaves = func() map[string]string {
	m := map[string]string{}
	z := rueidis.ClientOption{TLSConfig: &tls.Config{}}
	z.Sentinel.TLSConfig = &tls.Config{}
	leaves("", reflect.ValueOf(z), m, 0)
	m["TLSConfig"], m["Sentinel.TLSConfig"] = "nil", "nil"
	return m
}()

// leaves the statement says nothing about
var ignoredLeaves = map[string]bool{"TLSConfig.MinVersion": true}

// ---- generator ----

type gen struct {
	rng  *rand.Rand
	used map[string]bool
}

const plainChars = "abcdefghijklmnopqrstuvwxyz0123456789"
const trickyChars = "@:/?#&=%+ ;,!$'()*[]~._-äß"

// token returns a fresh string distinct from every value used in this URL.
func (g *gen) token(prefix string, tricky bool) string {
	for {
		var sb strings.Builder
		sb.WriteString(prefix)
		n := 2 + g.rng.Intn(6)
		for i := 0; i < n; i++ {
			if tricky && g.rng.Intn(3) == 0 {
				r := []rune(trickyChars)
				sb.WriteRune(r[g.rng.Intn(len(r))])
			} else {
				sb.WriteByte(plainChars[g.rng.Intn(len(plainChars))])
			}
		}
		if s := sb.String(); !g.used[s] {
			g.used[s] = true
			return s
		}
	}
}

// number returns a fresh decimal number in [lo, hi) whose text is not used elsewhere in this URL.
func (g *gen) number(lo, hi int) int {
	for {
		n := lo + g.rng.Intn(hi-lo)
		if s := strconv.Itoa(n); !g.used[s] {
			g.used[s] = true
			return n
		}
	}
}

func (g *gen) duration() (text string, d time.Duration) {
	for {
		switch g.rng.Intn(6) {
		case 0:
			n := 1 + g.rng.Intn(900)
			text, d = fmt.Sprintf("%dms", n), time.Duration(n)*time.Millisecond
		case 1:
			n := 1 + g.rng.Intn(120)
			text, d = fmt.Sprintf("%ds", n), time.Duration(n)*time.Second
		case 2:
			n := 1 + g.rng.Intn(59)
			text, d = fmt.Sprintf("%dm", n), time.Duration(n)*time.Minute
		case 3:
			a, b := 1+g.rng.Intn(5), 1+g.rng.Intn(59)
			text, d = fmt.Sprintf("%dm%ds", a, b), time.Duration(a)*time.Minute+time.Duration(b)*time.Second
		case 4:
			n := 1 + g.rng.Intn(99)
			text, d = fmt.Sprintf("%d.5s", n), time.Duration(n)*time.Second+500*time.Millisecond
		default:
			n := 1 + g.rng.Intn(900)
			text, d = fmt.Sprintf("%dus", n), time.Duration(n)*time.Microsecond
		}
		if !g.used[d.String()] {
			g.used[d.String()] = true
			return
		}
	}
}

func (g *gen) ipv6() string {
	forms := []string{"::1", "2001:db8::%x", "fe80::%x:1", "::ffff:10.1.2.%d", "2001:db8:0:1:1:1:1:%x"}
	for {
		f := forms[g.rng.Intn(len(forms))]
		s := f
		if strings.Contains(f, "%") {
			s = fmt.Sprintf(f, 1+g.rng.Intn(200))
		}
		if !g.used[s] {
			g.used[s] = true
			return s
		}
	}
}

type invalid struct{ comp, value string }

// build creates one URL. When bad is non-nil that component is given an invalid value.
func build(rng *rand.Rand, bad *invalid) urlCase {
	g := &gen{rng: rng, used: map[string]bool{}}
	c := urlCase{want: map[string]string{}, src: map[string]string{}}
	has := func(p int) bool { return rng.Intn(100) < p }
	scheme := []string{"redis", "rediss", "valkey", "valkeys", "unix"}[rng.Intn(5)]
	if bad != nil && bad.comp == "skip_verify" {
		scheme = []string{"rediss", "valkeys"}[rng.Intn(2)]
	}
	if bad != nil && (bad.comp == "path" || bad.comp == "port") && scheme == "unix" {
		scheme = "redis"
	}
	isTLS := scheme == "rediss" || scheme == "valkeys"
	unix := scheme == "unix"
	if bad != nil && bad.comp == "scheme" {
		scheme = bad.value
	}
	c.comps = append(c.comps, "scheme="+scheme)
	var sb strings.Builder
	sb.WriteString(scheme + "://")

	set := func(leaf, val, comp string) {
		c.want[leaf] = val
		c.src[val] = comp
	}

	// userinfo
	if has(50) {
		user := g.token("u", has(40))
		switch rng.Intn(3) {
		case 0:
			sb.WriteString(url.User(user).String() + "@")
			set("Username", user, "user")
			c.comps = append(c.comps, "user")
		case 1:
			pass := g.token("p", has(40))
			sb.WriteString(url.UserPassword(user, pass).String() + "@")
			set("Username", user, "user")
			set("Password", pass, "password")
			c.comps = append(c.comps, "user", "password")
		default:
			pass := g.token("p", has(40))
			sb.WriteString(url.UserPassword("", pass).String() + "@")
			set("Password", pass, "password")
			c.comps = append(c.comps, "password")
		}
	}

	// host / socket path
	var addrs []string
	serverName := ""
	if unix {
		n := 1 + rng.Intn(3)
		p := ""
		for i := 0; i < n; i++ {
			p += "/" + g.token("d", false)
		}
		p += ".sock"
		sb.WriteString(p)
		addrs = append(addrs, p)
		c.hostKind = "unix"
		c.comps = append(c.comps, "socket")
	} else {
		kind := rng.Intn(8)
		if bad != nil && bad.comp == "port" {
			kind = 1
		}
		port := 0
		if kind != 0 && kind != 2 && kind != 6 {
			port = g.number(1024, 65535)
		}
		host, hostText := "", ""
		switch kind {
		case 0:
			c.hostKind = "none"
		case 1, 2, 3:
			host = g.token("h", false) + ".example"
			hostText = host
			c.hostKind = "name"
		case 4:
			host = fmt.Sprintf("10.%d.%d.%d", rng.Intn(250), rng.Intn(250), 1+rng.Intn(250))
			hostText = host
			c.hostKind = "ipv4"
		default:
			host = g.ipv6()
			hostText = "[" + host + "]"
			c.hostKind = "ipv6"
		}
		if host != "" {
			c.comps = append(c.comps, "host")
		}
		sb.WriteString(hostText)
		if port != 0 {
			if bad != nil && bad.comp == "port" {
				sb.WriteString(":" + bad.value)
			} else {
				sb.WriteString(":" + strconv.Itoa(port))
			}
			c.comps = append(c.comps, "port")
		} else if host != "" {
			c.hostKind += "-noport"
			port = 6379
		} else {
			port = 6379
		}
		if host == "" {
			host = "localhost"
		}
		serverName = host
		if strings.Contains(host, ":") {
			addrs = append(addrs, "["+host+"]:"+strconv.Itoa(port))
		} else {
			addrs = append(addrs, host+":"+strconv.Itoa(port))
		}
	}

	// database: in the path for TCP schemes, as a parameter otherwise
	type kv struct{ k, v string }
	var query []kv
	dbInPath := false
	if bad != nil && bad.comp == "path" {
		sb.WriteString("/" + bad.value)
		dbInPath = true
	} else if !unix && has(35) {
		db := g.number(1, 16)
		sb.WriteString("/" + strconv.Itoa(db))
		set("SelectDB", strconv.Itoa(db), "db")
		dbInPath = true
		c.comps = append(c.comps, "path-db")
	}
	if bad != nil && bad.comp == "db" {
		query = append(query, kv{"db", bad.value})
	} else if !dbInPath && has(40) {
		db := g.number(1, 16)
		query = append(query, kv{"db", strconv.Itoa(db)})
		set("SelectDB", strconv.Itoa(db), "db")
	}

	if bad != nil && bad.comp == "dial_timeout" {
		query = append(query, kv{"dial_timeout", bad.value})
	} else if has(45) {
		text, d := g.duration()
		query = append(query, kv{"dial_timeout", text})
		set("Dialer.Timeout", d.String(), "dial_timeout")
	}
	if bad != nil && bad.comp == "write_timeout" {
		query = append(query, kv{"write_timeout", bad.value})
	} else if has(45) {
		text, d := g.duration()
		query = append(query, kv{"write_timeout", text})
		set("ConnWriteTimeout", d.String(), "write_timeout")
	}
	if !unix && has(40) {
		for i, n := 0, 1+rng.Intn(3); i < n; i++ {
			var a string
			switch rng.Intn(4) {
			case 0:
				a = "[" + g.ipv6() + "]:" + strconv.Itoa(g.number(1024, 65535))
			case 1:
				a = fmt.Sprintf("10.%d.%d.%d:%d", rng.Intn(250), rng.Intn(250), 1+rng.Intn(250), g.number(1024, 65535))
			default:
				a = g.token("a", false) + ".example:" + strconv.Itoa(g.number(1024, 65535))
			}
			query = append(query, kv{"addr", a})
			addrs = append(addrs, a)
		}
	}
	if has(35) {
		v := []string{"2", "3"}[rng.Intn(2)]
		query = append(query, kv{"protocol", v})
		if v == "2" {
			c.want["AlwaysRESP2"] = "true"
		}
	}
	if has(35) {
		v := []string{"0", "1"}[rng.Intn(2)]
		query = append(query, kv{"client_cache", v})
		if v == "0" {
			c.want["DisableCache"] = "true"
		}
	}
	if has(35) {
		v := []string{"0", "0", "1", "3", "10"}[rng.Intn(5)]
		query = append(query, kv{"max_retries", v})
		if v == "0" {
			c.want["DisableRetry"] = "true"
		}
	}
	if has(40) {
		v := g.token("cn", has(40))
		query = append(query, kv{"client_name", v})
		set("ClientName", v, "client_name")
	}
	if has(40) {
		v := g.token("ms", has(40))
		query = append(query, kv{"master_set", v})
		set("Sentinel.MasterSet", v, "master_set")
	}
	if bad != nil && bad.comp == "skip_verify" {
		query = append(query, kv{"skip_verify", bad.value})
	} else if has(40) {
		// documented for TLS schemes; on other schemes there is no TLSConfig to carry it
		v := []string{"", "true", "false", "1", "0"}[rng.Intn(5)]
		query = append(query, kv{"skip_verify", v})
		if isTLS && v != "false" && v != "0" {
			c.want["TLSConfig.InsecureSkipVerify"] = "true"
		}
	}

	set("InitAddress", strings.Join(addrs, ","), "address")
	if isTLS {
		c.want["TLSConfig"] = "set"
		set("TLSConfig.ServerName", serverName, "host")
	}
	if unix {
		c.want["DialCtxFn"] = "set"
	}

	// parameters in random order; the addr values keep their relative order
	var addrVals []string
	for _, p := range query {
		if p.k == "addr" {
			addrVals = append(addrVals, p.v)
		}
	}
	shuffled := make([]kv, 0, len(query))
	for _, i := range rng.Perm(len(query)) {
		shuffled = append(shuffled, query[i])
	}
	for i := range shuffled {
		if shuffled[i].k == "addr" {
			shuffled[i].v, addrVals = addrVals[0], addrVals[1:]
		}
	}
	for i, p := range shuffled {
		if i == 0 {
			sb.WriteByte('?')
		} else {
			sb.WriteByte('&')
		}
		if p.k == "skip_verify" && p.v == "" && rng.Intn(2) == 0 {
			sb.WriteString("skip_verify")
		} else {
			sb.WriteString(p.k + "=" + url.QueryEscape(p.v))
		}
		c.comps = append(c.comps, p.k)
	}
	c.raw = sb.String()
	c.ncomp = len(c.comps) - 1
	return c
}

var invalids = []invalid{
	{"scheme", "http"}, {"scheme", "tcp"}, {"scheme", "redisx"}, {"scheme", "unixs"}, {"scheme", "rediss2"},
	{"path", "abc"}, {"path", "1x"}, {"path", "1/2"}, {"path", "1.5"}, {"path", "99999999999999999999"}, {"path", "db1"},
	{"db", ""}, {"dial_timeout", ""}, {"write_timeout", ""}, // a parameter that is present but empty is not a number / duration
	{"db", "abc"}, {"db", "1x"}, {"db", "1.5"}, {"db", "99999999999999999999"}, {"db", "0x10"},
	{"dial_timeout", "abc"}, {"dial_timeout", "ten"}, {"dial_timeout", "1x"}, {"dial_timeout", "s"}, {"dial_timeout", "1s1"},
	{"write_timeout", "abc"}, {"write_timeout", "ten"}, {"write_timeout", "1x"}, {"write_timeout", "s"}, {"write_timeout", "1s1"},
	{"skip_verify", "abc"}, {"skip_verify", "maybe"}, {"skip_verify", "2"},
	{"port", "abc"}, {"port", "12ab"},
}

var quoted = regexp.MustCompile(`"[^"]*"`)

func parse(raw string) (opt rueidis.ClientOption, err error, pan any) {
	defer func() {
		if p := recover(); p != nil {
			pan = p
		}
	}()
	opt, err = rueidis.ParseURL(raw)
	return
}

// C44: ParseURL maps every URL part to its documented option and rejects invalid values.
func TestC44(t *testing.T) {
	run := mon.Start(t, "C44", "exploration",
		"URLs assembled from a random subset of components (5 schemes; user / user:password / :password; no host, host name, IPv4, bracketed IPv6 each with and without port; socket path; db in the path or as parameter; dial_timeout, write_timeout, 1-3 addr, protocol, client_cache, max_retries, client_name, master_set, skip_verify in random order) with pairwise distinct values and percent-encoded special characters; "+
			"every leaf of the returned ClientOption is compared with a reference mapping (unmapped leaves must stay zero); plus the same URLs with one component replaced by an invalid value, which must give an error; distinct by URL text, non-trivial when >= 2 components besides the scheme are present")
	defer run.Finish()
	run.Assume("reference mapping written from the ParseURL doc comment, the README parameter list and the property statement",
		"TLSConfig.MinVersion is not covered by the statement and is ignored",
		"only documented forms are generated: addr=<host>:<port>, no trailing slash, at most one of /<db> and db=, skip_verify values accepted by strconv.ParseBool or empty",
		"invalid = not an integer for /<db> and db=, not a Go duration for the timeouts, not a boolean for skip_verify on a TLS scheme, an unknown scheme, a path of several segments, a non-numeric port")
	rng := run.Rand("urls")

	keys := make([]string, 0, len(zeroLeaves))
	check := func(c urlCase) {
		run.Case(c.raw, c.ncomp >= 2)
		opt, err, pan := parse(c.raw)
		run.Observe("valid_urls", 1)
		run.Observe("scheme_"+strings.TrimPrefix(c.comps[0], "scheme="), 1)
		run.Observe("host_"+c.hostKind, 1)
		if pan != nil {
			run.Violation("panic", "valid|"+strings.Join(c.comps, ","), map[string]any{"url": c.raw, "panic": fmt.Sprint(pan)})
			return
		}
		if err != nil {
			run.Violation("unexpected-error", "valid|host="+c.hostKind+"|err="+quoted.ReplaceAllString(err.Error(), `"…"`), map[string]any{"url": c.raw, "error": err.Error(), "components": c.comps})
			return
		}
		got := map[string]string{}
		leaves("", reflect.ValueOf(opt), got, 0)
		keys = keys[:0]
		for k := range got {
			keys = append(keys, k)
		}
		sort.Strings(keys)
		srcOf := func(leaf, v string) string {
			if s, ok := c.src[v]; ok {
				return s
			}
			if v == zeroLeaves[leaf] {
				return "zero"
			}
			if v == "true" || v == "set" {
				return v
			}
			return "other"
		}
		for _, leaf := range keys {
			if ignoredLeaves[leaf] {
				continue
			}
			g := got[leaf]
			w, ok := c.want[leaf]
			if !ok {
				if w, ok = zeroLeaves[leaf]; !ok {
					run.Inconclusive("leaf without a zero rendering: " + leaf)
					continue
				}
			}
			run.Observe("leaves_compared", 1)
			if g == w {
				continue
			}
			key := fmt.Sprintf("%s|got=%s|want=%s", leaf, srcOf(leaf, g), srcOf(leaf, w))
			if leaf == "InitAddress" || leaf == "TLSConfig.ServerName" {
				key += "|host=" + c.hostKind
			}
			run.Violation("wrong-option", key, map[string]any{"url": c.raw, "option": leaf, "got": g, "want": w, "components": c.comps})
		}
	}

	n := run.N(60000, 3000000)
	for i := 0; i < n; i++ {
		c := build(rng, nil)
		check(c)
		if i < 3 {
			run.Sample(map[string]any{"url": c.raw, "expected_non_zero_options": c.want})
		}
	}

	// invalid values
	m := run.N(6000, 300000)
	for i := 0; i < m; i++ {
		bad := invalids[i%len(invalids)]
		c := build(rng, &bad)
		run.Case(c.raw, true)
		_, err, pan := parse(c.raw)
		run.Observe("invalid_urls", 1)
		run.Observe("invalid_"+bad.comp, 1)
		if i < 2 {
			run.Sample(map[string]any{"url": c.raw, "invalid_component": bad.comp, "invalid_value": bad.value, "error": fmt.Sprint(err)})
		}
		if pan != nil {
			run.Violation("panic", "invalid|"+bad.comp+"="+bad.value, map[string]any{"url": c.raw, "panic": fmt.Sprint(pan)})
		} else if err == nil {
			run.Violation("invalid-accepted", bad.comp+"="+bad.value, map[string]any{"url": c.raw, "invalid_component": bad.comp, "invalid_value": bad.value})
		}
	}
	run.Require("valid_urls", "invalid_urls", "leaves_compared", "scheme_redis", "scheme_rediss", "scheme_valkey", "scheme_valkeys", "scheme_unix", "host_ipv6", "host_ipv6-noport")
}
