// Package c40 drives om.HashRepository and om.JSONRepository (real save scripts on fakeredis + minilua): concurrent
// Saves of copies of one entity are optimistic (at most one winner per base version, version +1), and what Fetch /
// FetchCache return afterwards equals the saved entity field by field.
package c40

import (
	"context"
	"errors"
	"fmt"
	"math"
	"math/rand"
	"reflect"
	"runtime"
	"strings"
	"sync"
	"testing"
	"time"
	"unicode/utf8"

	"github.com/anishathalye/porcupine"
	"github.com/redis/rueidis"
	"github.com/redis/rueidis/om"
	"verifh/drv"
	"verifh/fakeredis"
	"verifh/mon"
)

const addr = "127.0.0.1:6379"

// Inner / Leaf are stored as JSON inside a hash field (struct kinds) or as nested objects (JSON repository).
type Leaf struct {
	Name  string   `json:"name"`
	Score float64  `json:"score"`
	Tags  []string `json:"tags"`
}

type Inner struct {
	A    string             `json:"a"`
	B    int64              `json:"b"`
	C    bool               `json:"c"`
	D    []string           `json:"d"`
	E    map[string]float64 `json:"e"`
	F    *Leaf              `json:"f"`
	When time.Time          `json:"when"`
}

// HashEntity has one field of every kind om/conv.go supports for hashes (value, pointer and slice converters).
type HashEntity struct {
	Key     string    `json:"key" redis:",key"`
	Ver     int64     `json:"ver" redis:",ver"`
	ExAt    time.Time `json:"exat" redis:",exat"`
	Str     string    `json:"str"`
	Int     int64     `json:"int"`
	Bool    bool      `json:"bool"`
	PStr    *string   `json:"pstr"`
	PInt    *int64    `json:"pint"`
	PBool   *bool     `json:"pbool"`
	Bytes   []byte    `json:"bytes"`
	F32     []float32 `json:"f32"`
	F64     []float64 `json:"f64"`
	Obj     Inner     `json:"obj"`
	PObj    *Inner    `json:"pobj"`
	Objs    []Leaf    `json:"objs"`
	Created time.Time `json:"created"`
	NoTag   string
}

// JSONEntity is stored as one JSON document; every json-serialisable kind is allowed.
type JSONEntity struct {
	Key     string            `json:"key" redis:",key"`
	Ver     int64             `json:"ver" redis:",ver"`
	ExAt    time.Time         `json:"exat" redis:",exat"`
	Str     string            `json:"str"`
	Int     int64             `json:"int"`
	Bool    bool              `json:"bool"`
	PStr    *string           `json:"pstr"`
	PInt    *int64            `json:"pint"`
	PBool   *bool             `json:"pbool"`
	Bytes   []byte            `json:"bytes"`
	F32     []float32         `json:"f32"`
	F64     []float64         `json:"f64"`
	Obj     Inner             `json:"obj"`
	PObj    *Inner            `json:"pobj"`
	Objs    []Leaf            `json:"objs"`
	Created time.Time         `json:"created"`
	Strs    []string          `json:"strs"`
	Map     map[string]string `json:"map"`
	U8      uint8             `json:"u8"`
	F       float64           `json:"f"`
	NoTag   string
}

type gen struct{ r *rand.Rand }

func (g gen) utf8() string {
	switch g.r.Intn(6) {
	case 0:
		return ""
	case 1:
		return "héllo 世界   \"quoted\" \\ <tag> & \t\n"
	case 2:
		return strings.Repeat("z", 1+g.r.Intn(300))
	default:
		return fmt.Sprintf("s%d", g.r.Int63())
	}
}

func (g gen) raw() string { // hash fields are binary safe
	if g.r.Intn(3) == 0 {
		b := make([]byte, g.r.Intn(40))
		g.r.Read(b)
		return string(b)
	}
	return g.utf8()
}

func (g gen) i64() int64 {
	switch g.r.Intn(6) {
	case 0:
		return 0
	case 1:
		return math.MinInt64
	case 2:
		return math.MaxInt64
	case 3:
		return -1
	default:
		return g.r.Int63() - g.r.Int63()
	}
}

func (g gen) finite() float64 {
	switch g.r.Intn(6) {
	case 0:
		return 0
	case 1:
		return math.Copysign(0, -1)
	case 2:
		return math.MaxFloat64
	case 3:
		return math.SmallestNonzeroFloat64
	default:
		return g.r.NormFloat64() * math.Pow(10, float64(g.r.Intn(40)-20))
	}
}

func (g gen) when() time.Time {
	if g.r.Intn(4) == 0 {
		return time.Time{}
	}
	t := time.Date(1990+g.r.Intn(60), time.Month(1+g.r.Intn(12)), 1+g.r.Intn(28), g.r.Intn(24), g.r.Intn(60), g.r.Intn(60), g.r.Intn(1e9), time.UTC)
	if g.r.Intn(2) == 0 {
		t = t.In(time.FixedZone("", (g.r.Intn(25)-12)*3600))
	}
	return t
}

func (g gen) exat() time.Time { // far in the future: the record must not expire during the run
	if g.r.Intn(3) == 0 {
		return time.Time{}
	}
	return time.Date(2090+g.r.Intn(9), time.Month(1+g.r.Intn(12)), 1+g.r.Intn(28), g.r.Intn(24), g.r.Intn(60), g.r.Intn(60), g.r.Intn(1e9), time.UTC)
}

func (g gen) strs() []string {
	switch g.r.Intn(4) {
	case 0:
		return nil
	case 1:
		return []string{}
	}
	s := make([]string, 1+g.r.Intn(4))
	for i := range s {
		s[i] = g.utf8()
	}
	return s
}

func (g gen) leaf() Leaf { return Leaf{Name: g.utf8(), Score: g.finite(), Tags: g.strs()} }

func (g gen) inner() Inner {
	in := Inner{A: g.utf8(), B: g.i64(), C: g.r.Intn(2) == 0, D: g.strs(), When: g.when()}
	if g.r.Intn(2) == 0 {
		in.E = map[string]float64{}
		for i, n := 0, g.r.Intn(4); i < n; i++ {
			in.E[g.utf8()] = g.finite()
		}
	}
	if g.r.Intn(2) == 0 {
		l := g.leaf()
		in.F = &l
	}
	return in
}

func (g gen) leaves() []Leaf {
	switch g.r.Intn(4) {
	case 0:
		return nil
	case 1:
		return []Leaf{}
	}
	s := make([]Leaf, 1+g.r.Intn(3))
	for i := range s {
		s[i] = g.leaf()
	}
	return s
}

func (g gen) bytes() []byte {
	switch g.r.Intn(4) {
	case 0:
		return nil
	case 1:
		return []byte{}
	}
	b := make([]byte, 1+g.r.Intn(64))
	g.r.Read(b)
	return b
}

func (g gen) f32(binary bool) []float32 {
	switch g.r.Intn(4) {
	case 0:
		return nil
	case 1:
		return []float32{}
	}
	v := make([]float32, 1+g.r.Intn(8))
	for i := range v {
		v[i] = float32(g.r.NormFloat64())
		if binary && g.r.Intn(6) == 0 {
			v[i] = []float32{float32(math.NaN()), float32(math.Inf(1)), float32(math.Inf(-1)), float32(math.Copysign(0, -1)), math.MaxFloat32}[g.r.Intn(5)]
		}
	}
	return v
}

func (g gen) f64(binary bool) []float64 {
	switch g.r.Intn(4) {
	case 0:
		return nil
	case 1:
		return []float64{}
	}
	v := make([]float64, 1+g.r.Intn(8))
	for i := range v {
		v[i] = g.finite()
		if binary && g.r.Intn(6) == 0 {
			v[i] = []float64{math.NaN(), math.Inf(1), math.Inf(-1)}[g.r.Intn(3)]
		}
	}
	return v
}

// fill sets every data field of *HashEntity / *JSONEntity (not Key / Ver) to fresh random values; tag ends up in Str.
func (g gen) fill(e any, tag string) {
	v := reflect.ValueOf(e).Elem()
	_, isHash := e.(*HashEntity)
	str := g.utf8
	if isHash {
		str = g.raw
	}
	set := func(name string, x any) {
		if f := v.FieldByName(name); f.IsValid() {
			if x == nil {
				f.Set(reflect.Zero(f.Type()))
			} else {
				f.Set(reflect.ValueOf(x))
			}
		}
	}
	set("ExAt", g.exat())
	set("Str", tag+"|"+str())
	set("Int", g.i64())
	set("Bool", g.r.Intn(2) == 0)
	set("PStr", nil)
	set("PInt", nil)
	set("PBool", nil)
	set("PObj", nil)
	if g.r.Intn(2) == 0 {
		s := str()
		set("PStr", &s)
	}
	if g.r.Intn(2) == 0 {
		i := g.i64()
		set("PInt", &i)
	}
	if g.r.Intn(2) == 0 {
		b := g.r.Intn(2) == 0
		set("PBool", &b)
	}
	if g.r.Intn(2) == 0 {
		in := g.inner()
		set("PObj", &in)
	}
	set("Bytes", g.bytes())
	set("F32", g.f32(isHash))
	set("F64", g.f64(isHash))
	set("Obj", g.inner())
	set("Objs", g.leaves())
	set("Created", g.when())
	set("NoTag", str())
	if !isHash {
		set("Strs", g.strs())
		var m map[string]string
		if g.r.Intn(2) == 0 {
			m = map[string]string{}
			for i, n := 0, g.r.Intn(4); i < n; i++ {
				m[g.utf8()] = g.utf8()
			}
		}
		set("Map", m)
		set("U8", uint8(g.r.Intn(256)))
		set("F", g.finite())
	}
}

// diff compares saved and fetched values field by field: nil and empty slices / maps are the same, times by instant,
// floats by bit pattern. It returns the path of the first difference and a description of its shape.
func diff(path string, a, b reflect.Value) (string, string) {
	if a.Type() == reflect.TypeOf(time.Time{}) {
		if !a.Interface().(time.Time).Equal(b.Interface().(time.Time)) {
			return path, fmt.Sprintf("time saved=%v fetched=%v", a.Interface(), b.Interface())
		}
		return "", ""
	}
	switch a.Kind() {
	case reflect.Ptr:
		if a.IsNil() != b.IsNil() {
			return path, fmt.Sprintf("saved-nil=%v fetched-nil=%v", a.IsNil(), b.IsNil())
		}
		if a.IsNil() {
			return "", ""
		}
		return diff(path, a.Elem(), b.Elem())
	case reflect.Struct:
		for i := 0; i < a.NumField(); i++ {
			if p, d := diff(path+"."+a.Type().Field(i).Name, a.Field(i), b.Field(i)); p != "" {
				return p, d
			}
		}
	case reflect.Slice:
		if a.Len() != b.Len() {
			return path, fmt.Sprintf("length saved=%d fetched=%d", a.Len(), b.Len())
		}
		for i := 0; i < a.Len(); i++ {
			if p, d := diff(fmt.Sprintf("%s[%d]", path, i), a.Index(i), b.Index(i)); p != "" {
				return p, d
			}
		}
	case reflect.Map:
		if a.Len() != b.Len() {
			return path, fmt.Sprintf("map size saved=%d fetched=%d", a.Len(), b.Len())
		}
		for _, k := range a.MapKeys() {
			bv := b.MapIndex(k)
			if !bv.IsValid() {
				return path, fmt.Sprintf("map key %q missing", k.String())
			}
			if p, d := diff(path+"["+k.String()+"]", a.MapIndex(k), bv); p != "" {
				return p, d
			}
		}
	case reflect.Float32, reflect.Float64:
		if math.Float64bits(a.Float()) != math.Float64bits(b.Float()) {
			return path, fmt.Sprintf("float saved=%v fetched=%v", a.Float(), b.Float())
		}
	case reflect.String:
		if a.String() != b.String() {
			return path, fmt.Sprintf("string saved=%q fetched=%q (valid utf8: %v)", trunc(a.String()), trunc(b.String()), utf8.ValidString(a.String()))
		}
	default:
		if !reflect.DeepEqual(a.Interface(), b.Interface()) {
			return path, fmt.Sprintf("saved=%v fetched=%v", a.Interface(), b.Interface())
		}
	}
	return "", ""
}

func trunc(s string) string {
	if len(s) > 60 {
		return s[:60] + "…"
	}
	return s
}

// ---- CAS register history for porcupine

type regIn struct {
	save bool
	base int64
	tag  string
}
type regOut struct {
	ok  bool // save succeeded
	ver int64
	tag string
}
type regState struct {
	present bool
	ver     int64
	tag     string
}

var casModel = porcupine.Model{
	Init: func() any { return regState{} },
	Step: func(state, in, out any) (bool, any) {
		s, i, o := state.(regState), in.(regIn), out.(regOut)
		if !i.save { // fetch
			return s.present && o.ver == s.ver && o.tag == s.tag, s
		}
		if !o.ok { // the statement only bounds successes: a refused save never changes the register
			return true, s
		}
		if s.present && s.ver != i.base {
			return false, s
		}
		return o.ver == i.base+1, regState{present: true, ver: i.base + 1, tag: i.tag}
	},
	Equal: func(a, b any) bool { return a.(regState) == b.(regState) },
	DescribeOperation: func(in, out any) string {
		return fmt.Sprintf("%+v -> %+v", in, out)
	},
}

// ---- generic round driver

type saveRec struct {
	Caller int    `json:"caller"`
	Via    string `json:"via"`
	Base   int64  `json:"base_ver"`
	Tag    string `json:"tag"`
	Call   int64  `json:"call_stamp"`
	Ret    int64  `json:"return_stamp"`
	Err    string `json:"err"`
	VerAft int64  `json:"ver_after"`
}

type entity interface{ HashEntity | JSONEntity }

func meta[T entity](e *T) (key string, ver *int64, tag string) {
	v := reflect.ValueOf(e).Elem()
	s := v.FieldByName("Str").String()
	if i := strings.IndexByte(s, '|'); i >= 0 {
		s = s[:i]
	}
	return v.FieldByName("Key").String(), v.FieldByName("Ver").Addr().Interface().(*int64), s
}

// exercise plays rounds of concurrent saves on entities of one repository kind.
// With oneWire the client pipelines everything over a single connection, which makes "the invalidation caused by the save has
// been processed once a later Fetch returned" a fact; with the default four wires commands of one key travel on random wires
// and FetchCache is only required to converge.
func exercise[T entity](run *mon.Run, kind string, oneWire bool, mk func(c rueidis.Client) om.Repository[T], entities, rounds int, rng *rand.Rand) {
	srv := fakeredis.New(fakeredis.Options{NoLog: true, Seed: run.Seed}, addr)
	defer srv.Close()
	opt := drv.Option(srv, addr)
	if oneWire {
		opt.PipelineMultiplex = -1
	}
	client, err := rueidis.NewClient(opt)
	if err != nil {
		run.Inconclusive("client: " + err.Error())
		return
	}
	defer client.Close()
	repo := mk(client)
	ctx := context.Background()
	g := gen{rng}
	for ei := 0; ei < entities; ei++ {
		key := fmt.Sprintf("e%d-%d", ei, rng.Intn(1000))
		if ei%7 == 3 {
			key = "k:with {braces} and spaces \t" + fmt.Sprint(ei)
		}
		var ops []porcupine.Operation
		var hist []saveRec
		cur := new(T) // what the driver believes is stored: starts as a never-saved entity at version 0
		reflect.ValueOf(cur).Elem().FieldByName("Key").SetString(key)
		wins := map[int64]int{}
		winnerTag := map[int64]string{}
		prevNonNil := map[string]bool{}
		stored := false
		for round := 0; round < rounds; round++ {
			_, curVer, _ := meta(cur)
			base := *curVer
			stale := stored && base > 0 && rng.Intn(6) == 0
			if stale {
				base-- // copies of an outdated entity: every save must be refused
			}
			callers := []int{1, 2, 3, 4, 8, 16}[rng.Intn(6)]
			copies := make([]*T, callers)
			recs := make([]saveRec, callers)
			for i := range copies {
				c := new(T)
				reflect.ValueOf(c).Elem().FieldByName("Key").SetString(key)
				tag := fmt.Sprintf("%s-r%d-c%d", key, round, i)
				g.fill(c, tag)
				_, v, _ := meta(c)
				*v = base
				copies[i] = c
				recs[i] = saveRec{Caller: i, Base: base, Tag: tag, Via: "Save"}
				if rng.Intn(4) == 0 {
					recs[i].Via = "SaveMulti"
				}
			}
			var wg sync.WaitGroup
			start := make(chan struct{})
			for i := range copies {
				wg.Add(1)
				go func(i int) {
					defer wg.Done()
					defer func() {
						if p := recover(); p != nil {
							recs[i].Err = "panic: " + fmt.Sprint(p)
							run.Violation("panic", kind+" Save", map[string]any{"panic": fmt.Sprint(p), "entity": fmt.Sprintf("%+v", *copies[i])})
						}
					}()
					<-start
					var err error
					recs[i].Call = mon.Stamp()
					if recs[i].Via == "SaveMulti" {
						err = repo.SaveMulti(ctx, copies[i])[0]
					} else {
						err = repo.Save(ctx, copies[i])
					}
					recs[i].Ret = mon.Stamp()
					if err != nil {
						recs[i].Err = err.Error()
						if errors.Is(err, om.ErrVersionMismatch) {
							recs[i].Err = "ErrVersionMismatch"
						}
					}
					_, v, _ := meta(copies[i])
					recs[i].VerAft = *v
				}(i)
			}
			close(start)
			wg.Wait()
			hist = append(hist, recs...)
			if len(hist) > 40 {
				hist = hist[len(hist)-40:]
			}
			winner := -1
			broken := false
			for i, r := range recs {
				switch r.Err {
				case "":
					wins[base]++
					winner = i
					run.Observe("saves_succeeded", 1)
				case "ErrVersionMismatch":
					run.Observe("saves_refused", 1)
				default:
					run.Inconclusive(kind + ": Save failed with something else than ErrVersionMismatch (unsupported by the fake server or outside the property): " + r.Err)
					broken = true
				}
				ops = append(ops, porcupine.Operation{ClientId: i, Input: regIn{save: true, base: r.Base, tag: r.Tag}, Call: r.Call, Output: regOut{ok: r.Err == "", ver: r.VerAft, tag: r.Tag}, Return: r.Ret})
			}
			if broken {
				break
			}
			run.Observe("rounds", 1)
			if callers > 1 {
				run.Observe("rounds_with_concurrent_saves", 1)
			}
			if stale {
				run.Observe("rounds_on_a_stale_version", 1)
			}
			refused, multi := 0, 0
			for _, r := range recs {
				if r.Err != "" {
					refused++
				}
				if r.Via == "SaveMulti" {
					multi++
				}
			}
			run.Case(fmt.Sprintf("%s onewire=%v callers=%d base=%d stale=%v first=%v refused=%d savemulti=%d", kind, oneWire, callers, min(base, 6), stale, !stored, refused, min(multi, 3)), callers > 1 || stale)
			wit := func() map[string]any {
				return map[string]any{"repository": kind, "key": key, "base_version": base, "stale_round": stale, "saves": hist}
			}
			if wins[base] > 1 {
				run.Violation("two-winners", fmt.Sprintf("%s callers=%d stale=%v", kind, callers, stale), wit())
				break
			}
			if winner < 0 {
				if !stale {
					run.Observe("rounds_without_winner_on_current_version", 1)
				}
				continue
			}
			if recs[winner].VerAft != base+1 {
				w := wit()
				w["winner"] = recs[winner]
				run.Violation("version-not-advanced-by-one", kind, w)
				break
			}
			saved := copies[winner]
			cur = saved
			stored = true
			// Fetch travels on the connection that carried the save (same key, same slot): when its reply arrives the
			// invalidation caused by the save has been processed, so the FetchCache calls that follow cannot be stale hits
			check := func(how string, got *T, err error) bool {
				if err != nil {
					run.Inconclusive(fmt.Sprintf("%s %s failed (unsupported by the fake server or outside the property): %v", kind, how, err))
					return false
				}
				run.Observe("fetches_compared", 1)
				sv, gv := reflect.ValueOf(saved).Elem(), reflect.ValueOf(got).Elem()
				same := true
				for i := 0; i < sv.NumField(); i++ { // every top-level field is judged on its own
					f := sv.Type().Field(i).Name
					p, d := diff("."+f, sv.Field(i), gv.Field(i))
					if p == "" {
						continue
					}
					same = false
					shape := "value"
					if strings.HasPrefix(d, "saved-nil=true") && p == "."+f && prevNonNil[f] {
						shape = "nil-after-non-nil"
					}
					w := wit()
					w["how"], w["field"], w["difference"] = how, p, d
					w["saved"], w["fetched"] = fmt.Sprintf("%+v", *saved), fmt.Sprintf("%+v", *got)
					run.Violation("roundtrip-mismatch", fmt.Sprintf("%s field=%s %s", kind, strings.TrimPrefix(p, "."), shape), w)
				}
				return same
			}
			fc := mon.Stamp()
			got, err := repo.Fetch(ctx, key)
			fr := mon.Stamp()
			okf := check("Fetch", got, err)
			if err == nil {
				_, gv, gtag := meta(got)
				ops = append(ops, porcupine.Operation{ClientId: 100, Input: regIn{}, Call: fc, Output: regOut{ver: *gv, tag: gtag}, Return: fr})
			}
			if okf && oneWire {
				got, err = repo.FetchCache(ctx, key, time.Minute)
				if check("FetchCache", got, err) {
					got, err = repo.FetchCache(ctx, key, time.Minute)
					check("FetchCache(again)", got, err)
					run.Observe("fetchcache_compared", 1)
				}
			} else if okf {
				// several wires: the invalidation reaches the caching connection asynchronously; an older entity may be served
				// for a while, but it must be one that was stored (version and content belong together) and it must go away
				converged := false
				for try := 0; try < 20000 && !converged; try++ {
					got, err = repo.FetchCache(ctx, key, time.Minute)
					if err != nil {
						run.Inconclusive(fmt.Sprintf("%s FetchCache failed (unsupported by the fake server or outside the property): %v", kind, err))
						break
					}
					_, gv, gtag := meta(got)
					if p, _ := diff("", reflect.ValueOf(saved).Elem(), reflect.ValueOf(got).Elem()); p == "" {
						converged = true
						break
					}
					if want, known := winnerTag[*gv]; *gv >= base+1 || !known || want != gtag {
						if *gv == base+1 && gtag == recs[winner].Tag {
							check("FetchCache", got, nil) // the current entity, but not equal to what was saved
						} else {
							w := wit()
							w["fetched_version"], w["fetched_tag"], w["winners_by_version"] = *gv, gtag, winnerTag
							run.Violation("fetchcache-returned-never-stored-state", kind, w)
						}
						break
					}
					run.Observe("fetchcache_stale_answers_before_invalidation", 1)
					runtime.Gosched()
					time.Sleep(50 * time.Microsecond)
				}
				if converged {
					run.Observe("fetchcache_compared", 1)
					run.Observe("fetchcache_converged_multiwire", 1)
				} else if err == nil {
					run.Inconclusive(kind + ": FetchCache over multiplexed wires did not converge within the polling bound")
				}
			}
			winnerTag[base+1] = recs[winner].Tag
			// remember which pointer fields are stored non-nil (to name the shape of a later difference)
			sv := reflect.ValueOf(saved).Elem()
			for i := 0; i < sv.NumField(); i++ {
				if sv.Field(i).Kind() == reflect.Ptr {
					n := sv.Type().Field(i).Name
					prevNonNil[n] = prevNonNil[n] || !sv.Field(i).IsNil()
				}
			}
			_ = okf // a difference has been reported; later rounds of this key are still judged field by field
		}
		switch res := porcupine.CheckOperationsTimeout(casModel, ops, 10*time.Second); res {
		case porcupine.Ok:
			run.Observe("keys_linearizable_as_cas_register", 1)
		case porcupine.Illegal:
			run.Violation("not-a-cas-register", kind, map[string]any{"repository": kind, "key": key, "saves": hist})
		default:
			run.Inconclusive("porcupine timed out")
		}
	}
	run.Observe("script_runs_"+kind, srv.TotalScriptRuns())
}

func TestC40(t *testing.T) {
	run := mon.Start(t, "C40", "exploration",
		"per repository kind (HashRepository, then JSONRepository over fakeredis's minimal JSON.SET/GET/NUMINCRBY) and entity key: rounds of 1-16 goroutines saving (Save or one-element SaveMulti) differently filled copies of the entity at its current version (one round in six at an outdated version), "+
			"then Fetch, FetchCache (miss) and FetchCache (hit) compared field by field with the winner's copy; field values generated over every kind om/conv.go converts (string incl. binary, int64 extremes, bool, *string/*int64/*bool/*struct nil and set, []byte, []float32/[]float64 incl. NaN/Inf/-0, struct / *struct / []struct as JSON, time.Time with the exat tag and plain, untagged field), JSON entity additionally []string, map, uint8, float64; "+
			"per key the saves and fetches also go to porcupine as a CAS-register history; a case = (repository, callers, base version, stale?, first save?), non-trivial when saves were concurrent or the base version was stale")
	defer run.Finish()
	run.Assume("fakeredis HSET/HGET/HGETALL/PEXPIREAT/JSON.SET/JSON.GET/JSON.NUMINCRBY, client tracking and minilua behave as Redis 7 + RedisJSON for the subset used (harness self tests); RedisJSON path support is limited to '$', '.', and one field",
		"strings inside JSON-encoded values are valid UTF-8 and floats finite (encoding/json cannot carry anything else); exat times lie in the 2090s so that no record expires during the run")
	rng := run.Rand("entities")
	ents, rounds := run.N(120, 2500), run.N(7, 12)
	for _, oneWire := range []bool{true, false} {
		exercise(run, "hash", oneWire, func(c rueidis.Client) om.Repository[HashEntity] { return om.NewHashRepository("c40h", HashEntity{}, c) }, ents, rounds, rng)
		exercise(run, "json", oneWire, func(c rueidis.Client) om.Repository[JSONEntity] { return om.NewJSONRepository("c40j", JSONEntity{}, c) }, ents, rounds, rng)
	}
	run.Extra("repositories_exercised", []string{"HashRepository", "JSONRepository (fakeredis minimal JSON.SET / JSON.GET / JSON.NUMINCRBY, paths '$', '.' and the bare version field)"})
	run.Sample(map[string]any{"hash_entity_fields": fieldKinds(HashEntity{}), "json_entity_fields": fieldKinds(JSONEntity{})})
	run.Require("rounds_with_concurrent_saves", "rounds_on_a_stale_version", "saves_succeeded", "saves_refused", "fetches_compared", "fetchcache_compared", "fetchcache_converged_multiwire", "keys_linearizable_as_cas_register", "script_runs_hash", "script_runs_json")
}

func fieldKinds(v any) []string {
	t := reflect.TypeOf(v)
	var out []string
	for i := 0; i < t.NumField(); i++ {
		out = append(out, t.Field(i).Name+" "+t.Field(i).Type.String())
	}
	return out
}
