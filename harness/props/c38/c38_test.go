// Package c38 drives rueidislimiter (real counting script on fakeredis + minilua) with concurrent callers and decides
// per (identifier, ResetAtMs) group: admitted units <= limit, Remaining linearizable against a sequential counter,
// all calls of a group inside one window of the clock.
package c38

import (
	"context"
	"fmt"
	"math/rand"
	"sort"
	"strings"
	"sync"
	"sync/atomic"
	"testing"
	"time"

	"github.com/anishathalye/porcupine"
	"github.com/redis/rueidis"
	"github.com/redis/rueidis/rueidislimiter"
	"verifh/drv"
	"verifh/fakeredis"
	"verifh/mon"
)

const addr = "127.0.0.1:6379"

type scenario struct {
	Name    string
	Limit   int
	Window  time.Duration
	Callers int
	Ops     int // calls per caller
	IDs     int
	Custom  bool // every call passes WithCustomRateLimit(Limit, Window); the constructor got other defaults
	Queue   string
	Virtual bool
	Seed    int64
}

func (s scenario) String() string {
	return fmt.Sprintf("%s limit=%d window=%v callers=%d ops=%d ids=%d custom=%v queue=%q virtual=%v", s.Name, s.Limit, s.Window, s.Callers, s.Ops, s.IDs, s.Custom, s.Queue, s.Virtual)
}

type call struct {
	Caller    int    `json:"caller"`
	Kind      string `json:"kind"`
	ID        string `json:"id"`
	N         int64  `json:"n"`
	Call      int64  `json:"call_stamp"`
	Ret       int64  `json:"return_stamp"`
	BeforeMs  int64  `json:"clock_before_ms"`
	AfterMs   int64  `json:"clock_after_ms"`
	Allowed   bool   `json:"allowed"`
	Remaining int64  `json:"remaining"`
	ResetAtMs int64  `json:"reset_at_ms"`
	Err       string `json:"err,omitempty"`
}

// play runs the workload of one scenario and returns every call with its stamps and result.
func play(run *mon.Run, sc scenario) (calls []call, scriptRuns int64) {
	rueidis.VerifSetQueueType(sc.Queue)
	defer rueidis.VerifSetQueueType("")
	srv := fakeredis.New(fakeredis.Options{NoLog: true, Seed: sc.Seed}, addr)
	defer srv.Close()
	opt := drv.Option(srv, addr)
	opt.DisableCache = true
	if sc.Virtual {
		opt.Dialer.KeepAlive = -1 // no background PING every virtual second (hour-long windows)
	}
	var client rueidis.Client
	ro := rueidislimiter.RateLimiterOption{
		ClientOption: opt, KeyPrefix: "c38", Limit: sc.Limit, Window: sc.Window,
		ClientBuilder: func(o rueidis.ClientOption) (rueidis.Client, error) {
			c, err := rueidis.NewClient(o)
			client = c
			return c, err
		},
	}
	var per []rueidislimiter.RateLimitOption
	if sc.Custom {
		ro.Limit, ro.Window = sc.Limit+7, sc.Window*3
		per = []rueidislimiter.RateLimitOption{rueidislimiter.WithCustomRateLimit(sc.Limit, sc.Window)}
	}
	lim, err := rueidislimiter.NewRateLimiter(ro)
	if err != nil {
		run.Inconclusive("NewRateLimiter: " + err.Error())
		return nil, 0
	}
	defer client.Close()

	ids := make([]string, sc.IDs)
	lastReset := make([]atomic.Int64, sc.IDs)
	for i := range ids {
		ids[i] = fmt.Sprintf("user-%d", i)
	}
	var mu sync.Mutex
	var wg sync.WaitGroup
	ctx := context.Background()
	ms := time.Millisecond
	for c := 0; c < sc.Callers; c++ {
		wg.Add(1)
		go func(c int) {
			defer wg.Done()
			rng := rand.New(rand.NewSource(sc.Seed*7919 + int64(c)))
			for j := 0; j < sc.Ops; j++ {
				idx := rng.Intn(sc.IDs)
				switch p := rng.Intn(100); {
				case p < 30: // burst: no pause
				case p < 60:
					time.Sleep(time.Duration(rng.Int63n(int64(sc.Window/3/ms)+1)) * ms)
				case p < 70:
					time.Sleep(time.Duration(rng.Int63n(int64(sc.Window/ms)+1)) * ms)
				default: // straddle the edge of the window this identifier was last counted in
					if r := lastReset[idx].Load(); r != 0 {
						if d := time.Until(time.UnixMilli(r + int64(rng.Intn(3)-1))); d > 0 && d <= sc.Window+2*ms {
							time.Sleep(d)
						}
					}
				}
				var n int64
				switch p := rng.Intn(100); {
				case p < 20:
					n = 0
				case p < 55:
					n = 1
				case p < 70:
					n = 2
				case p < 85:
					n = int64(sc.Limit)
				default:
					n = int64(sc.Limit) + 1
				}
				rec := call{Caller: c, ID: ids[idx], N: n}
				var res rueidislimiter.Result
				var err error
				func() {
					defer func() {
						if p := recover(); p != nil {
							err = fmt.Errorf("panic: %v", p)
							run.Violation("panic", sc.Name, map[string]any{"scenario": sc.String(), "panic": fmt.Sprint(p)})
						}
					}()
					before := time.Now()
					rec.Call = mon.Stamp()
					switch {
					case n == 0 && rng.Intn(2) == 0:
						rec.Kind = "Check"
						res, err = lim.Check(ctx, rec.ID, per...)
					case n == 1 && rng.Intn(2) == 0:
						rec.Kind = "Allow"
						res, err = lim.Allow(ctx, rec.ID, per...)
					default:
						rec.Kind = "AllowN"
						res, err = lim.AllowN(ctx, rec.ID, n, per...)
					}
					rec.Ret = mon.Stamp()
					rec.BeforeMs, rec.AfterMs = before.UnixMilli(), time.Now().UnixMilli()
				}()
				if err != nil {
					rec.Err = err.Error()
				} else {
					rec.Allowed, rec.Remaining, rec.ResetAtMs = res.Allowed, res.Remaining, res.ResetAtMs
					lastReset[idx].Store(res.ResetAtMs)
				}
				mu.Lock()
				calls = append(calls, rec)
				mu.Unlock()
			}
		}(c)
	}
	wg.Wait()
	return calls, srv.TotalScriptRuns()
}

type linIn struct{ n int64 }
type linOut struct{ remaining int64 }

func counterModel(limit int64) porcupine.Model {
	return porcupine.Model{
		Init: func() any { return int64(0) },
		Step: func(state, in, out any) (bool, any) {
			s := state.(int64) + in.(linIn).n
			return out.(linOut).remaining == max(limit-s, 0), s
		},
		Equal: func(a, b any) bool { return a.(int64) == b.(int64) },
		DescribeOperation: func(in, out any) string {
			return fmt.Sprintf("request %d -> remaining %d", in.(linIn).n, out.(linOut).remaining)
		},
	}
}

// judge evaluates the calls of one scenario.
func judge(run *mon.Run, sc scenario, calls []call) {
	type gkey struct {
		id string
		r  int64
	}
	groups := map[gkey][]call{}
	for _, c := range calls {
		if c.Err != "" {
			run.Inconclusive("limiter call failed (unsupported by the fake server or outside the property): " + c.Err)
			run.Observe("call_errors", 1)
			return // a failed call may or may not have been counted: the group sums are not decidable
		}
		groups[gkey{c.ID, c.ResetAtMs}] = append(groups[gkey{c.ID, c.ResetAtMs}], c)
	}
	mode := "real-time"
	if sc.Virtual {
		mode = "virtual"
	}
	vkey := fmt.Sprintf("%s limit=%d window=%v", mode, sc.Limit, sc.Window)
	limit, wms := int64(sc.Limit), sc.Window.Milliseconds()
	perID := map[string][]int64{}
	var keys []gkey
	for k := range groups {
		keys = append(keys, k)
		perID[k.id] = append(perID[k.id], k.r)
	}
	sort.Slice(keys, func(i, j int) bool {
		return keys[i].id < keys[j].id || (keys[i].id == keys[j].id && keys[i].r < keys[j].r)
	})
	// ResetAtMs identifies a window: two windows of one identifier never overlap (a new one starts only after the old one ended)
	for id, rs := range perID {
		sort.Slice(rs, func(i, j int) bool { return rs[i] < rs[j] })
		for i := 1; i < len(rs); i++ {
			run.Observe("consecutive_windows_compared", 1)
			if rs[i]-rs[i-1] < wms {
				run.Violation("overlapping-windows", vkey, map[string]any{"scenario": sc.String(), "identifier": id, "reset_at_ms": []int64{rs[i-1], rs[i]}, "window_ms": wms})
			}
		}
		if len(rs) > 1 {
			run.Observe("identifiers_seen_in_several_windows", 1)
		}
	}
	for _, k := range keys {
		g := groups[k]
		sort.Slice(g, func(i, j int) bool { return g[i].Call < g[j].Call })
		var admitted, requested int64
		var nAllowed, nDenied, nCheck, overlaps int
		maxRet := int64(0)
		ns := map[int64]bool{}
		for _, c := range g {
			requested += c.N
			ns[c.N] = true
			if c.N == 0 {
				nCheck++
			}
			if c.N > 0 && c.Allowed {
				admitted += c.N
				nAllowed++
			} else if c.N > 0 {
				nDenied++
			}
			if c.Call < maxRet {
				overlaps++
			}
			maxRet = max(maxRet, c.Ret)
		}
		run.Observe("groups", 1)
		run.Observe("calls", int64(len(g)))
		run.Observe("admitted_calls", int64(nAllowed))
		run.Observe("denied_calls", int64(nDenied))
		run.Observe("check_calls", int64(nCheck))
		run.Observe("overlapping_calls", int64(overlaps))
		if requested > limit {
			run.Observe("groups_requesting_more_than_the_limit", 1)
		}
		nontrivial := overlaps > 0 || requested > limit
		run.Case(fmt.Sprintf("%s limit=%d window=%v callers=%d custom=%v calls=%d allowed=%d denied=%d checks=%d overlaps=%d requested/limit=%d ns=%d", mode, sc.Limit, sc.Window, sc.Callers, sc.Custom,
			min(len(g), 12), min(nAllowed, 6), min(nDenied, 6), min(nCheck, 4), min(overlaps, 6), min(requested*2/limit, 8), len(ns)), nontrivial)
		wit := func() map[string]any {
			gg := g
			if len(gg) > 60 {
				gg = gg[:60]
			}
			return map[string]any{"scenario": sc.String(), "identifier": k.id, "reset_at_ms": k.r, "limit": limit, "calls": gg}
		}
		if admitted > limit {
			w := wit()
			w["admitted_units"] = admitted
			run.Violation("over-admission", vkey, w)
		}
		if sc.Virtual {
			// every call of the group lies inside the window [ResetAtMs-window, ResetAtMs] of the (virtual) clock
			for _, c := range g {
				run.Observe("window_membership_checks", 1)
				if c.BeforeMs > k.r || c.AfterMs < k.r-wms {
					w := wit()
					w["call"] = c
					run.Violation("call-outside-its-window", vkey, w)
					break
				}
				if c.BeforeMs >= k.r-1 || c.BeforeMs <= k.r-wms+1 {
					run.Observe("calls_within_1ms_of_a_window_edge", 1)
				}
			}
		}
		ops := make([]porcupine.Operation, len(g))
		for i, c := range g {
			ops[i] = porcupine.Operation{ClientId: c.Caller, Input: linIn{c.N}, Call: c.Call, Output: linOut{c.Remaining}, Return: c.Ret}
		}
		exact := exactCounterCheck(g, limit)
		switch res := porcupine.CheckOperationsTimeout(counterModel(limit), ops, time.Second); res {
		case porcupine.Ok:
			run.Observe("groups_linearizable", 1)
			run.Observe("groups_decided_by_porcupine", 1)
			if !exact {
				run.Inconclusive("porcupine accepts a group that the exact counter checker rejects (harness disagreement)")
			}
		case porcupine.Illegal:
			run.Observe("groups_decided_by_porcupine", 1)
			if exact {
				run.Inconclusive("porcupine rejects a group that the exact counter checker accepts (harness disagreement)")
			}
			run.Violation("remaining-not-linearizable", vkey, wit())
		default:
			// WGL search is exponential on wide bursts (dozens of overlapping calls answering 0); the counter model has an exact
			// polynomial decision procedure, cross-checked against porcupine on every group porcupine decides
			run.Observe("groups_porcupine_timeout_decided_by_exact_checker", 1)
			if exact {
				run.Observe("groups_linearizable", 1)
			} else {
				run.Violation("remaining-not-linearizable", vkey, wit())
			}
		}
	}
}

// exactCounterCheck decides whether the calls of one group have a linearization against the sequential model
// "counter += n; remaining = max(limit-counter, 0)" that respects real-time order (a.Ret < b.Call => a before b).
// The counter never decreases, so every call answering remaining>0 fixes the counter after it (limit-remaining) and precedes
// every call answering 0; calls with equal counters are one call with the right n followed by calls with n == 0; the first call
// answering 0 must lift the counter to the limit. What is left open is checked as acyclicity of model order + real-time order.
func exactCounterCheck(g []call, limit int64) bool {
	n := len(g)
	var pos, zero []int
	for i, c := range g {
		if c.Remaining < 0 || c.Remaining > limit {
			return false
		}
		if c.Remaining > 0 {
			pos = append(pos, i)
		} else {
			zero = append(zero, i)
		}
	}
	sort.SliceStable(pos, func(a, b int) bool { return g[pos[a]].Remaining > g[pos[b]].Remaining }) // ascending counter
	type level struct {
		leader  int // -1: none
		members []int
	}
	var levels []level
	prev := int64(0)
	for i := 0; i < len(pos); {
		v := limit - g[pos[i]].Remaining
		j := i
		lv := level{leader: -1}
		for ; j < len(pos) && limit-g[pos[j]].Remaining == v; j++ {
			c := g[pos[j]]
			switch {
			case c.N == 0:
				lv.members = append(lv.members, pos[j])
			case c.N == v-prev && lv.leader < 0:
				lv.leader = pos[j]
			default:
				return false
			}
		}
		if v > prev && lv.leader < 0 {
			return false // nobody moved the counter from prev to v
		}
		levels = append(levels, lv)
		prev = v
		i = j
	}
	base := make([][]int, n) // model-order edges a -> b (a before b)
	var last []int           // everything on the previous level
	for _, lv := range levels {
		var cur []int
		if lv.leader >= 0 {
			cur = append(cur, lv.leader)
			for _, m := range lv.members {
				base[lv.leader] = append(base[lv.leader], m)
			}
		}
		cur = append(cur, lv.members...)
		for _, a := range last {
			for _, b := range cur {
				base[a] = append(base[a], b)
			}
		}
		last = cur
	}
	for _, a := range pos {
		for _, b := range zero {
			base[a] = append(base[a], b)
		}
	}
	for a := 0; a < n; a++ {
		for b := 0; b < n; b++ {
			if a != b && g[a].Ret < g[b].Call {
				base[a] = append(base[a], b)
			}
		}
	}
	acyclic := func(first int) bool {
		indeg := make([]int, n)
		extra := map[int][]int{}
		if first >= 0 {
			for _, z := range zero {
				if z != first {
					extra[first] = append(extra[first], z)
				}
			}
		}
		for a := 0; a < n; a++ {
			for _, b := range base[a] {
				indeg[b]++
			}
			for _, b := range extra[a] {
				indeg[b]++
			}
		}
		var q []int
		for i, d := range indeg {
			if d == 0 {
				q = append(q, i)
			}
		}
		seen := 0
		for len(q) > 0 {
			a := q[len(q)-1]
			q = q[:len(q)-1]
			seen++
			for _, b := range append(append([]int(nil), base[a]...), extra[a]...) {
				if indeg[b]--; indeg[b] == 0 {
					q = append(q, b)
				}
			}
		}
		return seen == n
	}
	if len(zero) == 0 {
		return acyclic(-1)
	}
	for _, z := range zero {
		if prev+g[z].N >= limit && acyclic(z) {
			return true
		}
	}
	return false
}

func TestC38(t *testing.T) {
	run := mon.Start(t, "C38", "exploration",
		"2-32 concurrent callers over 1-3 identifiers calling Check / Allow / AllowN with n in {0,1,2,limit,limit+1}, limits 1-50, windows 10 ms-1 h in synctest bubbles (virtual clock shared by the limiter's time.Now and fakeredis) and 25-120 ms in real time (schedule diversity; -race), default limits and per-call WithCustomRateLimit, "+
			"pauses: none (bursts), random, and until 1 ms before / at / 1 ms after the ResetAtMs last seen for the identifier; results grouped by (identifier, ResetAtMs); "+
			"a case = (clock mode, limit, window, callers, group shape: calls, admitted, denied, checks, overlapping calls, requested/limit, distinct n), non-trivial when calls of the group overlapped or the group requested more than the limit")
	defer run.Finish()
	run.Assume("fakeredis GET/SET PXAT/INCRBY and minilua execute the counting script as Redis 7 would (harness self tests)",
		"call/return stamps come from one logical clock (mon.Stamp); a call whose return stamp precedes another's call stamp really finished before it started",
		"window membership is judged on the virtual clock only; real-time runs decide nothing from the wall clock")
	rng := run.Rand("scenarios")
	limits := []int{1, 2, 3, 5, 10, 50}
	vwindows := []time.Duration{10 * time.Millisecond, 25 * time.Millisecond, 100 * time.Millisecond, time.Second, time.Minute, time.Hour}
	nv := run.N(120, 3000)
	for i := 0; i < nv; i++ {
		sc := scenario{Name: fmt.Sprintf("bubble-%d", i), Limit: limits[rng.Intn(len(limits))], Window: vwindows[i%len(vwindows)], Callers: []int{2, 3, 4, 8, 16, 32}[rng.Intn(6)],
			IDs: 1 + rng.Intn(3), Custom: rng.Intn(3) == 0, Queue: []string{"flowbuffer", ""}[i%2], Virtual: true, Seed: run.Seed*100003 + int64(i)}
		sc.Ops = max(3, 96/sc.Callers+rng.Intn(6))
		var calls []call
		var scripts int64
		dl, stacks := drv.Bubble(t, func() { calls, scripts = play(run, sc) })
		if dl != "" {
			run.Inconclusive("bubble ended with blocked goroutines: " + strings.Join(drv.RueidisFrames(stacks), "; "))
			run.Observe("bubble_deadlocks", 1)
			continue
		}
		run.Observe("bubbles", 1)
		run.Observe("script_runs", scripts)
		judge(run, sc, calls)
		if i < 3 {
			run.Sample(map[string]any{"scenario": sc.String(), "first_calls": calls[:min(len(calls), 6)]})
		}
	}
	rwindows := []time.Duration{25 * time.Millisecond, 60 * time.Millisecond, 120 * time.Millisecond, time.Hour}
	nr := run.N(16, 300)
	for i := 0; i < nr; i++ {
		sc := scenario{Name: fmt.Sprintf("realtime-%d", i), Limit: limits[rng.Intn(len(limits))], Window: rwindows[i%len(rwindows)], Callers: []int{2, 4, 8, 16, 32}[rng.Intn(5)],
			IDs: 1 + rng.Intn(2), Custom: rng.Intn(3) == 0, Queue: []string{"", "flowbuffer"}[i%2], Seed: run.Seed*200003 + int64(i)}
		sc.Ops = max(3, 128/sc.Callers)
		if sc.Window == time.Hour {
			sc.Window = 40 * time.Millisecond // pauses are drawn from the window; the hour-long window is exercised in virtual time
		}
		calls, scripts := play(run, sc)
		run.Observe("realtime_runs", 1)
		run.Observe("script_runs", scripts)
		judge(run, sc, calls)
		if i == 0 {
			run.Sample(map[string]any{"scenario": sc.String(), "first_calls": calls[:min(len(calls), 6)]})
		}
	}
	run.Require("groups", "overlapping_calls", "admitted_calls", "denied_calls", "check_calls", "groups_requesting_more_than_the_limit", "groups_linearizable", "groups_decided_by_porcupine", "window_membership_checks",
		"calls_within_1ms_of_a_window_edge", "identifiers_seen_in_several_windows", "consecutive_windows_compared", "script_runs")
}
