package c23

import (
	"fmt"
	"runtime"
	"strings"
	"time"

	"github.com/redis/rueidis"
	"verifh/drv"
	"verifh/fakeredis"
	"verifh/mon"
)

// burstProbe runs in real time (not in a bubble: the situation it looks for parks a goroutine on a mutex, which would stall
// a bubble for ever). A fail-over whose new master answers ROLE "slave" once makes the client start a refresh; the
// +switch-master event is repeated `events` times in one burst. The verdict is structural, not timed: either the server
// sees the refresh complete (UNSUBSCRIBE answered, SUBSCRIBE renewed, the new master probed as master), or one goroutine
// dump shows the cycle reader -> subscription buffer -> event handler -> client mutex -> refresh -> reader.
func burstProbe(run *mon.Run, events int) {
	srv := fakeredis.New(fakeredis.Options{LogReplies: true})
	m := srv.AddNode("127.0.0.1:6379", "master", nil)
	srv.AddNode("127.0.0.1:6380", "slave", m)
	s1 := srv.AddNode("127.0.0.1:26379", "sentinel", nil)
	s1.ConfigureSentinel(masterSet, "127.0.0.1:6379", []fakeredis.SentinelReplica{{Addr: "127.0.0.1:6380"}}, nil)
	opt := drv.Option(srv, "127.0.0.1:26379")
	opt.Sentinel.MasterSet = masterSet
	client, err := rueidis.NewClient(opt)
	if err != nil {
		run.Inconclusive("burst probe: client setup failed: " + err.Error())
		return
	}
	subscribed := func() int {
		n := 0
		for _, e := range srv.Log() {
			if e.Kind == "exec" && len(e.Argv) > 0 && e.Argv[0] == "SUBSCRIBE" {
				n++
			}
		}
		return n
	}
	for i := 0; i < 200 && subscribed() == 0; i++ {
		time.Sleep(5 * time.Millisecond)
	}
	before := subscribed()
	srv.Plan(&fakeredis.Rule{Name: "flip", Times: 1, Match: func(c *fakeredis.Conn, a []string) bool {
		return c.NodeAddr() == "127.0.0.1:6380" && strings.EqualFold(a[0], "ROLE")
	}, Action: fakeredis.Action{Reply: slaveReply("127.0.0.1:6379")}})
	srv.Promote("127.0.0.1:6380")
	s1.ConfigureSentinel(masterSet, "127.0.0.1:6380", []fakeredis.SentinelReplica{{Addr: "127.0.0.1:6379"}}, nil)
	for i := 0; i < events; i++ {
		s1.SentinelEvent("+switch-master", masterSet+" 127.0.0.1 6379 127.0.0.1 6380")
	}
	for i := 0; i < 100; i++ {
		time.Sleep(50 * time.Millisecond)
		if subscribed() > before {
			// the refresh that followed the failed switch went through
			run.Observe("burst_probe_refresh_completed", 1)
			client.Close()
			srv.Close()
			return
		}
		buf := make([]byte, 1<<20)
		buf = buf[:runtime.Stack(buf, true)]
		reader, handler, refresh := "", "", ""
		for _, g := range strings.Split(string(buf), "\n\n") {
			switch {
			case strings.Contains(g, "[chan send") && strings.Contains(g, "(*subs).Publish") && strings.Contains(g, "_backgroundRead"):
				reader = g
			case strings.Contains(g, "Mutex.Lock") && strings.Contains(g, "(*sentinelClient).switchTargetRetry"):
				handler = g
			case strings.Contains(g, "[chan receive") && strings.Contains(g, "(*sentinelClient).listWatch(") && strings.Contains(g, "(*sentinelClient)._refresh"):
				refresh = g
			}
		}
		if reader != "" && handler != "" && refresh != "" {
			run.Observe("burst_probe_deadlocked", 1)
			run.Violation("sentinel-client-deadlock", "burst-of->16-events-while-refresh-in-flight", map[string]any{
				"history": fmt.Sprintf("+switch-master to a node that answers ROLE slave once (refresh starts), the event repeated %d times in one burst", events),
				"cycle":   "pipe reader blocked sending the 17th+ message into the subscription's 16-slot buffer (pubsub.go Publish) -> the Receive callback is blocked in switchTargetRetry on sentinelClient.mu -> _refresh holds that mutex and waits in listWatch for the UNSUBSCRIBE reply on the same connection -> which only the blocked reader could deliver",
				"effect":  "the client never follows another fail-over and Close() blocks for ever",
				"reader":  drv.Tail(reader, 1500), "handler": drv.Tail(handler, 1500), "refresh": drv.Tail(refresh, 1500)})
			return // the client cannot be closed any more
		}
	}
	run.Inconclusive(fmt.Sprintf("burst probe with %d events: neither completion nor the deadlock cycle was observed", events))
}
