package c23

import (
	"context"
	"sync/atomic"
	"crypto/tls"
	"net"
	"fmt"
	"math/rand"
	"os"
	"runtime"
	"strings"
	"sync"
	"testing"
	"testing/synctest"
	"time"

	"github.com/redis/rueidis"
	"verifh/drv"
	"verifh/fakeredis"
	"verifh/mon"
	"verifh/resp"
)

const masterSet = "mymaster"

// guard is a real-time guard around one bubble: a bubble in which some goroutine spins (or waits for a mutex held by a
// parked goroutine) never lets virtual time advance and never ends. That is harness trouble, never a verdict.
func guard(name string) func() {
	t := time.AfterFunc(240*time.Second, func() {
		buf := make([]byte, 1<<20)
		buf = buf[:runtime.Stack(buf, true)]
		fmt.Printf("BROKEN property=C23 bubble %s did not end (real-time guard)\n%s\n", name, buf)
		os.Exit(2)
	})
	return func() { t.Stop() }
}

type issued struct {
	class  string // "w": primary-only command, "r": read-only command
	stamp  int64  // logical clock when the call was issued
	at     time.Time // virtual time when the call was issued
	settle string // != "": the master the command must reach (settle probe)
	after  string // kind of step the settle probe follows
	group  string // settle probes are judged per batch: a wire that died (killed connection) fails one command before it is re-dialled
	err    string // outcome of the call
	step   int
	need   string // role the receiving node must have answered: "master" (primary traffic) or "slave" (replica traffic)
	api    string // client method the command went through: Do, DoMulti, DoCache, DoMultiCache
	// calls that are outstanding while a fail-over happens (see spanCalls)
	span      bool
	fault     string // what made the first attempt fail or hang: delay, close, loading
	eligible  bool   // the client promises to retry it: retries enabled and (read-only command or client-side-caching method)
	delivered bool   // the +switch-master of that fail-over reached the client
	newMaster string // the master the sentinels named in it
	faulted   bool   // (judge) the server logged the fault for it
}

type sentinelCfg struct {
	addr   string
	up     bool
	master string // what it reports
	reps   []fakeredis.SentinelReplica
}

type world struct {
	run   *mon.Run
	rng   *rand.Rand
	srv   *fakeredis.Server
	mode  int // 0 master only, 1 ReplicaOnly, 2 SendToReplicas
	data  []string
	alive map[string]bool
	sdown map[string]bool
	cur   string
	sents []*sentinelCfg
	nodes map[string]*fakeredis.Node

	mu     sync.Mutex
	roleAt map[int64]time.Time   // seq of a ROLE reply -> virtual time it was sent
	slaveAnswers map[string]int  // node -> ROLE replies saying slave so far
	dialer map[int64]*net.Dialer // conn -> the option set (master / replica / sentinel purpose) it was dialled with
	issued map[string]*issued
	seq    int
	name   string
	trace  []string

	rng2    *rand.Rand // choices of the later-added situations; only used by the history's own goroutine
	mix     uint64     // per-history constant that spreads the client methods over the traffic
	pinned  bool       // mode 2: read-only commands on keys "pk..." are primary traffic (SendToReplicas says no)
	retry   bool       // the client retries
	faultOn atomic.Bool
	held    []int64 // connections on which a node is sitting on the reply of an outstanding call (under mu)
}

func (w *world) logf(format string, a ...any) {
	w.mu.Lock()
	w.trace = append(w.trace, fmt.Sprintf(format, a...))
	w.mu.Unlock()
}

func slaveReply(master string) *resp.V {
	h, p := split(master)
	v := resp.Arr(resp.Bulk("slave"), resp.Bulk(h), resp.Int(p), resp.Bulk("connected"), resp.Int(0))
	return &v
}

func masterReply() *resp.V {
	v := resp.Arr(resp.Bulk("master"), resp.Int(0), resp.Arr())
	return &v
}

func split(addr string) (string, int64) {
	i := strings.LastIndexByte(addr, ':')
	var p int64
	fmt.Sscanf(addr[i+1:], "%d", &p)
	return addr[:i], p
}

func hp(addr string) string {
	h, p := split(addr)
	return fmt.Sprintf("%s %d", h, p)
}

// replicasFor lists every data node except the master, with the current s_down flags.
func (w *world) replicasFor(master string) []fakeredis.SentinelReplica {
	var out []fakeredis.SentinelReplica
	for _, d := range w.data {
		if d != master {
			out = append(out, fakeredis.SentinelReplica{Addr: d, SDown: w.sdown[d]})
		}
	}
	return out
}

// good reports whether a sentinel is up and reports a usable topology for the client's mode.
func (w *world) good(s *sentinelCfg) bool {
	if !s.up || s.master != w.cur || !w.alive[w.cur] {
		return false
	}
	if w.mode == 0 {
		return true
	}
	for _, r := range s.reps {
		if !r.SDown && w.alive[r.Addr] && r.Addr != w.cur {
			return true
		}
	}
	return false
}

func (w *world) anyGood() bool {
	for _, s := range w.sents {
		if w.good(s) {
			return true
		}
	}
	return false
}

func (w *world) apply(s *sentinelCfg) {
	var others []string
	for _, o := range w.sents {
		if o != s {
			others = append(others, o.addr)
		}
	}
	w.srv.Node(s.addr).ConfigureSentinel(masterSet, s.master, s.reps, others)
}

// update makes a sentinel report the current topology.
func (w *world) update(s *sentinelCfg) {
	s.master = w.cur
	s.reps = w.replicasFor(w.cur)
	w.apply(s)
}

func (w *world) setUp(s *sentinelCfg, up bool) {
	s.up = up
	w.srv.Lock()
	w.nodes[s.addr].Down = !up
	w.srv.Unlock()
	if !up {
		w.srv.KillAll(s.addr)
	}
}

func (w *world) setAlive(addr string, up bool) {
	w.alive[addr] = up
	w.srv.Lock()
	w.nodes[addr].Down = !up
	w.srv.Unlock()
	if !up {
		w.srv.KillAll(addr)
	}
}

// emit publishes an event on every up sentinel and returns how many subscribed connections received it.
func (w *world) emit(channel, msg string, only func(*sentinelCfg) bool) int {
	n := 0
	for _, s := range w.sents {
		if s.up && (only == nil || only(s)) {
			n += w.srv.Node(s.addr).SentinelEvent(channel, msg)
		}
	}
	return n
}

func (w *world) traffic(client rueidis.Client, step int, class string, n int, settle string, after ...string) {
	for i := 0; i < n; i++ {
		w.mu.Lock()
		w.seq++
		seq := w.seq
		uid := fmt.Sprintf("%s-%s-%d", w.name, class, seq)
		key := fmt.Sprintf("k%d", seq%5)
		is := &issued{class: class, stamp: mon.Stamp(), at: time.Now(), settle: settle, step: step, need: w.needFor(class, key), api: "Do"}
		if len(after) > 0 {
			is.after = after[0]
			is.group = fmt.Sprintf("%s/%d/%s", w.name, step, after[0])
		}
		w.issued[uid] = is
		w.mu.Unlock()
		ctx, cancel := context.WithTimeout(context.Background(), 3*time.Second)
		var err error
		if class == "w" {
			err = client.Do(ctx, client.B().Arbitrary("VERIF.WRITE").Keys(key).Args(uid).Build()).Error()
		} else {
			err = client.Do(ctx, client.B().Arbitrary("VERIF.ECHO").Keys(key).Args(uid).ReadOnly()).Error()
		}
		cancel()
		if err != nil {
			w.mu.Lock()
			is.err = err.Error()
			w.mu.Unlock()
		}
	}
}

// needFor says which role the node receiving a command must have answered: replica traffic is what the client's options
// send to replicas (everything with ReplicaOnly, whatever SendToReplicas accepts otherwise), the rest is primary traffic.
func (w *world) needFor(class, key string) string {
	switch w.mode {
	case 1:
		return "slave"
	case 2:
		if class == "r" && !(w.pinned && strings.HasPrefix(key, "pk")) {
			return "slave"
		}
	}
	return "master"
}

var apis = []string{"Do", "DoMulti", "DoCache", "DoMultiCache"}

// apiFor spreads the four client methods over the calls (a pure function of the history and the call number: it is
// also used by the background goroutine). Primary-only commands are not cacheable: Do / DoMulti only.
func (w *world) apiFor(class string, n int) string {
	h := (uint64(n)*0x9E3779B97F4A7C15 + w.mix) >> 33
	if class == "w" {
		return apis[h%2]
	}
	return apis[h%4]
}

// call sends one client call of the given method carrying 1-3 commands of one class (one command for Do / DoCache), each
// with its own unique id. Read-only commands are VERIF.ECHO <key> <uid> through Do / DoMulti and HGET <key> <uid> (a
// cacheable command, never a cache hit because the field is unique) through DoCache / DoMultiCache. marker != "" makes
// the ids end in "~"+marker, which the fault rules of spanCalls match. fill completes the bookkeeping entry.
func (w *world) call(client rueidis.Client, step int, class, api, marker string, fill func(*issued)) {
	n := 1
	if api == "DoMulti" || api == "DoMultiCache" {
		w.mu.Lock()
		n = 1 + (w.seq+int(w.mix%7))%3
		w.mu.Unlock()
	}
	uids := make([]string, n)
	keys := make([]string, n)
	iss := make([]*issued, n)
	w.mu.Lock()
	pin := false
	for i := 0; i < n; i++ {
		w.seq++
		seq := w.seq
		if i == 0 {
			pin = w.pinned && class == "r" && (uint64(seq)*0xD6E8FEB86659FD93+w.mix)>>40%2 == 0
		}
		uids[i] = fmt.Sprintf("%s-%s-%d", w.name, class, seq)
		if marker != "" {
			uids[i] += "~" + marker
		}
		keys[i] = fmt.Sprintf("k%d", seq%5)
		if pin { // one batch is either all primary or all replica traffic
			keys[i] = "p" + keys[i]
		}
		iss[i] = &issued{class: class, stamp: mon.Stamp(), at: time.Now(), step: step, need: w.needFor(class, keys[i]), api: api}
		if fill != nil {
			fill(iss[i])
		}
		w.issued[uids[i]] = iss[i]
	}
	w.mu.Unlock()
	w.run.Observe("calls_"+api, 1)
	ctx, cancel := context.WithTimeout(context.Background(), 3*time.Second)
	errs := make([]error, n)
	plain := func(i int) rueidis.Completed {
		if class == "w" {
			return client.B().Arbitrary("VERIF.WRITE").Keys(keys[i]).Args(uids[i]).Build()
		}
		return client.B().Arbitrary("VERIF.ECHO").Keys(keys[i]).Args(uids[i]).ReadOnly()
	}
	switch api {
	case "Do":
		errs[0] = client.Do(ctx, plain(0)).Error()
	case "DoMulti":
		cs := make([]rueidis.Completed, n)
		for i := range cs {
			cs[i] = plain(i)
		}
		for i, r := range client.DoMulti(ctx, cs...) {
			errs[i] = r.Error()
		}
	case "DoCache":
		errs[0] = client.DoCache(ctx, client.B().Hget().Key(keys[0]).Field(uids[0]).Cache(), time.Minute).Error()
	case "DoMultiCache":
		cs := make([]rueidis.CacheableTTL, n)
		for i := range cs {
			cs[i] = rueidis.CT(client.B().Hget().Key(keys[i]).Field(uids[i]).Cache(), time.Minute)
		}
		for i, r := range client.DoMultiCache(ctx, cs...) {
			errs[i] = r.Error()
		}
	}
	cancel()
	w.mu.Lock()
	for i, err := range errs {
		if err != nil && !rueidis.IsRedisNil(err) { // the hash field does not exist: a nil reply is an answer
			iss[i].err = err.Error()
		}
	}
	w.mu.Unlock()
}

// mixed is plain traffic like traffic(), spread over the four client methods.
func (w *world) mixed(client rueidis.Client, step int, class string, n int) {
	for i := 0; i < n; i++ {
		w.mu.Lock()
		s := w.seq
		w.mu.Unlock()
		w.call(client, step, class, w.apiFor(class, s), "", nil)
	}
}

// spanCalls starts 2-5 client calls (each its own goroutine, method and class) whose first attempt meets a failing node:
// the reply is delayed (the call is in flight), the connection is closed on it, or the node answers LOADING. The caller
// then runs the fail-over; whatever the client does with these calls afterwards (re-sending them is its retry contract)
// is traffic routed after the switch.
func (w *world) spanCalls(client rueidis.Client, step int, wg *sync.WaitGroup) []*issued {
	var started []*issued
	n := 2 + w.rng2.Intn(4)
	cl := w.classes()
	var mu sync.Mutex
	for i := 0; i < n; i++ {
		class := cl[w.rng2.Intn(len(cl))]
		if len(cl) > 1 && w.rng2.Intn(3) == 0 {
			class = "r" // two in three read-only: those are the calls every method retries
		}
		api := apis[w.rng2.Intn(4)]
		if class == "w" {
			api = apis[w.rng2.Intn(2)]
		}
		fault := []string{"delay", "slow", "close", "loading"}[w.rng2.Intn(4)]
		eligible := w.retry && (class == "r" || api == "DoCache" || api == "DoMultiCache")
		wg.Add(1)
		go func() {
			defer wg.Done()
			w.call(client, step, class, api, fault, func(is *issued) {
				is.span, is.fault, is.eligible = true, fault, eligible
				mu.Lock()
				started = append(started, is)
				mu.Unlock()
			})
		}()
	}
	synctest.Wait() // every call is parked: waiting for the delayed reply or for its first retry timer
	mu.Lock()
	defer mu.Unlock()
	return append([]*issued(nil), started...)
}

func (w *world) classes() []string {
	switch w.mode {
	case 1:
		return []string{"r"}
	default:
		return []string{"w", "r"}
	}
}

type caseResult struct {
	fp         string
	nontrivial bool
}

func oneHistory(run *mon.Run, t *testing.T, idx int, seed int64) {
	name := fmt.Sprintf("h%d", idx)
	var res caseResult
	resCh := make(chan caseResult, 1)
	dl, stacks, frozen := drv.BubbleGuarded(t, func() { resCh <- history(run, name, seed) }, 240*time.Second)
	if frozen == "mutex-wait" {
		// synctest's blind spot (see drv.BubbleGuarded): the history is abandoned and not judged
		run.Observe("histories_abandoned_bubble_clock_frozen_by_mutex_wait", 1)
		run.Inconclusive("a history was abandoned: its bubble's clock was frozen by a goroutine waiting for a mutex (harness limit)")
		return
	}
	if frozen != "" {
		fmt.Printf("BROKEN property=C23 bubble %s did not end (real-time guard)\n%s\n", name, stacks)
		os.Exit(2)
	}
	select {
	case res = <-resCh:
	default:
	}
	if dl != "" {
		run.Violation("hang-or-leak", "sentinel|"+strings.Join(drv.RueidisFrames(stacks), ";"), map[string]any{"case": name, "seed": seed, "synctest": dl, "rueidis_frames": drv.RueidisFrames(stacks), "stacks": drv.Tail(stacks, 12000)})
	}
	if res.fp != "" {
		run.Case(res.fp, res.nontrivial)
	}
}

func history(run *mon.Run, name string, seed int64) (res caseResult) {
	rng := rand.New(rand.NewSource(seed))

	srv := fakeredis.New(fakeredis.Options{Seed: seed, LogReplies: true})
	idxm := map[string]*fakeredis.Node{}
	defer srv.Close()

	w := &world{run: run, rng: rng, srv: srv, mode: rng.Intn(3), nodes: idxm, alive: map[string]bool{}, sdown: map[string]bool{}, issued: map[string]*issued{}, name: name, roleAt: map[int64]time.Time{}, slaveAnswers: map[string]int{}, dialer: map[int64]*net.Dialer{}}
	// a second stream for the later-added situations: the histories drawn from rng stay what they were
	w.rng2 = rand.New(rand.NewSource(seed ^ 0x5bd1e9955bd1e995))
	w.mix = w.rng2.Uint64()
	w.pinned = w.mode == 2 && w.rng2.Intn(2) == 0
	// failing nodes for the calls of spanCalls (ids ending in ~delay, ~slow, ~close, ~loading), only while faultOn
	spanRule := func(marker string, a fakeredis.Action) {
		srv.Plan(&fakeredis.Rule{Name: "span-" + marker, Match: func(c *fakeredis.Conn, argv []string) bool {
			return w.faultOn.Load() && len(argv) >= 3 && strings.HasSuffix(argv[2], "~"+marker)
		}, Action: a})
	}
	spanRule("delay", fakeredis.Action{DelayReply: 40 * time.Millisecond})
	spanRule("slow", fakeredis.Action{DelayReply: 1500 * time.Millisecond}) // longer than the second a closing connection waits for its pending replies
	spanRule("close", fakeredis.Action{Close: true})
	loading := resp.Err("LOADING Redis is loading the dataset in memory")
	spanRule("loading", fakeredis.Action{Reply: &loading})
	srv.OnEvent = func(e fakeredis.Event) {
		if e.Kind == "fault" && (e.Note == "span-delay" || e.Note == "span-slow") {
			w.mu.Lock()
			w.held = append(w.held, e.Conn)
			w.mu.Unlock()
		}
		if e.Kind == "reply" && len(e.Argv) > 0 && strings.EqualFold(e.Argv[0], "ROLE") {
			w.mu.Lock()
			w.roleAt[e.Seq] = time.Now()
			if e.Reply.T == '*' && len(e.Reply.A) > 0 && e.Reply.A[0].S == "slave" {
				w.slaveAnswers[e.Node]++
			}
			w.mu.Unlock()
		}
	}
	nRep := 1 + rng.Intn(3)
	nSent := 1 + rng.Intn(5)
	w.cur = "127.0.0.1:6379"
	prim := srv.AddNode(w.cur, "master", nil)
	idxm[w.cur] = prim
	w.data = append(w.data, w.cur)
	w.alive[w.cur] = true
	for i := 0; i < nRep; i++ {
		a := fmt.Sprintf("127.0.0.1:%d", 6380+i)
		idxm[a] = srv.AddNode(a, "slave", prim)
		w.data = append(w.data, a)
		w.alive[a] = true
	}
	for i := 0; i < nSent; i++ {
		a := fmt.Sprintf("127.0.0.1:%d", 26379+i)
		idxm[a] = srv.AddNode(a, "sentinel", nil)
		w.sents = append(w.sents, &sentinelCfg{addr: a, up: true})
	}
	// initially some replicas are s_down (and unreachable), never all of them
	for i := 1; i < len(w.data)-1; i++ {
		if rng.Intn(4) == 0 {
			w.sdown[w.data[i]] = true
			if rng.Intn(2) == 0 {
				w.setAlive(w.data[i], false)
			}
		}
	}
	for _, s := range w.sents {
		w.update(s)
	}
	// some sentinels are down from the start, at least one stays up
	downs := 0
	for i, s := range w.sents {
		if i > 0 && rng.Intn(3) == 0 {
			w.setUp(s, false)
			downs++
		}
	}
	rng.Shuffle(len(w.sents), func(i, j int) { w.sents[i], w.sents[j] = w.sents[j], w.sents[i] })

	// a role flip between the sentinel's answer and the very first ROLE probe
	initialFlip := rng.Intn(4) == 0
	if initialFlip {
		target := w.cur
		srv.Plan(&fakeredis.Rule{Name: "roleflip-initial", Times: 1, Match: func(c *fakeredis.Conn, a []string) bool {
			return c.NodeAddr() == target && strings.EqualFold(a[0], "ROLE")
		}, Action: fakeredis.Action{Reply: slaveReply("127.0.0.1:6380")}})
	}

	var init []string
	for _, s := range w.sents {
		if rng.Intn(3) > 0 || len(init) == 0 {
			init = append(init, s.addr)
		}
	}
	opt := drv.Option(srv, init...)
	opt.DialCtxFn = func(ctx context.Context, addr string, d *net.Dialer, _ *tls.Config) (net.Conn, error) {
		c, err := srv.Dial(ctx, addr)
		if err == nil {
			w.mu.Lock()
			w.dialer[fakeredis.ConnID(c)] = d
			w.mu.Unlock()
		}
		return c, err
	}
	opt.Sentinel.MasterSet = masterSet
	opt.DisableCache = rng.Intn(2) == 0
	opt.PipelineMultiplex = []int{-1, 0, 1}[rng.Intn(3)]
	opt.DisableRetry = rng.Intn(2) == 0
	w.retry = !opt.DisableRetry
	switch w.mode {
	case 1:
		opt.ReplicaOnly = true
	case 2:
		opt.SendToReplicas = func(cmd rueidis.Completed) bool { return cmd.IsReadOnly() }
		if w.pinned {
			// read-only commands on keys "pk..." stay primary traffic
			opt.SendToReplicas = func(cmd rueidis.Completed) bool {
				a := cmd.Commands()
				return cmd.IsReadOnly() && !(len(a) > 1 && strings.HasPrefix(a[1], "pk"))
			}
			run.Observe("clients_with_read_only_primary_traffic", 1)
		}
	}
	var client rueidis.Client
	var err error
	attempts := 0
	for attempts = 1; attempts <= 8; attempts++ {
		if client, err = rueidis.NewClient(opt); err == nil {
			break
		}
	}
	if err != nil {
		run.Observe("client_setup_failed", 1)
		return caseResult{fp: fmt.Sprintf("setup-failed|mode=%d|sent=%d", w.mode, nSent), nontrivial: false}
	}
	if attempts > 1 {
		run.Observe("client_setup_retried", 1)
	}
	defer client.Close()
	synctest.Wait()

	var kinds []string
	delivered, settleProbes := 0, 0
	settled := true // the client is known to be on w.cur (initially, and after a delivered +switch-master)
	stay := func(st int, after string) {
		// events that do not move the master must leave the client on it
		if settled && w.mode != 1 {
			synctest.Wait()
			w.traffic(client, st, "w", 6, w.cur, after)
		}
	}
	var spans sync.WaitGroup // calls outstanding across a fail-over (spanCalls)
	stopBg := make(chan struct{})
	var bg sync.WaitGroup
	if rng.Intn(2) == 0 {
		// traffic concurrent with every step
		bg.Add(1)
		go func() {
			defer bg.Done()
			cl := w.classes()
			for i := 0; ; i++ {
				select {
				case <-stopBg:
					return
				default:
				}
				w.mixed(client, -1, cl[i%len(cl)], 1)
				time.Sleep(time.Duration(5+i%40) * time.Millisecond)
			}
		}()
		kinds = append(kinds, "bg")
	}

	steps := 3 + rng.Intn(6)
	for st := 0; st < steps; st++ {
		k := rng.Intn(9)
		switch k {
		case 0: // plain traffic
			for _, c := range w.classes() {
				w.mixed(client, st, c, 2+rng.Intn(3))
			}
			kinds = append(kinds, "t")
		case 1, 2, 3: // fail-over
			var cands []string
			for _, d := range w.data {
				if d != w.cur && w.alive[d] {
					cands = append(cands, d)
				}
			}
			if len(cands) == 0 {
				continue
			}
			old, next := w.cur, cands[rng.Intn(len(cands))]
			crash := k == 3 && rng.Intn(2) == 0
			// keep the invariant "some up sentinel reports a usable topology" across the change
			w.sdown[next] = false
			w.cur = next
			if crash && w.mode != 0 {
				// the old master is the only other node a replica client could use unless another replica is alive
				other := false
				for _, d := range w.data {
					if d != next && d != old && w.alive[d] && !w.sdown[d] {
						other = true
					}
				}
				crash = other
			}
			flip := 0
			if k == 2 {
				flip = 1 + rng.Intn(2)
				srv.Plan(&fakeredis.Rule{Name: "roleflip", Times: flip, Match: func(c *fakeredis.Conn, a []string) bool {
					return c.NodeAddr() == next && strings.EqualFold(a[0], "ROLE")
				}, Action: fakeredis.Action{Reply: slaveReply(old)}})
			}
			// calls that are outstanding (in flight on a slow node, or waiting for their retry after a closed connection / a
			// LOADING answer) while the fail-over happens
			var spanned []*issued
			// A call whose reply a node sits on stays in flight until the client itself closes the connection (when it
			// switches) only in a clean fail-over of a settled master-only client announced once: closing a connection that
			// does not answer takes the client up to a second while it holds its mutex, and a second goroutine waiting for
			// that mutex (another event, a refresh) would keep the bubble's clock from advancing (harness limit, see
			// DRIVER_GUIDE). Everywhere else the connections holding such calls drop before the switch is announced.
			quiet := k == 1 && w.mode == 0 && settled
			if w.rng2.Intn(5) < 3 {
				w.mu.Lock()
				w.held = nil
				w.mu.Unlock()
				w.faultOn.Store(true)
				spanned = w.spanCalls(client, st, &spans)
				w.faultOn.Store(false)
				run.Observe("failovers_with_outstanding_calls", 1)
			}
			srv.Promote(next)
			if crash {
				w.setAlive(old, false)
			}
			w.mu.Lock()
			held := w.held
			w.held = nil
			w.mu.Unlock()
			if len(held) > 0 && !quiet {
				for _, id := range held {
					srv.Kill(id)
				}
				run.Observe("failovers_with_calls_in_flight_on_dropped_connections", 1)
			}
			// which sentinels learn of it: all (k=1,2) or all but some stale ones (k=3); stale ones keep reporting the old master,
			// which now answers ROLE as slave (or is down)
			stale := map[*sentinelCfg]bool{}
			ups := 0
			for _, s := range w.sents {
				if s.up {
					ups++
				}
			}
			for _, s := range w.sents {
				if k == 3 && s.up && ups-len(stale) > 1 && rng.Intn(2) == 0 {
					stale[s] = true
					continue
				}
				w.update(s)
			}
			if !w.anyGood() {
				for _, s := range w.sents {
					w.update(s)
				}
				stale = map[*sentinelCfg]bool{}
			}
			msg := fmt.Sprintf("%s %s %s", masterSet, hp(old), hp(next))
			got := 0
			burst := 1
			if rng.Intn(3) == 0 {
				burst = 2 + rng.Intn(3)
			}
			if len(held) > 0 && quiet {
				burst = 1
				run.Observe("failovers_with_calls_in_flight_until_the_client_closes", 1)
			}
			// sentinel announces re-configured replicas with +slave a little later; sometimes that event is not (yet) there
			withSlave := rng.Intn(3) > 0
			if !withSlave && w.mode != 0 {
				run.Observe("failovers_without_slave_event", 1)
			}
			for b := 0; b < burst; b++ {
				got += w.emit("+switch-master", msg, func(s *sentinelCfg) bool { return !stale[s] })
				if w.mode != 0 && b == 0 && withSlave {
					w.emit("+slave", fmt.Sprintf("slave %s %s @ %s %s", old, hp(old), masterSet, hp(next)), func(s *sentinelCfg) bool { return !stale[s] })
				}
			}
			w.logf("step %d failover %s -> %s crash=%v flip=%d stale=%d delivered=%d", st, old, next, crash, flip, len(stale), got)
			kinds = append(kinds, fmt.Sprintf("f%d%v", k, got > 0))
			if len(spanned) > 0 {
				kinds[len(kinds)-1] += fmt.Sprintf("+x%d", len(spanned))
				w.mu.Lock()
				for _, is := range spanned {
					is.delivered, is.newMaster = got > 0, next
				}
				w.mu.Unlock()
			}
			run.Observe("failovers", 1)
			if flip > 0 {
				run.Observe("failovers_with_role_flip", 1)
			}
			if len(stale) > 0 {
				run.Observe("failovers_with_stale_sentinels", 1)
			}
			if got > 0 {
				delivered++
				run.Observe("switch_master_delivered", 1)
				time.Sleep(time.Second) // bounded virtual time for the client to act on the event
				synctest.Wait()
				settled = true
				if w.mode != 1 {
					w.traffic(client, st, "w", 6, next, "failover")
					settleProbes += 6
				}
				spans.Wait() // the outstanding calls end (their contexts bound them) before anything else changes
			} else {
				settled = false
				run.Observe("switch_master_not_delivered", 1)
			}
		case 4: // the sentinel the client talks to dies
			var curS *sentinelCfg
			for _, s := range w.sents {
				if s.up && len(srv.Conns(s.addr)) > 0 {
					curS = s
				}
			}
			if curS == nil {
				continue
			}
			// another sentinel must be able to serve before this one goes away
			var alt *sentinelCfg
			for _, s := range w.sents {
				if s != curS && (alt == nil || s.up) {
					alt = s
				}
			}
			if alt == nil {
				continue
			}
			if !alt.up {
				w.setUp(alt, true)
			}
			w.update(alt)
			w.setUp(curS, false)
			run.Observe("sentinel_lost", 1)
			kinds = append(kinds, "s")
			time.Sleep(100 * time.Millisecond)
			stay(st, "sentinel-lost")
		case 5: // burst of events that must not move the client anywhere wrong (other sets, replicas, new sentinels)
			n := 1 + rng.Intn(8)
			for b := 0; b < n; b++ {
				r := w.data[rng.Intn(len(w.data))]
				switch rng.Intn(6) {
				case 0:
					w.emit("+switch-master", fmt.Sprintf("otherset %s %s", hp(w.cur), hp(r)), nil)
				case 1:
					w.emit("+sdown", fmt.Sprintf("slave %s %s @ %s %s", r, hp(r), masterSet, hp(w.cur)), nil)
				case 2:
					w.emit("-sdown", fmt.Sprintf("slave %s %s @ %s %s", r, hp(r), masterSet, hp(w.cur)), nil)
				case 3:
					w.emit("+reboot", fmt.Sprintf("master %s %s", masterSet, hp(w.cur)), nil)
				case 4:
					w.emit("+sentinel", fmt.Sprintf("sentinel 127.0.0.1:26399 127.0.0.1 26399 @ %s %s", masterSet, hp(w.cur)), nil)
				case 5:
					w.emit("+sdown", fmt.Sprintf("master %s %s", masterSet, hp(w.cur)), nil)
				}
			}
			run.Observe("noise_events", int64(n))
			kinds = append(kinds, "n")
			time.Sleep(50 * time.Millisecond)
			stay(st, "noise-events")
		case 6: // a replica goes s_down (sometimes also unreachable), another may come back
			if len(w.data) < 3 {
				continue
			}
			var reps []string
			for _, d := range w.data {
				if d != w.cur {
					reps = append(reps, d)
				}
			}
			victim := reps[rng.Intn(len(reps))]
			ok := false
			for _, d := range reps {
				if d != victim && w.alive[d] && !w.sdown[d] {
					ok = true
				}
			}
			if !ok {
				// bring another one back first
				for _, d := range reps {
					if d != victim {
						w.setAlive(d, true)
						w.sdown[d] = false
						ok = true
						break
					}
				}
			}
			if !ok {
				continue
			}
			w.sdown[victim] = true
			if rng.Intn(2) == 0 {
				w.setAlive(victim, false)
			}
			// a wrong role between the sentinel's list and the probe: one surviving replica claims to be a master once
			if w.mode != 0 && rng.Intn(2) == 0 {
				for _, d := range reps {
					if d != victim && w.alive[d] {
						d := d
						srv.Plan(&fakeredis.Rule{Name: "roleflip-replica", Times: 1, Match: func(c *fakeredis.Conn, a []string) bool {
							return c.NodeAddr() == d && strings.EqualFold(a[0], "ROLE")
						}, Action: fakeredis.Action{Reply: masterReply()}})
						run.Observe("replica_role_flips_planned", 1)
						break
					}
				}
			}
			for _, s := range w.sents {
				w.update(s)
			}
			w.emit("+sdown", fmt.Sprintf("slave %s %s @ %s %s", victim, hp(victim), masterSet, hp(w.cur)), nil)
			run.Observe("replica_sdown", 1)
			kinds = append(kinds, "r")
			time.Sleep(100 * time.Millisecond)
			stay(st, "replica-sdown")
		case 8: // the established, verified master connection is re-verified at the same address and the node now says slave
			if !settled || w.mode == 1 {
				continue
			}
			var cands []string
			for _, d := range w.data {
				if d != w.cur && w.alive[d] {
					cands = append(cands, d)
				}
			}
			if len(cands) == 0 {
				continue
			}
			m := w.cur
			// Half of the episodes dial every wire of the master connection first; the other half leave wires to be dialled
			// lazily while the connection is being closed (repaired defect C23-F2: such a wire used to be installed over the
			// closed connection, which then kept serving primary traffic). VERIF_C23_LAZYWIRE=0 / 1 forces one of the two.
			lazy := rng.Intn(2) == 0
			if v := os.Getenv("VERIF_C23_LAZYWIRE"); v != "" {
				lazy = v == "1"
			}
			if lazy {
				run.Observe("episodes_with_lazily_dialled_wires", 1)
			} else {
				synctest.Wait()
				w.traffic(client, st, "w", 48, "")
				synctest.Wait()
			}
			slaves := func() int { w.mu.Lock(); defer w.mu.Unlock(); return w.slaveAnswers[m] }
			base := slaves()
			srv.Lock()
			w.nodes[m].RoleOverride = "slave"
			srv.Unlock()
			got, how := 0, "reboot"
			if rng.Intn(2) == 0 {
				got = w.emit("+reboot", fmt.Sprintf("master %s %s", masterSet, hp(m)), nil)
			} else {
				how = "switch-to-same-address"
				got = w.emit("+switch-master", fmt.Sprintf("%s %s %s", masterSet, hp(m), hp(m)), nil)
			}
			if got == 0 {
				srv.Lock()
				w.nodes[m].RoleOverride = ""
				srv.Unlock()
				continue
			}
			// While the sentinels keep naming a node that says slave the client retries its refresh without pause, so virtual
			// time stands still: traffic comes from a goroutine that does not sleep, and the episode is ended by the driver
			// once the node has been probed again (the client is then past the first wrong answer) and more traffic was issued.
			stopT := make(chan struct{})
			var tw sync.WaitGroup
			var sent atomic.Int64
			tw.Add(1)
			go func() {
				defer tw.Done()
				for i := 0; i < 5000; i++ {
					select {
					case <-stopT:
						return
					default:
					}
					w.traffic(client, st, "w", 1, "")
					sent.Add(1)
					runtime.Gosched()
				}
			}()
			mark := int64(-1)
			for i := 0; i < 4_000_000; i++ {
				runtime.Gosched()
				if i%32 == 0 {
					if mark < 0 && slaves()-base >= 3 {
						mark = sent.Load()
					}
					if mark >= 0 && sent.Load() >= mark+30 {
						break
					}
				}
			}
			close(stopT)
			tw.Wait()
			run.Observe("reverify_same_address_"+how, 1)
			if mark >= 0 {
				run.Observe("reverify_traffic_after_second_probe", 1)
			}
			// a new master is reported: the client must settle on it
			next := cands[rng.Intn(len(cands))]
			srv.Lock()
			w.nodes[m].RoleOverride = ""
			srv.Unlock()
			w.sdown[next] = false
			w.cur = next
			srv.Promote(next)
			for _, s := range w.sents {
				w.update(s)
			}
			w.emit("+switch-master", fmt.Sprintf("%s %s %s", masterSet, hp(m), hp(next)), nil)
			w.logf("step %d master %s re-verified (%s) answering slave, then fail-over to %s", st, m, how, next)
			kinds = append(kinds, "v")
			time.Sleep(time.Second)
			synctest.Wait()
			w.traffic(client, st, "w", 6, next, "failover")
			settleProbes += 6
			settled = true
		case 7: // connections to the data nodes drop; the client re-dials the same address
			srv.KillAll(w.cur)
			run.Observe("data_conn_kills", 1)
			kinds = append(kinds, "k")
			time.Sleep(10 * time.Millisecond)
		}
		for _, c := range w.classes() {
			w.mixed(client, st, c, 1+rng.Intn(2))
		}
	}
	spans.Wait()
	close(stopBg)
	bg.Wait()
	time.Sleep(time.Second)
	synctest.Wait()

	nodesHit := w.judge(srv.Log())
	if os.Getenv("VERIF_C23_CASE") != "" {
		for _, e := range srv.Log() {
			fmt.Printf("LOG %d %s conn=%d %s %v %s reply=%s\n", e.Seq, e.Node, e.Conn, e.Kind, e.Argv, e.Note, e.Reply.String())
		}
	}
	res.fp = fmt.Sprintf("mode=%d|rep=%d|sent=%d|down=%d|flip0=%v|%s", w.mode, nRep, nSent, downs, initialFlip, strings.Join(kinds, ","))
	res.nontrivial = delivered > 0 && nodesHit >= 2
	if idx := rng.Intn(40); idx == 0 {
		run.Sample(map[string]any{"case": name, "mode": w.mode, "replicas": nRep, "sentinels": nSent, "steps": kinds, "trace": w.trace, "nodes_hit": nodesHit})
	}
	return res
}

type roleAns struct {
	Role  string `json:"role"`
	Seq   int64  `json:"seq"`
	Conn  int64  `json:"conn"`
	Fresh bool   `json:"first_role_on_conn"`
	role  string
	seq   int64
	conn  int64
	fresh bool
}

// judge is the oracle: it replays the server's log.
func (w *world) judge(log []fakeredis.Event) (nodesHit int) {
	run := w.run
	compact := func() []string {
		var out []string
		for _, e := range log {
			if e.Kind == "recv" || e.Kind == "exec" && len(e.Argv) > 0 && e.Argv[0] != "SENTINEL-EVENT" {
				continue
			}
			if len(e.Argv) > 0 {
				switch strings.ToUpper(e.Argv[0]) {
				case "PING", "CLIENT", "HELLO", "VERIF.ECHO", "SUBSCRIBE", "UNSUBSCRIBE":
					continue
				}
			}
			if e.Kind == "push" && len(e.Reply.A) > 0 && strings.HasSuffix(e.Reply.A[0].S, "subscribe") {
				continue
			}
			out = append(out, fmt.Sprintf("%d %s c%d %s %v %s %s", e.Seq, e.Node, e.Conn, e.Kind, e.Argv, e.Note, drv.Tail(e.Reply.String(), 120)))
		}
		if len(out) > 400 {
			out = out[len(out)-400:]
		}
		return out
	}
	lastRole := map[string]*roleAns{}   // node -> last ROLE answer the node gave
	reported := map[string]int64{}      // address -> first seq at which a sentinel named it as master of the set
	accepted := map[int64]int64{}       // conn -> seq of accept
	hit := map[string]bool{}
	roleSeen := map[int64]bool{}  // conn -> a ROLE was answered on it before
	streakFirst := map[string]int64{} // node -> seq of its first non-master ROLE answer since it last said master
	followUp := map[string]int64{}    // node -> seq at which it received the next ROLE probe after that answer
	streakConn := map[string]int64{}  // node -> connection that gave that first wrong answer
	closedAt := map[int64]int64{}     // conn -> seq of its close
	reached := map[string]string{}      // uid -> node (first reception)
	spanAt := map[string][]string{}     // uid of a call outstanding across a fail-over -> "node@seq" of every reception
	for _, e := range log {
		switch e.Kind {
		case "fault":
			if len(e.Argv) >= 3 && strings.HasPrefix(e.Note, "span-") {
				if is := w.issued[e.Argv[2]]; is != nil {
					is.faulted = true
				}
			}
		case "accept":
			accepted[e.Conn] = e.Seq
		case "close":
			closedAt[e.Conn] = e.Seq
		case "exec":
			if len(e.Argv) == 3 && e.Argv[0] == "SENTINEL-EVENT" {
				f := strings.Split(e.Argv[2], " ")
				switch {
				case e.Argv[1] == "+switch-master" && len(f) == 5 && f[0] == masterSet:
					if _, ok := reported[f[3]+":"+f[4]]; !ok {
						reported[f[3]+":"+f[4]] = e.Seq
					}
				case e.Argv[1] == "+reboot" && len(f) == 4 && f[0] == "master" && f[1] == masterSet:
					if _, ok := reported[f[2]+":"+f[3]]; !ok {
						reported[f[2]+":"+f[3]] = e.Seq
					}
				}
			}
		case "reply":
			if len(e.Argv) == 0 {
				continue
			}
			switch strings.ToUpper(e.Argv[0]) {
			case "ROLE":
				if e.Reply.T == '*' && len(e.Reply.A) > 0 {
					r := e.Reply.A[0].S
					if r == "master" {
						streakFirst[e.Node], followUp[e.Node] = 0, 0
					} else if streakFirst[e.Node] == 0 {
						streakFirst[e.Node], followUp[e.Node], streakConn[e.Node] = e.Seq, 0, e.Conn
					}
					lastRole[e.Node] = &roleAns{Role: r, Seq: e.Seq, Conn: e.Conn, Fresh: !roleSeen[e.Conn], role: r, seq: e.Seq, conn: e.Conn, fresh: !roleSeen[e.Conn]}
					roleSeen[e.Conn] = true
					run.Observe("role_answers", 1)
				}
			case "SENTINEL":
				if len(e.Argv) >= 3 && strings.EqualFold(e.Argv[1], "GET-MASTER-ADDR-BY-NAME") && e.Argv[2] == masterSet && e.Reply.T == '*' && len(e.Reply.A) == 2 {
					a := e.Reply.A[0].S + ":" + e.Reply.A[1].S
					if _, ok := reported[a]; !ok {
						reported[a] = e.Seq
					}
				}
			}
		case "recv":
			if len(e.Argv) == 1 && strings.EqualFold(e.Argv[0], "ROLE") && streakFirst[e.Node] != 0 && followUp[e.Node] == 0 {
				followUp[e.Node] = e.Seq
			}
			if len(e.Argv) < 3 || !(strings.HasPrefix(e.Argv[0], "VERIF.") || e.Argv[0] == "HGET") {
				continue
			}
			uid := e.Argv[2]
			is := w.issued[uid]
			if is == nil {
				continue
			}
			hit[e.Node] = true
			if _, ok := reached[uid]; !ok {
				reached[uid] = e.Node
			}
			need := is.need
			if is.span {
				spanAt[uid] = append(spanAt[uid], fmt.Sprintf("%s@%d", e.Node, e.Seq))
			}
			run.Observe(need+"_traffic_checked", 1)
			run.Observe(need+"_traffic_checked_"+is.api, 1)
			a := lastRole[e.Node]
			wit := func(why string) map[string]any {
				return map[string]any{"case": w.name, "why": why, "uid": uid, "node": e.Node, "conn": e.Conn, "seq": e.Seq, "needed_role": need, "mode": w.mode,
					"last_role_answer": a, "conn_accepted_at": accepted[e.Conn], "issued_at": is.stamp, "trace": w.trace, "log": compact()}
			}
			switch {
			case a == nil:
				run.Violation("traffic-to-unprobed-node", fmt.Sprintf("mode=%d need=%s", w.mode, need), wit("the node never answered ROLE to this client"))
			case a.role != need:
			// The node's last answer was the wrong role. The client certainly knew it if virtual time passed between the
			// answer and the issue of the command (no latency is injected, and virtual time only advances once every
			// goroutine of the client is parked); a command issued at the same instant may have been in flight.
			// In master-only mode the client verifies one address at a time: once the node has received the next ROLE probe,
			// the client has read the earlier wrong answer; commands issued after that are judged even if no time passed.
			reprobed := w.mode == 0 && need == "master" && followUp[e.Node] != 0 && is.stamp > followUp[e.Node]
			if reprobed && !is.at.After(w.roleAt[a.seq]) {
				closed := "no"
				if c, ok := closedAt[streakConn[e.Node]]; ok && c < e.Seq {
					closed = "yes" // the client did close the connection that answered; the command came over a sibling wire that survived
				}
				run.Violation("traffic-to-wrong-role", fmt.Sprintf("mode=%d need=%s got=%s issued-after-the-node-was-probed-again answering-connection-closed=%s", w.mode, need, a.role, closed),
					wit(fmt.Sprintf("the node answered ROLE %s at seq %d, received the client's next ROLE probe at seq %d (so the client had read that answer), and this command was issued at %d", a.role, streakFirst[e.Node], followUp[e.Node], is.stamp)))
			} else if is.at.After(w.roleAt[a.seq]) {
				on := "other-purpose-probe"
				if w.dialer[a.conn] == w.dialer[e.Conn] {
					on = "same-purpose-probe"
				}
				run.Violation("traffic-to-wrong-role", fmt.Sprintf("mode=%d need=%s got=%s answered-on=%s", w.mode, need, a.role, on),
					wit("the node's last ROLE answer to this client was "+a.role+", given "+is.at.Sub(w.roleAt[a.seq]).String()+" (virtual) before the command was issued"))
			} else {
				run.Observe("inflight_tolerated", 1)
			}
		}
		if need == "master" {
				if s, ok := reported[e.Node]; !ok || s > e.Seq {
					run.Violation("primary-traffic-to-unreported-address", fmt.Sprintf("mode=%d", w.mode), wit("no sentinel answer or event had named this address as the master"))
				}
			}
		}
	}
	// Calls that were outstanding when a +switch-master was delivered: the first attempt of each met a failing node before
	// the switch. Where the client promises to go on with such a call (retries enabled, read-only or cacheable command,
	// context alive for 3 s of virtual time, retryable failure), what it does with it afterwards is primary traffic routed
	// after the switch, and the property sends that to the new master: the call must have been answered, or at least
	// have been received by the new master. (The settle probes of the same fail-over are judged on the same footing.)
	for uid, is := range w.issued {
		if !is.span {
			continue
		}
		run.Observe("outstanding_calls", 1)
		if !is.delivered || is.need != "master" || !is.eligible || !is.faulted {
			continue
		}
		run.Observe("outstanding_primary_calls_judged", 1)
		run.Observe("outstanding_primary_calls_judged_"+is.api, 1)
		run.Observe("outstanding_primary_calls_judged_fault_"+is.fault, 1)
		moved := false
		for _, at := range spanAt[uid] {
			if strings.HasPrefix(at, is.newMaster+"@") {
				moved = true
			}
		}
		if moved {
			run.Observe("outstanding_primary_calls_resent_to_new_master", 1)
		}
		if is.err == "" || moved {
			continue
		}
		run.Violation("outstanding-call-not-moved-to-new-master", fmt.Sprintf("mode=%d api=%s fault=%s", w.mode, is.api, is.fault),
			map[string]any{"case": w.name, "uid": uid, "api": is.api, "class": is.class, "first_attempt_met": is.fault, "call_error": is.err, "new_master": is.newMaster,
				"received_by": spanAt[uid], "issued_at": is.stamp, "step": is.step,
				"why": "the call was outstanding when +switch-master was delivered, the client retries it (retries enabled, retry-eligible command, 3 s context), yet it ended with an error without ever having been sent to the new master",
				"trace": w.trace, "log": compact()})
	}
	// settle probes: issued a bounded virtual time after a delivered +switch-master whose target answers master, or after
	// events that do not move the master; judged per batch of 6 (more than the wires of one connection)
	type batch struct {
		expected, after string
		step            int
		n, ok           int
		other           []string
		errs            []string
		first           int64
	}
	batches := map[string]*batch{}
	for uid, is := range w.issued {
		if is.settle == "" {
			continue
		}
		run.Observe("settle_probes", 1)
		b := batches[is.group]
		if b == nil {
			b = &batch{expected: is.settle, after: is.after, step: is.step, first: is.stamp}
			batches[is.group] = b
		}
		if is.stamp < b.first {
			b.first = is.stamp
		}
		b.n++
		switch got := reached[uid]; {
		case got == is.settle:
			b.ok++
		case got != "":
			b.other = append(b.other, uid+"->"+got)
		default:
			b.errs = append(b.errs, is.err)
		}
	}
	for _, b := range batches {
		how := ""
		switch {
		case len(b.other) > 0:
			how = "other-node"
		case b.ok == 0:
			how = "nowhere"
		default:
			continue
		}
		class := "not-settled-on-new-master"
		if b.after != "failover" {
			class = "left-the-master-without-a-switch"
		}
		run.Violation(class, fmt.Sprintf("mode=%d reached=%s after=%s", w.mode, how, b.after),
			map[string]any{"case": w.name, "expected": b.expected, "probes": b.n, "reached_expected": b.ok, "reached_other": b.other, "call_errors": b.errs, "step": b.step, "issued_at": b.first, "trace": w.trace, "log": compact()})
	}
	return len(hit)
}

// C23: sentinel clients follow the current master.
func TestC23(t *testing.T) {
	run := mon.Start(t, "C23", "exploration",
		"one real sentinel client per synctest bubble against fakeredis: 1 master + 1-3 replicas, 1-5 sentinels (some down, some stale), client mode master-only / ReplicaOnly / SendToReplicas, "+
			"3-8 steps drawn from {traffic, fail-over with +switch-master (clean / new master answering ROLE slave 1-2 times / stale sentinels + crashed old master, events in bursts), loss of the sentinel in use, "+
			"bursts of unrelated events (+sdown/-sdown/+reboot/+sentinel/other set), the settled master re-verified at the same address (+reboot master / +switch-master to itself) while it answers ROLE slave with non-sleeping primary traffic, then a real fail-over, replica s_down with a replica claiming master once, data connections killed}, optional concurrent traffic; traffic goes through Do / DoMulti / DoCache / DoMultiCache (batches of 1-3, cacheable HGETs with unique fields), half of the SendToReplicas clients keep read-only commands on pk* keys primary; 3 of 5 fail-overs happen while 2-5 calls are outstanding whose first attempt met a slow node (reply delayed 40 / 1500 ms), a closed connection or a LOADING answer; every user command carries a unique id; "+
			"the oracle replays the server log: role last answered by the receiving node, addresses named by sentinels, where the post-switch probes arrived; plus a real-time probe of event bursts of 8 and 40 during a refresh. A case is one history; non-trivial when a +switch-master was delivered and traffic reached >= 2 nodes")
	defer run.Finish()
	rueidis.VerifSetQueueType("flowbuffer") // set once: pipes are created from background goroutines too
	run.Assume("fakeredis sentinel/ROLE emulation and its log order (one lock) are the ground truth",
		"a command received on a connection that was opened before the node's wrong-role answer is treated as in flight (not judged)",
		"inside the bubbles bursts stay below the 16-message buffer of a rueidis subscription; the larger burst is probed separately in real time with a structural (goroutine-cycle) verdict")
	seeds := run.Rand("cases")
	n := run.N(600, 12000)
	only := os.Getenv("VERIF_C23_CASE")
	for i := 0; i < n; i++ {
		sd := seeds.Int63()
		if only != "" && only != fmt.Sprintf("h%d", i) {
			continue
		}
		oneHistory(run, t, i, sd)
	}
	if only == "" {
		burstProbe(run, 8)
		burstProbe(run, 40)
	}
	run.Require("reverify_traffic_after_second_probe", "burst_probe_refresh_completed", "master_traffic_checked", "slave_traffic_checked", "switch_master_delivered", "settle_probes", "failovers_with_role_flip", "failovers_with_stale_sentinels", "sentinel_lost", "role_answers",
		"outstanding_primary_calls_judged_Do", "outstanding_primary_calls_judged_DoMulti", "outstanding_primary_calls_judged_DoCache", "outstanding_primary_calls_judged_DoMultiCache",
		"outstanding_primary_calls_resent_to_new_master", "master_traffic_checked_DoCache", "master_traffic_checked_DoMultiCache", "master_traffic_checked_DoMulti", "slave_traffic_checked_DoCache", "slave_traffic_checked_DoMultiCache")
}
