//go:build verif

package c30

// Fault worlds: the EVALSHA -> NOSCRIPT -> EVAL sequence (and SCRIPT LOAD) under transport faults and LOADING replies,
// on clients that retry (the default) and on some that do not.
//
// "Lua.Exec executes the script body at most once" is judged from the server's script-run log exactly as in the
// other worlds. What the fault worlds add is the situation in which a client is tempted to send a script again:
// a command of the sequence was received by the server and then
//
//	close-before-exec  the connection is closed before the command is executed (nothing ran, no reply)
//	close-after-exec   the command is executed (the body ran when the script was cached / it was an EVAL), then the
//	                   connection is closed without a reply
//	cut-reply          the command is executed and the connection is closed 1-3 bytes into its reply
//	loading-reply      the command is not executed and answered with -LOADING
//
// for every command of the sequence (SCRIPT LOAD, the first command, the fall-back EVAL after NOSCRIPT), every
// constructor, Exec / ExecMulti / concurrent Execs, single / standalone / cluster clients.
//
// Allowed re-sends: only objects whose commands rueidis documents as retryable (read-only scripts, *Retryable
// constructors), and only in a step where a fault really fired (see checkCall). Nothing else is relaxed.

import (
	"context"
	"fmt"
	"math/rand"
	"strconv"
	"strings"
	"testing"
	"time"

	"github.com/redis/rueidis"
	"verifh/drv"
	"verifh/fakeredis"
	"verifh/mon"
	"verifh/resp"
)

const faultRulePrefix = "c30fault:"

var faultKinds = []string{"close-before-exec", "close-after-exec", "cut-reply", "loading-reply"}

// faultKindOf recognises the fault events of the fault worlds' own rules ("c30fault:<kind>:<target>").
func faultKindOf(note string) (string, bool) {
	if !strings.HasPrefix(note, faultRulePrefix) {
		return "", false
	}
	rest := note[len(faultRulePrefix):]
	if i := strings.IndexByte(rest, ':'); i >= 0 {
		return rest[:i], true
	}
	return rest, true
}

type faultSpec struct {
	target string // load (SCRIPT LOAD) | first (EVALSHA*, or EVAL* of a NoSha object) | fallback (EVAL* after NOSCRIPT)
	kind   string
	state  string // script cache before the step: empty | loaded | subset
}

func (f faultSpec) String() string { return f.kind + "@" + f.target + "/" + f.state }

func (w *world) faultAction(kind string) fakeredis.Action {
	switch kind {
	case "close-before-exec":
		return fakeredis.Action{Close: true}
	case "close-after-exec":
		return fakeredis.Action{Close: true, ExecFirst: true}
	case "cut-reply":
		return fakeredis.Action{CloseAfter: 1 + w.rng.Intn(3)} // every reply of these worlds is longer than 3 bytes
	}
	e := resp.Err("LOADING injected: Redis is loading the dataset in memory")
	return fakeredis.Action{Reply: &e}
}

// planFault installs the rule for one step: it fires once, on the targeted command of the call with the given uid
// (SCRIPT LOAD carries no uid: the first one of this script).
func (w *world) planFault(f faultSpec, uid string) *fakeredis.Rule {
	src := w.src
	noSha := w.v.noSha
	match := func(_ *fakeredis.Conn, argv []string) bool {
		name := strings.ToUpper(argv[0])
		if f.target == "load" {
			return name == "SCRIPT" && len(argv) >= 3 && strings.EqualFold(argv[1], "LOAD") && argv[2] == src
		}
		u, ok := uidOf(argv)
		if !ok || u != uid {
			return false
		}
		bySha := strings.HasPrefix(name, "EVALSHA")
		if f.target == "first" {
			return bySha != noSha
		}
		return !bySha && !noSha // fallback
	}
	return w.srv.Plan(&fakeredis.Rule{Name: faultRulePrefix + f.kind + ":" + f.target, Match: match, Times: 1, Action: w.faultAction(f.kind)})
}

func (w *world) setState(state string) {
	switch state {
	case "empty":
		for _, a := range w.addrs {
			w.srv.Node(a).ScriptFlush()
		}
	case "loaded":
		for _, a := range w.addrs {
			w.srv.Node(a).Exec("SCRIPT", "LOAD", w.src)
		}
	case "subset":
		for _, a := range w.addrs {
			if w.rng.Intn(2) == 0 {
				w.srv.Node(a).Exec("SCRIPT", "LOAD", w.src)
			} else {
				w.srv.Node(a).ScriptFlush()
			}
		}
	}
}

// faultStep runs one Exec / ExecMulti / group of concurrent Execs with one fault planned on one of its calls.
func (w *world) faultStep(kind string, f faultSpec) {
	w.setState(f.state)
	ncalls := 1
	switch kind {
	case "multi":
		ncalls = 1 + w.rng.Intn(5)
	case "concurrent":
		ncalls = 3 + w.rng.Intn(4)
	}
	st := &step{kind: kind, tag: kind + "+" + f.String(), from: w.srv.LogLen()}
	for i := 0; i < ncalls; i++ {
		st.calls = append(st.calls, w.newCall(kind == "multi"))
	}
	victim := st.calls[w.rng.Intn(ncalls)]
	rule := w.planFault(f, victim.uid)
	ctx := context.Background()
	switch kind {
	case "exec":
		c := st.calls[0]
		c.res = w.lua.Exec(ctx, w.client, c.keys, c.args)
		c.got = true
	case "multi":
		var le []rueidis.LuaExec
		for _, c := range st.calls {
			le = append(le, rueidis.LuaExec{Keys: c.keys, Args: c.args})
		}
		res := w.lua.ExecMulti(ctx, w.client, le...)
		if len(res) != ncalls {
			w.run.Violation("execmulti-result-count", w.v.name+"/"+f.String(), map[string]any{"case": w.id, "lua_execs": ncalls, "results": len(res), "fault": f.String()})
		}
		for i, c := range st.calls {
			if i < len(res) {
				c.res, c.got = res[i], true
			}
		}
		w.run.Observe("execmulti_calls_in_fault_worlds", 1)
	case "concurrent":
		done := make(chan struct{}, ncalls)
		for _, c := range st.calls {
			go func(c *call) {
				defer func() {
					if p := recover(); p != nil {
						w.run.Violation("panic", w.v.name+"/concurrent/"+f.String(), map[string]any{"case": w.id, "panic": fmt.Sprint(p)})
					}
					done <- struct{}{}
				}()
				c.res = w.lua.Exec(ctx, w.client, c.keys, c.args)
				c.got = true
			}(c)
		}
		for range st.calls {
			<-done
		}
	}
	fired := w.srv.RuleFired(rule) > 0
	w.srv.ClearPlan()
	w.run.Observe("fault_steps", 1)
	if fired {
		w.run.Observe("fault_steps_fired", 1)
		for _, c := range st.calls {
			c.faulted = true
		}
	}
	st.to = w.srv.LogLen()
	w.steps = append(w.steps, st)
}

// observeFaults counts, from the server log, which situations this call was really put in.
func (w *world) observeFaults(c *call, s *seen) {
	if !w.faultWorld || s == nil {
		return
	}
	run := w.run
	for i, f := range s.faults {
		if f == "" {
			continue
		}
		n := s.names[i]
		run.Observe("faults_on_"+n, 1)
		run.Observe("faults_"+strings.ReplaceAll(f, "-", "_"), 1)
		fallback := i > 0 && !strings.HasPrefix(n, "EVALSHA") && isNoScript(s.replies[0])
		lost := f == "close-after-exec" || f == "cut-reply"
		if fallback {
			run.Observe("fallback_eval_faulted", 1)
		}
		if lost && s.runs >= 1 {
			run.Observe("body_ran_reply_lost", 1)
		}
		if fallback && lost && s.runs >= 1 {
			run.Observe("fallback_eval_ran_reply_lost", 1)
			if !w.v.ro && !w.v.retryable && !w.noRetry {
				// the situation in which a retrying client must not send the script again
				run.Observe("fallback_eval_ran_reply_lost_plain_script_retrying_client", 1)
			}
		}
		if lost && s.runs >= 1 && !w.v.ro && !w.v.retryable && !w.noRetry {
			run.Observe("body_ran_reply_lost_plain_script_retrying_client", 1)
		}
	}
}

func runFaultCase(t *testing.T, run *mon.Run, idx int, rng *rand.Rand) {
	v := variants[idx%len(variants)]
	mode := (idx / len(variants)) % 3 // 0 forced single client, 1 standalone, 2 cluster
	cluster := mode == 2
	w := &world{run: run, id: "f" + strconv.Itoa(idx), v: v, cluster: cluster, rng: rng, faultWorld: true}
	w.noRetry = (idx/len(variants))%4 == 3 // groups of 10 worlds cycle through 3 client kinds x 4 (retries on, on, on, off)
	bodies := rwBodies
	if v.ro {
		bodies = roBodies
	}
	b := bodies[rng.Intn(len(bodies))]
	w.body, w.src = b.name, fmt.Sprintf("-- c30 fault case %d %s\n%s", idx, v.name, b.src)
	w.addrs = []string{"127.0.0.1:7001"}
	if cluster {
		w.addrs = []string{"127.0.0.1:7001", "127.0.0.1:7002", "127.0.0.1:7003"}
	}
	w.srv = fakeredis.New(fakeredis.Options{LogReplies: true, Seed: run.Seed*104723 + int64(idx), ChunkWrites: idx%4 == 0}, w.addrs...)
	defer w.srv.Close()
	if cluster {
		w.srv.EnableCluster()
	}
	opt := drv.Option(w.srv, w.addrs...)
	opt.DisableCache = idx%2 == 1
	opt.ForceSingleClient = mode == 0
	opt.DisableRetry = w.noRetry
	opt.DisableAutoPipelining = rng.Intn(4) == 0
	opt.RetryDelay = func(int, rueidis.Completed, error) time.Duration { return 0 } // retry at once: no wall-clock in the histories
	cl, err := rueidis.NewClient(opt)
	if err != nil {
		run.Inconclusive("client construction failed: " + err.Error())
		return
	}
	w.client = cl
	defer cl.Close()
	w.lua = v.mk(w.src)
	w.sha = shaOf(w.srv, w.addrs[0], w.src)

	// the Exec grid: every fault kind on every command of the sequence, in every cache state in which that command is sent
	var grid []faultSpec
	for _, k := range faultKinds {
		if v.noSha {
			grid = append(grid, faultSpec{"first", k, []string{"empty", "loaded"}[rng.Intn(2)]})
			continue
		}
		grid = append(grid, faultSpec{"first", k, "empty"}, faultSpec{"first", k, "loaded"}, faultSpec{"fallback", k, "empty"})
	}
	rng.Shuffle(len(grid), func(i, j int) { grid[i], grid[j] = grid[j], grid[i] })
	pick := func(targets ...string) faultSpec {
		f := faultSpec{target: targets[rng.Intn(len(targets))], kind: faultKinds[rng.Intn(len(faultKinds))]}
		switch {
		case f.target == "fallback":
			f.state = "empty"
			if cluster && rng.Intn(3) == 0 {
				f.state = "subset"
			}
		default:
			f.state = []string{"empty", "loaded", "subset"}[rng.Intn(3)]
		}
		return f
	}
	if v.load {
		// the SHA is unknown only until the first success: SCRIPT LOAD can be hit in the first steps only
		w.faultStep([]string{"exec", "exec", "concurrent", "multi"}[rng.Intn(4)], faultSpec{"load", faultKinds[rng.Intn(len(faultKinds))], "empty"})
	}
	extra := 5
	for gi := 0; gi < len(grid) || extra > 0; {
		if extra > 0 && (gi >= len(grid) || rng.Intn(3) == 0) {
			extra--
			if rng.Intn(2) == 0 {
				// ExecMulti: SCRIPT LOAD on every node (SHA constructors), then one command per LuaExec
				if v.noSha {
					w.faultStep("multi", pick("first"))
				} else {
					w.faultStep("multi", pick("load", "first", "first"))
				}
			} else if v.noSha {
				w.faultStep("concurrent", pick("first"))
			} else {
				w.faultStep("concurrent", pick("first", "fallback", "fallback"))
			}
			continue
		}
		w.faultStep("exec", grid[gi])
		gi++
	}
	w.srv.ClearPlan()
	w.doStep("exec") // one call with no fault pending
	w.steps[len(w.steps)-1].tag = "exec"

	log := w.srv.Log()
	seenBy, _ := analyse(log)
	for _, st := range w.steps {
		for _, c := range st.calls {
			w.checkCall(c, seenBy[c.uid], st.tag)
		}
	}
	w.checkLoads(log)
	if idx < 4 {
		var hist []string
		for _, st := range w.steps {
			for _, c := range st.calls {
				if s := seenBy[c.uid]; s != nil && strings.Contains(shape(s), ",") {
					hist = append(hist, st.tag+": "+shape(s))
				}
			}
		}
		run.Sample(map[string]any{"fault_case": idx, "constructor": v.name, "cluster": cluster, "retry_disabled": w.noRetry, "script": w.src, "faulted_calls": hist})
	}
}

func runFaultWorlds(t *testing.T, run *mon.Run) {
	n := run.N(120, 1200)
	base := run.Rand("fault-cases").Int63()
	for i := 0; i < n; i++ {
		func() {
			defer func() {
				if p := recover(); p != nil {
					run.Violation("panic", fmt.Sprintf("fault-case-%d", i%len(variants)), map[string]any{"fault_case": i, "panic": fmt.Sprint(p)})
				}
			}()
			runFaultCase(t, run, i, rand.New(rand.NewSource(base+int64(i)*15485863)))
		}()
	}
	run.Require("fallback_eval_ran_reply_lost_plain_script_retrying_client", "body_ran_reply_lost_plain_script_retrying_client",
		"faults_on_EVALSHA", "faults_on_EVAL", "faults_on_EVALSHA_RO", "faults_on_EVAL_RO",
		"faults_close_before_exec", "faults_close_after_exec", "faults_cut_reply", "faults_loading_reply",
		"resends_by_retryable_contract_after_fault")
}
