//go:build verif

// Package c30 checks property C30: Lua.Exec runs the script body at most once, uses only the command
// sequence the constructor allows, requests the SHA with SCRIPT LOAD only until that first succeeds, and
// ExecMulti returns one result per LuaExec in order.
//
// Ground truth is fakeredis: it interprets the scripts (minilua), logs a "script" event per body execution
// on the connection that asked for it, and the rw scripts INCR a per-call key so that a double execution is
// visible in the data as well.
package c30

import (
	"context"
	"fmt"
	"math/rand"
	"strconv"
	"strings"
	"sync"
	"testing"

	"github.com/redis/rueidis"
	"verifh/drv"
	"verifh/fakeredis"
	"verifh/mon"
	"verifh/resp"
)

type variant struct {
	name            string
	ro, noSha, load bool
	retryable       bool // built with a *Retryable constructor: its documented contract is that the client may re-send it
	mk              func(src string) *rueidis.Lua
}

var variants = []variant{
	{name: "NewLuaScript", mk: func(s string) *rueidis.Lua { return rueidis.NewLuaScript(s) }},
	{name: "NewLuaScriptReadOnly", ro: true, mk: func(s string) *rueidis.Lua { return rueidis.NewLuaScriptReadOnly(s) }},
	{name: "NewLuaScriptNoSha", noSha: true, mk: func(s string) *rueidis.Lua { return rueidis.NewLuaScriptNoSha(s) }},
	{name: "NewLuaScriptReadOnlyNoSha", ro: true, noSha: true, mk: func(s string) *rueidis.Lua { return rueidis.NewLuaScriptReadOnlyNoSha(s) }},
	{name: "NewLuaScriptRetryable", retryable: true, mk: func(s string) *rueidis.Lua { return rueidis.NewLuaScriptRetryable(s) }},
	{name: "NewLuaScriptNoShaRetryable", noSha: true, retryable: true, mk: func(s string) *rueidis.Lua { return rueidis.NewLuaScriptNoShaRetryable(s) }},
	{name: "NewLuaScript+LoadSHA1", load: true, mk: func(s string) *rueidis.Lua { return rueidis.NewLuaScript(s, rueidis.WithLoadSHA1(true)) }},
	{name: "NewLuaScriptReadOnly+LoadSHA1", ro: true, load: true, mk: func(s string) *rueidis.Lua { return rueidis.NewLuaScriptReadOnly(s, rueidis.WithLoadSHA1(true)) }},
	{name: "NewLuaScriptRetryable+LoadSHA1", load: true, retryable: true, mk: func(s string) *rueidis.Lua { return rueidis.NewLuaScriptRetryable(s, rueidis.WithLoadSHA1(true)) }},
	{name: "NewLuaScript+LoadSHA1(false)", mk: func(s string) *rueidis.Lua { return rueidis.NewLuaScript(s, rueidis.WithLoadSHA1(false)) }},
}

// script bodies. ARGV[1] is the call's uid (returned), ARGV[2] optionally an error text the script answers with.
var rwBodies = []struct{ name, src string }{
	{"incr-return-uid", "redis.call('INCR', KEYS[1])\nreturn ARGV[1]"},
	{"incr-maybe-error", "redis.call('INCR', KEYS[1])\nif ARGV[2] then return redis.error_reply(ARGV[2]) end\nreturn ARGV[1]"},
	{"incr-two-keys", "for i = 1, #KEYS do redis.call('INCR', KEYS[i]) end\nreturn ARGV[1]"},
}
var roBodies = []struct{ name, src string }{
	{"return-uid", "return ARGV[1]"},
	{"get-return-uid", "local v = redis.call('GET', KEYS[1])\nif ARGV[2] then return redis.error_reply(ARGV[2]) end\nreturn ARGV[1]"},
}

type call struct {
	uid    string
	keys   []string
	args   []string
	errArg string // ARGV[2]
	multi  bool
	res    rueidis.RedisResult
	got    bool
	// faulted: an injected transport / LOADING fault fired during the step this call belongs to (fault worlds only)
	faulted bool
}

type step struct {
	kind  string // exec | multi | concurrent | flush | flushone | loadsubset | failload
	calls []*call
	from  int // log window
	to    int
	tag   string // fingerprint tag of the step (kind, plus the injected fault in fault worlds)
}

type world struct {
	run     *mon.Run
	id      string
	v       variant
	body    string
	src     string
	sha     string
	cluster bool
	srv     *fakeredis.Server
	addrs   []string
	client  rueidis.Client
	lua     *rueidis.Lua
	rng     *rand.Rand
	seq     int
	steps   []*step
	// fault worlds (faults_test.go)
	faultWorld bool
	noRetry    bool // ClientOption.DisableRetry
}

func (w *world) newCall(multi bool) *call {
	w.seq++
	uid := fmt.Sprintf("u%s.%d", w.id, w.seq)
	c := &call{uid: uid, multi: multi}
	nk := 1
	if strings.Contains(w.body, "two-keys") {
		nk = 2
	}
	tag := fmt.Sprintf("{%s.%d}", w.id, w.seq) // one slot per call, different slots across calls
	for i := 0; i < nk; i++ {
		c.keys = append(c.keys, fmt.Sprintf("cnt:%s:%d", tag, i))
	}
	c.args = []string{uid}
	if strings.Contains(w.body, "maybe-error") || strings.Contains(w.body, "get-return") {
		switch w.rng.Intn(6) {
		case 0:
			c.errArg = "MYERR custom failure " + uid
		case 1:
			if w.faultWorld { // keep the listed finding C30-K1 (self-made NOSCRIPT) out of the fault worlds
				c.errArg = "MYERR another custom failure " + uid
			} else {
				c.errArg = "NOSCRIPT reported by the script itself " + uid
			}
		}
		if c.errArg != "" {
			c.args = append(c.args, c.errArg)
		}
	}
	return c
}

func uidOf(argv []string) (string, bool) {
	if len(argv) < 3 {
		return "", false
	}
	switch strings.ToUpper(argv[0]) {
	case "EVAL", "EVALSHA", "EVAL_RO", "EVALSHA_RO":
	default:
		return "", false
	}
	nk, err := strconv.Atoi(argv[2])
	if err != nil || 3+nk >= len(argv) {
		return "", false
	}
	return argv[3+nk], true
}

type seen struct {
	names   []string // command names received for this uid, in order
	replies []resp.V // reply to each
	nodes   []string
	faults  []string // per command: the injected fault that hit it ("" = none): close-before-exec | close-after-exec | cut-reply | loading-reply
	runs    int      // script body executions attributed to this uid
}

// analyse walks the whole log once and attributes recv / reply / script events to uids.
func analyse(log []fakeredis.Event) (map[string]*seen, []fakeredis.Event) {
	type ck struct {
		node string
		conn int64
	}
	cur := map[ck]string{} // connection -> uid of the command being processed
	out := map[string]*seen{}
	var loads []fakeredis.Event
	for _, e := range log {
		k := ck{e.Node, e.Conn}
		switch e.Kind {
		case "recv":
			cur[k] = ""
			if u, ok := uidOf(e.Argv); ok {
				cur[k] = u
				s := out[u]
				if s == nil {
					s = &seen{}
					out[u] = s
				}
				s.names = append(s.names, strings.ToUpper(e.Argv[0]))
				s.nodes = append(s.nodes, e.Node)
				s.replies = append(s.replies, resp.V{})
				s.faults = append(s.faults, "")
			}
			if len(e.Argv) >= 2 && strings.EqualFold(e.Argv[0], "SCRIPT") && strings.EqualFold(e.Argv[1], "LOAD") && e.Conn != 0 {
				loads = append(loads, e)
			}
		case "script":
			if u := cur[k]; u != "" {
				out[u].runs++
			}
		case "fault":
			if kind, ok := faultKindOf(e.Note); ok {
				if u, ok := uidOf(e.Argv); ok && out[u] != nil && cur[k] == u {
					out[u].faults[len(out[u].faults)-1] = kind
				}
			}
		case "reply":
			if u, ok := uidOf(e.Argv); ok && out[u] != nil {
				s := out[u]
				s.replies[len(s.replies)-1] = e.Reply
			}
			if len(e.Argv) >= 2 && strings.EqualFold(e.Argv[0], "SCRIPT") && strings.EqualFold(e.Argv[1], "LOAD") && e.Conn != 0 {
				loads = append(loads, e)
			}
		}
	}
	return out, loads
}

func isNoScript(v resp.V) bool { return (v.T == '-' || v.T == '!') && strings.HasPrefix(v.S, "NOSCRIPT") }

func (w *world) witness(c *call, s *seen, extra map[string]any) map[string]any {
	m := map[string]any{"case": w.id, "constructor": w.v.name, "script": w.src, "cluster": w.cluster, "uid": c.uid, "keys": c.keys, "args": c.args, "via": map[bool]string{false: "Exec", true: "ExecMulti"}[c.multi]}
	if s != nil {
		var rs []string
		for _, r := range s.replies {
			rs = append(rs, r.String())
		}
		m["commands_received"] = s.names
		m["replies"] = rs
		m["nodes"] = s.nodes
		m["injected_faults"] = s.faults
		m["body_runs"] = s.runs
	}
	if c.got {
		if err := c.res.Error(); err != nil {
			m["result_error"] = err.Error()
		} else if v, err := c.res.ToString(); err == nil {
			m["result"] = v
		}
	}
	for k, v := range extra {
		m[k] = v
	}
	return m
}

// shape names the history shape of one call for violation keys / fingerprints.
func shape(s *seen) string {
	if s == nil {
		return "none"
	}
	var sb strings.Builder
	for i, n := range s.names {
		if i > 0 {
			sb.WriteByte('>')
		}
		sb.WriteString(n)
		r := s.replies[i]
		switch {
		case isNoScript(r):
			sb.WriteString("(NOSCRIPT)")
		case r.T == '-' || r.T == '!':
			sb.WriteString("(err)")
		case r.T == 0:
			sb.WriteString("(?)")
		default:
			sb.WriteString("(ok)")
		}
		if f := s.faults[i]; f != "" { // fault worlds: EVAL(?,close-after-exec)
			b := sb.String()
			sb.Reset()
			sb.WriteString(b[:len(b)-1] + "," + f + ")")
		}
	}
	return sb.String()
}

func (w *world) checkCall(c *call, s *seen, stateTag string) {
	run := w.run
	sh := shape(s)
	selfNoScript := strings.HasPrefix(c.errArg, "NOSCRIPT")
	keyTail := w.v.name + "/" + map[bool]string{false: "Exec", true: "ExecMulti"}[c.multi]
	if selfNoScript {
		keyTail += "/script-answers-NOSCRIPT-itself"
	}
	run.Case(fmt.Sprintf("%s|%v|%v|%s|%s|err=%v", w.v.name, w.cluster, c.multi, stateTag, sh, c.errArg != ""), s != nil && len(s.names) > 0)
	if s == nil {
		if c.got && c.res.Error() == nil {
			run.Violation("result-without-command", keyTail, w.witness(c, s, nil))
		}
		return
	}
	// Re-sends after an injected fault (fault worlds only). Read-only script commands are tagged retryable by rueidis
	// and a *Retryable constructor asks for re-sending in so many words, so for those two kinds of Lua object, in a
	// step where an injected transport / LOADING fault really fired, a run of the same command is judged as one
	// command (answered by its last attempt). Every other object, and every step without a fired fault, is judged
	// on the raw sequence exactly as before.
	names, replies := s.names, s.replies
	resendAllowed := c.faulted && (w.v.ro || w.v.retryable)
	if resendAllowed {
		names, replies = nil, nil
		for i, n := range s.names {
			if i > 0 && n == s.names[i-1] {
				replies[len(replies)-1] = s.replies[i]
				if w.v.ro {
					run.Observe("resends_of_readonly_script_after_fault", 1)
				} else {
					run.Observe("resends_by_retryable_contract_after_fault", 1)
				}
				continue
			}
			names, replies = append(names, n), append(replies, s.replies[i])
		}
	}
	// 1. allowed command names and order
	bad := ""
	for i, n := range names {
		ro := strings.HasSuffix(n, "_RO")
		bySha := strings.HasPrefix(n, "EVALSHA")
		if ro != w.v.ro {
			bad = "read-only-ness of " + n + " does not match the constructor"
		}
		if bySha && w.v.noSha {
			bad = "NoSha constructor sent " + n
		}
		if c.multi {
			if i > 0 {
				bad = "ExecMulti sent more than one command for one LuaExec"
			}
			if !bySha && !w.v.noSha {
				// EVAL from ExecMulti is only expected for NoSha constructors (the SHA is always known after SCRIPT LOAD)
				bad = "ExecMulti of a SHA constructor sent " + n
			}
			continue
		}
		if w.v.noSha {
			if i > 0 {
				bad = "NoSha Exec sent more than one command"
			}
			continue
		}
		switch i {
		case 0:
			if !bySha {
				bad = "first command is " + n + ", not EVALSHA"
			}
		case 1:
			if bySha {
				bad = "second command is " + n
			} else if !isNoScript(replies[0]) {
				bad = n + " sent although the EVALSHA reply was not NOSCRIPT"
			}
		default:
			bad = "more than two commands"
		}
	}
	if bad != "" {
		run.Violation("command-sequence", keyTail+"|"+sh, w.witness(c, s, map[string]any{"why": bad}))
	}
	// 2. body executions
	if s.runs > 1 {
		if resendAllowed && s.runs <= len(s.names)-len(names)+1 {
			run.Observe("body_reruns_by_allowed_resend", 1)
		} else {
			run.Violation("body-executed-twice", keyTail+"|"+sh, w.witness(c, s, nil))
		}
	}
	w.observeFaults(c, s)
	if !w.v.ro {
		// the data must agree with the interpreter's counter
		node := w.srv.Node(w.addrs[0])
		if w.cluster {
			node = w.srv.Node(w.srv.SlotOwner(fakeredis.Slot(c.keys[0])))
		}
		for _, k := range c.keys {
			v := node.Exec("GET", k)
			n := int64(0)
			if !v.IsNull() {
				n, _ = strconv.ParseInt(v.S, 10, 64)
			}
			if n > 1 && !(resendAllowed && int(n) <= len(s.names)-len(names)+1) {
				run.Violation("body-executed-twice", keyTail+"|"+sh, w.witness(c, s, map[string]any{"counter_key": k, "counter": n}))
			}
			if int(n) != s.runs {
				run.Violation("harness-counter-disagrees", keyTail, w.witness(c, s, map[string]any{"counter_key": k, "counter": n}))
			}
			run.Observe("counter_keys_checked", 1)
		}
	}
	if s.runs == 1 {
		run.Observe("bodies_run_once", 1)
	}
	if len(s.names) == 2 && isNoScript(s.replies[0]) {
		run.Observe("noscript_fallbacks", 1)
	}
	if len(s.names) == 1 && strings.HasPrefix(s.names[0], "EVALSHA") && !isNoScript(s.replies[0]) {
		run.Observe("evalsha_hits", 1)
	}
	// 3. the result belongs to this call
	if c.got {
		if err := c.res.Error(); err == nil {
			v, e2 := c.res.ToString()
			if e2 != nil || v != c.uid {
				run.Violation("result-of-another-call", keyTail, w.witness(c, s, map[string]any{"decoded": v}))
			}
			run.Observe("results_matched", 1)
		} else if re, ok := rueidis.IsRedisErr(err); ok && re.IsNoScript() && !strings.Contains(err.Error(), "reported by the script itself") {
			run.Observe("noscript_results", 1) // ExecMulti after a flush between LOAD and EVALSHA: allowed
		} else if _, isRE := rueidis.IsRedisErr(err); c.faulted && (!isRE || strings.Contains(err.Error(), "LOADING injected")) {
			run.Observe("fault_error_results", 1) // the injected fault (or its collateral damage on the shared connection) surfaced as the call's error
		} else if c.errArg != "" {
			if !strings.Contains(err.Error(), c.uid) {
				run.Violation("result-of-another-call", keyTail, w.witness(c, s, nil))
			}
			run.Observe("script_errors_returned", 1)
		} else if !strings.Contains(err.Error(), "injected") {
			run.Observe("other_error_results", 1)
		}
	}
}

func (w *world) nodeHasScript(addr string) bool {
	v := w.srv.Node(addr).Exec("SCRIPT", "EXISTS", w.sha)
	return len(v.A) == 1 && v.A[0].I == 1
}

func (w *world) stateTag() string {
	n := 0
	for _, a := range w.addrs {
		if w.nodeHasScript(a) {
			n++
		}
	}
	switch {
	case n == 0:
		return "empty"
	case n == len(w.addrs):
		return "loaded"
	}
	return "subset"
}

func (w *world) doStep(kind string) {
	ctx := context.Background()
	st := &step{kind: kind, from: w.srv.LogLen()}
	switch kind {
	case "exec":
		c := w.newCall(false)
		c.res = w.lua.Exec(ctx, w.client, c.keys, c.args)
		c.got = true
		st.calls = []*call{c}
	case "multi":
		n := 1 + w.rng.Intn(8)
		var le []rueidis.LuaExec
		for i := 0; i < n; i++ {
			c := w.newCall(true)
			st.calls = append(st.calls, c)
			le = append(le, rueidis.LuaExec{Keys: c.keys, Args: c.args})
		}
		res := w.lua.ExecMulti(ctx, w.client, le...)
		if len(res) != n {
			w.run.Violation("execmulti-result-count", w.v.name, map[string]any{"case": w.id, "lua_execs": n, "results": len(res)})
		}
		for i := range st.calls {
			if i < len(res) {
				st.calls[i].res, st.calls[i].got = res[i], true
			}
		}
		w.run.Observe("execmulti_calls", 1)
	case "multi-flushed-between":
		// the script disappears between ExecMulti's SCRIPT LOAD and its EVALSHA: results may be NOSCRIPT, bodies still run at most once
		w.doStepMultiFlushed(st)
	case "concurrent":
		m := 3 + w.rng.Intn(6)
		var wg sync.WaitGroup
		for i := 0; i < m; i++ {
			c := w.newCall(false)
			st.calls = append(st.calls, c)
		}
		for _, c := range st.calls {
			wg.Add(1)
			go func(c *call) {
				defer wg.Done()
				defer func() {
					if p := recover(); p != nil {
						w.run.Violation("panic", w.v.name+"/concurrent", map[string]any{"case": w.id, "panic": fmt.Sprint(p)})
					}
				}()
				c.res = w.lua.Exec(ctx, w.client, c.keys, c.args)
				c.got = true
			}(c)
		}
		wg.Wait()
		w.run.Observe("concurrent_execs", int64(m))
	case "flush":
		for _, a := range w.addrs {
			w.srv.Node(a).ScriptFlush()
		}
		w.run.Observe("flushes", 1)
	case "flushone":
		w.srv.Node(w.addrs[w.rng.Intn(len(w.addrs))]).ScriptFlush()
		w.run.Observe("flushes", 1)
	case "loadsubset":
		for i, a := range w.addrs {
			if i == 0 || w.rng.Intn(2) == 0 {
				w.srv.Node(a).Exec("SCRIPT", "LOAD", w.src)
			}
		}
		w.run.Observe("driver_loads", 1)
	case "failload":
		k := 1 + w.rng.Intn(2)
		e := resp.Err("ERR injected SCRIPT LOAD failure")
		w.srv.Plan(&fakeredis.Rule{Name: "fail-script-load", Match: fakeredis.MatchCmd("SCRIPT"), Times: k, Action: fakeredis.Action{Reply: &e}})
		w.run.Observe("script_load_faults_planned", int64(k))
	}
	st.to = w.srv.LogLen()
	w.steps = append(w.steps, st)
}

func (w *world) doStepMultiFlushed(st *step) {
	ctx := context.Background()
	flushed := false
	var mu sync.Mutex
	// flush every node right after it executed SCRIPT LOAD (Then runs without the server lock)
	for _, a := range w.addrs {
		addr := a
		w.srv.Plan(&fakeredis.Rule{Name: "flush-after-load@" + addr, Match: func(c *fakeredis.Conn, argv []string) bool {
			return c.NodeAddr() == addr && len(argv) >= 2 && strings.EqualFold(argv[0], "SCRIPT") && strings.EqualFold(argv[1], "LOAD")
		}, Times: 1, Action: fakeredis.Action{Then: func() {
			w.srv.Node(addr).ScriptFlush()
			mu.Lock()
			flushed = true
			mu.Unlock()
		}}})
	}
	n := 1 + w.rng.Intn(5)
	var le []rueidis.LuaExec
	for i := 0; i < n; i++ {
		c := w.newCall(true)
		st.calls = append(st.calls, c)
		le = append(le, rueidis.LuaExec{Keys: c.keys, Args: c.args})
	}
	res := w.lua.ExecMulti(ctx, w.client, le...)
	if len(res) != n {
		w.run.Violation("execmulti-result-count", w.v.name, map[string]any{"case": w.id, "lua_execs": n, "results": len(res)})
	}
	for i := range st.calls {
		if i < len(res) {
			st.calls[i].res, st.calls[i].got = res[i], true
		}
	}
	w.srv.ClearPlan()
	mu.Lock()
	if flushed {
		w.run.Observe("flushed_between_load_and_evalsha", 1)
	}
	mu.Unlock()
	w.run.Observe("execmulti_calls", 1)
}

// checkLoads decides the WithLoadSHA1 clause: Exec asks for the SHA with SCRIPT LOAD only until that first succeeds.
func (w *world) checkLoads(log []fakeredis.Event) {
	if !w.v.load {
		return
	}
	known := ""          // how the client could have learned the SHA: a SCRIPT LOAD of this script succeeded in that kind of step
	var hist []string // per step: kind and the SCRIPT LOAD outcomes seen in it
	for _, st := range w.steps {
		isExec := st.kind == "exec" || st.kind == "concurrent"
		loadsInExec, after, ok, failed := 0, 0, 0, 0
		knownBefore := known
		cut := map[int64]bool{} // connection -> the reply of the SCRIPT LOAD being processed is cut by an injected fault (fault worlds)
		for _, e := range log[st.from:st.to] {
			if e.Kind == "fault" && e.Conn != 0 {
				if k, ok := faultKindOf(e.Note); ok && k == "cut-reply" && len(e.Argv) > 0 && strings.EqualFold(e.Argv[0], "SCRIPT") {
					cut[e.Conn] = true
				}
			}
			if e.Conn == 0 || len(e.Argv) < 3 || !strings.EqualFold(e.Argv[0], "SCRIPT") || !strings.EqualFold(e.Argv[1], "LOAD") || e.Argv[2] != w.src {
				continue
			}
			switch e.Kind {
			case "recv":
				if isExec {
					loadsInExec++
					if known != "" {
						after++
					}
				}
				w.run.Observe("script_load_cmds", 1)
			case "reply":
				if cut[e.Conn] {
					// the server answered but the connection was cut inside this reply: the client never saw the SHA
					delete(cut, e.Conn)
					w.run.Observe("script_load_replies_lost", 1)
				} else if e.Reply.T == '$' && !e.Reply.Null2 {
					ok++
					if isExec {
						known = "Exec"
					}
				} else {
					failed++
					w.run.Observe("script_load_failures_seen", 1)
				}
			}
		}
		if !isExec && ok > 0 && known == "" {
			// ExecMulti fans SCRIPT LOAD out to every node
			if failed == 0 {
				known = "ExecMulti"
			} else {
				known = "ExecMulti-with-a-failed-node"
			}
		}
		hist = append(hist, fmt.Sprintf("%s: loads ok=%d failed=%d", st.kind, ok, failed))
		if isExec {
			w.run.Case(fmt.Sprintf("loadsha1|%s|%s|known-before=%v|loads=%d", w.v.name, st.kind, knownBefore, loadsInExec), loadsInExec > 0 || knownBefore != "")
			if after > 0 {
				w.run.Violation("script-load-after-success", w.v.name+"/"+st.kind+"/sha-learned-by="+knownBefore, map[string]any{"case": w.id, "constructor": w.v.name, "cluster": w.cluster, "step": st.kind,
					"script_loads_sent_by_this_step_after_a_success": after, "first_success_was_in": knownBefore, "steps_so_far": append([]string{}, hist...)})
			}
			if loadsInExec == 0 {
				w.run.Observe("exec_steps_without_script_load", 1)
			}
		}
	}
}

func runCase(t *testing.T, run *mon.Run, idx int, rng *rand.Rand) {
	v := variants[idx%len(variants)]
	cluster := (idx/len(variants))%2 == 1
	w := &world{run: run, id: strconv.Itoa(idx), v: v, cluster: cluster, rng: rng}
	if v.ro {
		b := roBodies[rng.Intn(len(roBodies))]
		w.body, w.src = b.name, fmt.Sprintf("-- c30 case %d %s\n%s", idx, v.name, b.src)
	} else {
		b := rwBodies[rng.Intn(len(rwBodies))]
		w.body, w.src = b.name, fmt.Sprintf("-- c30 case %d %s\n%s", idx, v.name, b.src)
	}
	w.addrs = []string{"127.0.0.1:7001"}
	if cluster {
		w.addrs = []string{"127.0.0.1:7001", "127.0.0.1:7002", "127.0.0.1:7003"}
	}
	w.srv = fakeredis.New(fakeredis.Options{LogReplies: true, Seed: run.Seed*7919 + int64(idx), ChunkWrites: idx%3 == 0}, w.addrs...)
	defer w.srv.Close()
	if cluster {
		w.srv.EnableCluster()
	}
	opt := drv.Option(w.srv, w.addrs...)
	opt.DisableCache = idx%4 == 1
	if !cluster {
		opt.ForceSingleClient = idx%2 == 0
	}
	cl, err := rueidis.NewClient(opt)
	if err != nil {
		run.Inconclusive("client construction failed: " + err.Error())
		return
	}
	w.client = cl
	defer cl.Close()
	w.lua = v.mk(w.src)
	w.sha = shaOf(w.srv, w.addrs[0], w.src)

	kinds := []string{"exec", "exec", "exec", "multi", "concurrent", "flush", "flushone", "loadsubset", "multi-flushed-between"}
	if v.load {
		kinds = append(kinds, "failload", "failload")
	}
	nsteps := 6 + rng.Intn(8)
	// every case starts from a chosen cache state
	switch idx % 3 {
	case 1:
		w.doStep("loadsubset")
	case 2:
		if v.load && rng.Intn(2) == 0 {
			w.doStep("failload")
		}
	}
	for i := 0; i < nsteps; i++ {
		w.doStep(kinds[rng.Intn(len(kinds))])
	}
	w.srv.ClearPlan()
	w.doStep("exec") // one call with no fault pending

	log := w.srv.Log()
	seenBy, _ := analyse(log)
	for _, st := range w.steps {
		for _, c := range st.calls {
			w.checkCall(c, seenBy[c.uid], st.kind)
		}
	}
	w.checkLoads(log)
	if idx < 6 {
		var hist []string
		for _, st := range w.steps {
			hist = append(hist, fmt.Sprintf("%s(%d calls)", st.kind, len(st.calls)))
		}
		c := w.steps[len(w.steps)-1].calls[0]
		run.Sample(map[string]any{"case": idx, "constructor": v.name, "cluster": cluster, "script": w.src, "steps": hist, "last_exec": w.witness(c, seenBy[c.uid], nil)})
	}
}

// shaOf asks the fake server for the script's SHA-1 without loading it anywhere the client can see:
// it loads and immediately flushes on a scratch basis (node cache is restored to empty).
func shaOf(s *fakeredis.Server, addr, src string) string {
	n := s.Node(addr)
	v := n.Exec("SCRIPT", "LOAD", src)
	n.ScriptFlush()
	return v.S
}

func TestC30(t *testing.T) {
	run := mon.Start(t, "C30", "exploration",
		"per case one Lua object (10 constructor/option variants x {single, 3-node cluster} x script body) driven through a random history of Exec / ExecMulti(1-8 LuaExecs) / 3-8 concurrent Execs / SCRIPT FLUSH on all or one node / script pre-loaded on a subset of nodes / flush between ExecMulti's LOAD and EVALSHA / failing SCRIPT LOAD; "+
			"each call carries a unique uid (ARGV[1], returned by the script) and its own counter key; a case is (constructor, client kind, Exec|ExecMulti, step kind, observed command/reply sequence); non-trivial when the call reached the server; "+
			"then fault worlds (faults_test.go): per world one Lua object (10 variants x {forced single, standalone, 3-node cluster} x retries on / off) and one step per (command of the sequence: SCRIPT LOAD, first command, fall-back EVAL after NOSCRIPT) x (connection closed before execution, closed after execution without reply, reply cut after 1-3 bytes, -LOADING reply) x cache state, through Exec, ExecMulti and concurrent Execs")
	defer run.Finish()
	run.Assume("fakeredis executes scripts with minilua and logs one 'script' event per body execution on the requesting connection", "the NOSCRIPT / script cache behaviour of fakeredis (per node cache, EVAL loads, SCRIPT FLUSH empties) is that of Redis")
	n := run.N(1000, 8000)
	base := run.Rand("cases").Int63()
	for i := 0; i < n; i++ {
		func() {
			defer func() {
				if p := recover(); p != nil {
					run.Violation("panic", fmt.Sprintf("case-%d", i%len(variants)), map[string]any{"case": i, "panic": fmt.Sprint(p)})
				}
			}()
			runCase(t, run, i, rand.New(rand.NewSource(base+int64(i)*104729)))
		}()
	}
	runFaultWorlds(t, run)
	run.Require("noscript_fallbacks", "evalsha_hits", "bodies_run_once", "results_matched", "execmulti_calls", "concurrent_execs", "flushes", "script_load_cmds", "counter_keys_checked", "exec_steps_without_script_load", "script_load_failures_seen")
}
