//go:build verif

package c04

import (
	"bytes"
	"context"
	"fmt"
	"math/rand"
	"strings"
	"sync"
	"sync/atomic"
	"testing"
	"testing/synctest"
	"time"

	"github.com/redis/rueidis"
	"verifh/drv"
	"verifh/fakeredis"
	"verifh/mon"
)

const addr = "127.0.0.1:6379"

type call struct {
	kind     string
	uid      string
	subKind  string      // Receive kinds: subscribe | psubscribe | ssubscribe
	confirm  atomic.Bool // Receive kinds: the server's subscription confirmation reached the client (OnSubscriptionHook)
	returned atomic.Bool
	err      atomic.Value // string
	bad      atomic.Value // string: wrong value description
	at       time.Time
}

type scen struct {
	name    string
	failure string // kill | cut | stall | eof-after-exec | close
	queue   string
	scale   int
	always  bool
	kinds   []string
	seed    int64
}

var allKinds = []string{"Do", "Do", "DoUnsub", "DoMulti", "DoCache", "DoCacheWaiter", "Receive", "Blpop", "DoStream", "Dedicated", "DoMultiCache", "ReceiveP", "ReceiveS"}

// the three subscription registries of a connection: channels, patterns, sharded channels
var subKindOf = map[string]string{"Receive": "subscribe", "ReceiveP": "psubscribe", "ReceiveS": "ssubscribe"}

func subscribeCmd(client rueidis.Client, subKind, ch string) rueidis.Completed {
	switch subKind {
	case "psubscribe":
		return client.B().Psubscribe().Pattern(ch).Build()
	case "ssubscribe":
		return client.B().Ssubscribe().Channel(ch).Build()
	}
	return client.B().Subscribe().Channel(ch).Build()
}

// hooked returns a context whose subscription hook records that the server confirmed a subscription of c's kind.
func hooked(c *call) context.Context {
	return rueidis.WithOnSubscriptionHook(context.Background(), func(s rueidis.PubSubSubscription) {
		if s.Kind == c.subKind {
			c.confirm.Store(true)
		}
	})
}

func (sc scen) String() string {
	return fmt.Sprintf("%s failure=%s queue=%s scale=%d always=%v pending=%v", sc.name, sc.failure, sc.queue, sc.scale, sc.always, sc.kinds)
}

func runScenario(run *mon.Run, sc scen) {
	rueidis.VerifSetQueueType(sc.queue)
	defer rueidis.VerifSetQueueType("")
	srv := fakeredis.New(fakeredis.Options{Seed: sc.seed}, addr)
	opt := drv.Option(srv, addr)
	opt.ForceSingleClient = true
	opt.PipelineMultiplex = -1
	opt.RingScaleEachConn = sc.scale
	opt.AlwaysPipelining = sc.always
	opt.BlockingPoolSize = 3
	opt.DisableRetry = true
	opt.Dialer.KeepAlive = time.Second
	opt.ConnWriteTimeout = 2 * time.Second
	client, err := rueidis.NewClient(opt)
	if err != nil {
		run.Inconclusive("client setup: " + err.Error())
		srv.Close()
		return
	}
	node := srv.Node(addr)
	node.Exec("SET", "ck", "cv")
	// every command that carries "hold" never gets its answer until the failure is injected; in "cut" scenarios the
	// first held command of each connection is answered after one second, and the connection is cut two bytes into that reply
	isHeld := func(a []string) bool {
		for _, x := range a {
			if strings.Contains(x, "hold") {
				return true
			}
		}
		if a[0] == "EXEC" || a[0] == "BLPOP" {
			return true
		}
		return false
	}
	// the PING that rueidis writes right after an UNSUBSCRIBE is held too: the call is then pending with its
	// unsubscribe push already read and only the trailing PONG outstanding
	lastWasUnsub := map[int64]bool{}
	heldOrig := isHeld
	isHeldConn := func(c *fakeredis.Conn, a []string) bool {
		was := lastWasUnsub[c.ID]
		lastWasUnsub[c.ID] = strings.EqualFold(a[0], "UNSUBSCRIBE")
		if was && strings.EqualFold(a[0], "PING") {
			return true
		}
		return heldOrig(a)
	}
	if sc.failure == "cut" {
		cutDone := map[string]bool{}
		srv.Plan(&fakeredis.Rule{Name: "cut", Match: func(c *fakeredis.Conn, a []string) bool {
			k := fmt.Sprint(c.ID)
			if !isHeldConn(c, a) || cutDone[k] {
				return false
			}
			cutDone[k] = true
			return true
		}, Action: fakeredis.Action{DelayReply: time.Second, CloseAfter: 2}})
	}
	srv.Plan(&fakeredis.Rule{Name: "hold", Match: func(c *fakeredis.Conn, a []string) bool {
		if sc.failure == "cut" {
			return heldOrig(a) // the cut rule above already advanced the per-connection UNSUBSCRIBE tracking
		}
		return isHeldConn(c, a)
	}, Action: fakeredis.Action{Stall: true}})

	var calls []*call
	var wg sync.WaitGroup
	var closeReturned atomic.Bool
	start := func(kind string, i int) {
		c := &call{kind: kind, uid: fmt.Sprintf("hold-%s-%d", kind, i), subKind: subKindOf[kind]}
		calls = append(calls, c)
		wg.Add(1)
		go func() {
			defer wg.Done()
			var err error
			ctx := context.Background()
			echo := func(uid string) rueidis.Completed {
				return client.B().Arbitrary("VERIF.ECHO").Keys("k").Args(uid, "str").Build()
			}
			checkStr := func(r rueidis.RedisResult, want string) error {
				s, e := r.ToString()
				if e == nil && s != want {
					c.bad.Store(fmt.Sprintf("got %q want %q", s, want))
				}
				return e
			}
			switch kind {
			case "Do":
				err = checkStr(client.Do(ctx, echo(c.uid)), "echo:"+c.uid)
			case "DoUnsub":
				err = client.Do(ctx, client.B().Unsubscribe().Channel("never-subscribed-"+c.uid[5:]).Build()).Error()
			case "DoMulti":
				rs := client.DoMulti(ctx, echo("pre-"+c.uid[5:]), echo(c.uid), echo("post-"+c.uid[5:]))
				err = checkStr(rs[1], "echo:"+c.uid)
				if e0 := checkStr(rs[0], "echo:pre-"+c.uid[5:]); e0 != nil && err == nil {
					err = e0
				}
			case "DoCache", "DoCacheWaiter":
				err = checkStr(client.DoCache(ctx, client.B().Get().Key("ck").Cache(), time.Minute), "cv")
			case "DoMultiCache":
				rs := client.DoMultiCache(ctx, rueidis.CT(client.B().Get().Key("ck").Cache(), time.Minute), rueidis.CT(client.B().Get().Key("ck2-"+c.uid).Cache(), time.Minute))
				err = checkStr(rs[0], "cv")
			case "Receive", "ReceiveP", "ReceiveS":
				// every other Receive is fully established (waiting for messages), the others are still waiting for the
				// (P|S)SUBSCRIBE reply; the three kinds live in three separate registries of the connection
				ch := "chan-" + c.uid
				if i%2 == 0 {
					ch = "established-" + fmt.Sprint(i)
				}
				err = client.Receive(hooked(c), subscribeCmd(client, c.subKind, ch), func(rueidis.PubSubMessage) {})
				if err == nil {
					err = fmt.Errorf("receive returned nil without unsubscribe")
				}
			case "Blpop":
				_, err = client.Do(ctx, client.B().Blpop().Key("list-"+c.uid).Timeout(0).Build()).AsStrSlice()
			case "DoStream":
				s := client.DoStream(ctx, echo(c.uid))
				var buf bytes.Buffer
				_, err = s.WriteTo(&buf)
				if err == nil && buf.String() != "echo:"+c.uid {
					c.bad.Store("stream got " + buf.String())
				}
			case "Dedicated":
				err = client.Dedicated(func(dc rueidis.DedicatedClient) error {
					return checkStr(dc.Do(ctx, echo(c.uid)), "echo:"+c.uid)
				})
			}
			if err != nil {
				c.err.Store(err.Error())
			} else {
				c.err.Store("")
			}
			c.at = time.Now()
			c.returned.Store(true)
		}()
	}
	for i, k := range sc.kinds {
		start(k, i)
		synctest.Wait() // deterministic arrival order: one pending call after the other
	}
	connsBefore := srv.Conns(addr)
	failedAt := time.Now()
	// measured, not assumed: which Receive calls sit in their message loop (confirmed by the server, not returned) at the failure
	for _, c := range calls {
		if c.subKind == "" || c.returned.Load() {
			continue
		}
		if c.confirm.Load() {
			run.Observe("receive_in_message_loop_at_failure_"+c.subKind, 1)
		} else {
			run.Observe("receive_awaiting_confirmation_at_failure_"+c.subKind, 1)
		}
	}

	// inject the failure
	switch sc.failure {
	case "kill":
		srv.KillAll(addr)
	case "stall":
		// the server simply never answers again (not even PING): the keep-alive ping and the write timeout must notice
		srv.Plan(&fakeredis.Rule{Name: "silent", Match: func(*fakeredis.Conn, []string) bool { return true }, Action: fakeredis.Action{Stall: true}})
	case "cut":
		// the first held reply of every connection starts to flow and the connection is cut in the middle of the frame
		for _, c := range calls {
			if c.kind == "Blpop" {
				node.Exec("RPUSH", "list-"+c.uid, "x")
			}
		}
		time.Sleep(1500 * time.Millisecond)
		srv.KillAll(addr) // connections that carried no held command (an idle, established Receive) are dropped instead
	case "close":
		go func() { client.Close(); closeReturned.Store(true) }()
		time.Sleep(4 * time.Second) // ConnWriteTimeout (2 s) + close grace (1 s) + margin, virtual
		synctest.Wait()
		if !closeReturned.Load() {
			run.Violation("close-does-not-return", fmt.Sprintf("client.Close|queue=%s/%d", sc.queue, 2<<(sc.scale-1)), map[string]any{"scenario": sc.String(),
				"history": "commands are pending on the pipelined connection, the server is silent, client.Close() is called and has not returned after 4 virtual seconds"})
		}
		// Close does not interrupt commands that are executing on connections taken from the blocking pool:
		// they return once the server answers, so the server now answers everything it held
		srv.ClearPlan()
		srv.Resume()
		for _, c := range calls {
			if c.kind == "Blpop" {
				node.Exec("RPUSH", "list-"+c.uid, "x")
			}
		}
	}
	// bounded progress, virtual time: keep-alive (1 s) + write timeout (2 s) + close grace (1 s), with margin
	time.Sleep(8 * time.Second)
	synctest.Wait()

	pendingKinds := 0
	for _, c := range calls {
		pendingKinds++
		if !c.returned.Load() && sc.failure == "stall" && c.kind == "Blpop" {
			// a silent server is indistinguishable from an empty list for a blocking command: nothing failed yet
			run.Observe("blocking_calls_left_waiting_on_silent_server", 1)
			continue
		}
		if !c.returned.Load() && c.subKind != "" {
			run.Violation("call-still-pending", fmt.Sprintf("%s|Receive(%s)", sc.failure, c.subKind), map[string]any{"scenario": sc.String(), "call": c.kind, "uid": c.uid,
				"subscription_confirmed_before_failure": c.confirm.Load(), "waited_virtual": time.Since(failedAt).String()})
			continue
		}
		if !c.returned.Load() {
			run.Violation("call-still-pending", fmt.Sprintf("%s|%s", sc.failure, c.kind), map[string]any{"scenario": sc.String(), "call": c.kind, "uid": c.uid,
				"waited_virtual": time.Since(failedAt).String()})
			continue
		}
		run.Observe("pending_calls_returned", 1)
		if c.subKind != "" && c.confirm.Load() {
			run.Observe("receive_in_message_loop_returned_"+c.subKind, 1)
		}
		if b, _ := c.bad.Load().(string); b != "" {
			run.Violation("wrong-reply", fmt.Sprintf("%s|%s", sc.failure, c.kind), map[string]any{"scenario": sc.String(), "call": c.kind, "detail": b})
		}
		e, _ := c.err.Load().(string)
		if e == "" && (sc.failure == "kill" || sc.failure == "stall") && c.kind != "DoCacheWaiter" && c.kind != "DoCache" {
			// the reply of a held command never left the server: a success would be somebody else's reply or an invented one
			run.Violation("pending-call-succeeded-without-reply", fmt.Sprintf("%s|%s", sc.failure, c.kind), map[string]any{"scenario": sc.String(), "call": c.kind})
		}
		if e != "" {
			run.Observe("pending_calls_got_error", 1)
		}
	}

	if sc.failure != "close" {
		// later calls are served by a fresh connection
		srv.ClearPlan()
		srv.Resume()
		uid := "after-" + sc.name
		ctx, cancel := context.WithTimeout(context.Background(), 20*time.Second)
		s, err := client.Do(ctx, client.B().Arbitrary("VERIF.ECHO").Keys("k").Args(uid, "str").Build()).ToString()
		cancel()
		if err != nil || s != "echo:"+uid {
			run.Violation("no-service-after-failure", sc.failure, map[string]any{"scenario": sc.String(), "err": fmt.Sprint(err), "got": s})
		} else {
			served := int64(0)
			for _, ev := range srv.Log() {
				if ev.Kind == "recv" && len(ev.Argv) > 2 && ev.Argv[2] == uid {
					served = ev.Conn
				}
			}
			closedConns := map[int64]bool{}
			for _, ev := range srv.Log() {
				if ev.Kind == "close" {
					closedConns[ev.Conn] = true
				}
			}
			if closedConns[served] {
				run.Violation("served-by-failed-connection", sc.failure, map[string]any{"scenario": sc.String(), "conn": served})
			}
			isNew := true
			for _, id := range connsBefore {
				if id == served {
					isNew = false
				}
			}
			if isNew {
				run.Observe("served_by_new_connection_id", 1)
			}
			run.Observe("served_by_fresh_connection", 1)
		}
		// and Close: calls pending at Close return, calls after Close fail with ErrClosing and send nothing
		srv.Plan(&fakeredis.Rule{Name: "hold2", Match: fakeredis.MatchArg("hold2"), Action: fakeredis.Action{Stall: true}})
		late := &call{kind: "Do-pending-at-Close", uid: "hold2-" + sc.name}
		startLateDo := func() {
			wg.Add(1)
			go func() {
				defer wg.Done()
				err := client.Do(context.Background(), client.B().Arbitrary("VERIF.ECHO").Keys("k").Args(late.uid, "str").Build()).Error()
				late.err.Store(fmt.Sprint(err))
				late.returned.Store(true)
			}()
			synctest.Wait()
		}
		// ... and a Receive on the fresh connection, one subscription kind per scenario: started before the held command it
		// sits in its message loop at Close, started after it (the server has stopped reading that connection) it still
		// waits for the confirmation of its subscription at Close
		lateRecv := &call{kind: "Receive-pending-at-Close", uid: "late-" + sc.name, subKind: []string{"subscribe", "psubscribe", "ssubscribe"}[int((sc.seed%3+3)%3)]}
		startLateRecv := func() {
			wg.Add(1)
			go func() {
				defer wg.Done()
				err := client.Receive(hooked(lateRecv), subscribeCmd(client, lateRecv.subKind, "late-"+sc.name), func(rueidis.PubSubMessage) {})
				lateRecv.err.Store(fmt.Sprint(err))
				lateRecv.returned.Store(true)
			}()
			synctest.Wait()
		}
		if (sc.seed/3)%2 == 0 {
			startLateRecv()
			startLateDo()
		} else {
			startLateDo()
			startLateRecv()
		}
		lateLoop := lateRecv.confirm.Load() && !lateRecv.returned.Load()
		if lateLoop {
			run.Observe("receive_in_message_loop_at_close_"+lateRecv.subKind, 1)
		} else if !lateRecv.returned.Load() {
			run.Observe("receive_awaiting_confirmation_at_close_"+lateRecv.subKind, 1)
		}
		go func() { client.Close(); closeReturned.Store(true) }()
		time.Sleep(5 * time.Second)
		synctest.Wait()
		if !closeReturned.Load() {
			run.Violation("close-does-not-return", fmt.Sprintf("client.Close|after-%s", sc.failure), map[string]any{"scenario": sc.String()})
			srv.ClearPlan()
			srv.Resume()
			time.Sleep(5 * time.Second)
			synctest.Wait()
		}
		if !late.returned.Load() {
			run.Violation("call-still-pending", "Close|Do", map[string]any{"scenario": sc.String(), "call": "Do pending at Close"})
		} else {
			run.Observe("pending_at_close_returned", 1)
		}
		if !lateRecv.returned.Load() {
			run.Violation("call-still-pending", "Close|Receive("+lateRecv.subKind+")", map[string]any{"scenario": sc.String(), "call": "Receive(" + lateRecv.subKind + ") pending at Close",
				"in_message_loop": lateLoop})
		} else if lateLoop {
			run.Observe("receive_pending_at_close_returned", 1)
		}
	}
	// after Close
	before := srv.LogLen()
	uid := "closed-" + sc.name
	res := client.Do(context.Background(), client.B().Arbitrary("VERIF.ECHO").Keys("k").Args(uid, "str").Build())
	if res.Error() != rueidis.ErrClosing {
		run.Violation("call-after-close-not-ErrClosing", "Do", map[string]any{"scenario": sc.String(), "err": fmt.Sprint(res.Error())})
	}
	rs := client.DoMulti(context.Background(), client.B().Arbitrary("VERIF.ECHO").Keys("k").Args(uid, "str").Build())
	if rs[0].Error() != rueidis.ErrClosing {
		run.Violation("call-after-close-not-ErrClosing", "DoMulti", map[string]any{"scenario": sc.String(), "err": fmt.Sprint(rs[0].Error())})
	}
	if err := client.DoCache(context.Background(), client.B().Get().Key("ck").Cache(), time.Minute).Error(); err != rueidis.ErrClosing {
		run.Violation("call-after-close-not-ErrClosing", "DoCache", map[string]any{"scenario": sc.String(), "err": fmt.Sprint(err)})
	}
	if err := client.Receive(context.Background(), client.B().Subscribe().Channel("x").Build(), func(rueidis.PubSubMessage) {}); err != rueidis.ErrClosing {
		run.Violation("call-after-close-not-ErrClosing", "Receive", map[string]any{"scenario": sc.String(), "err": fmt.Sprint(err)})
	}
	run.Observe("calls_after_close", 4)
	synctest.Wait()
	for _, ev := range srv.Log()[before:] {
		if ev.Kind == "recv" {
			for _, a := range ev.Argv {
				if a == uid {
					run.Violation("command-sent-after-close", "Do", map[string]any{"scenario": sc.String(), "argv": ev.Argv})
				}
			}
		}
	}
	wgDone := make(chan struct{})
	go func() { wg.Wait(); close(wgDone) }()
	synctest.Wait()
	srv.Resume()
	srv.Close()
	select {
	case <-wgDone:
	default:
	}
	run.Case(fmt.Sprintf("%s|%s|%s|%d|%v|%v", sc.failure, sc.queue, strings.Join(sc.kinds, ","), sc.scale, sc.always, pendingKinds), len(sc.kinds) > 0)
}

func genScenarios(run *mon.Run) []scen {
	rng := run.Rand("scenarios")
	var out []scen
	n := run.N(98, 2500) // 13 kinds x 4 failures alone, then 46 mixes
	for i := 0; i < n; i++ {
		sc := scen{name: fmt.Sprintf("s%d", i), failure: []string{"kill", "stall", "cut", "close"}[i%4], seed: run.Seed*7919 + int64(i)}
		switch rng.Intn(3) {
		case 0:
			sc.queue, sc.scale = "ring", 10
		case 1:
			sc.queue, sc.scale = "flowbuffer", 1 // 2 slots: the queue is full with a few pending calls
		default:
			sc.queue, sc.scale = "flowbuffer", 4
		}
		sc.always = rng.Intn(2) == 0
		k := 1 + rng.Intn(6)
		if i < len(allKinds)*4 {
			// make sure every kind meets every failure alone first
			sc.kinds = []string{allKinds[(i/4)%len(allKinds)]}
		} else {
			for j := 0; j < k; j++ {
				sc.kinds = append(sc.kinds, allKinds[rng.Intn(len(allKinds))])
			}
		}
		fixKinds(&sc, rng)
		out = append(out, sc)
	}
	return out
}

// fixKinds keeps the scenario meaningful: a cache waiter needs an owner before it.
func fixKinds(sc *scen, _ *rand.Rand) {
	// at most BlockingPoolSize (3) calls may hold pool connections, or the extra one just queues for a connection
	pooled := 0
	for i, k := range sc.kinds {
		if k == "Blpop" || k == "Dedicated" || k == "DoStream" {
			if pooled++; pooled > 3 {
				sc.kinds[i] = "Do"
			}
		}
	}
	hasOwner := false
	for i, k := range sc.kinds {
		if k == "DoCache" {
			hasOwner = true
		}
		if k == "DoCacheWaiter" && !hasOwner {
			sc.kinds[i] = "DoCache"
			hasOwner = true
		}
	}
}

// ---- hand-shake family: client.Close() lands between a call's registration on the connection and its look at the
// connection's state. The connection of a fresh client is still in synchronous mode (no background worker yet); the
// first call registers itself as the only waiter (hook "pipe.do.registered", waits == 1) and is held there; Close runs
// on another goroutine and releases the call right after it has switched the connection to "closing"
// (hook "pipe.close.swapped"). Whatever the interleaving, the call must return, Close must return and the
// connection's teardown must finish: nothing of the client may stay parked when the bubble ends.

type hsScen struct {
	name  string
	kind  string // Do | DoMulti | DoCache | DoMultiCache | Receive
	ctx   string // background | deadline | cancel
	queue string
	scale int
}

func (h hsScen) String() string {
	return fmt.Sprintf("%s handshake call=%s ctx=%s queue=%s/%d", h.name, h.kind, h.ctx, h.queue, 2<<(h.scale-1))
}

func genHandshakes() []hsScen {
	var out []hsScen
	for _, q := range []struct {
		q string
		s int
	}{{"ring", 10}, {"flowbuffer", 1}} {
		for _, kind := range []string{"Do", "DoMulti", "DoCache", "DoMultiCache", "Receive"} {
			for _, cx := range []string{"background", "deadline", "cancel"} {
				out = append(out, hsScen{name: fmt.Sprintf("h%d", len(out)), kind: kind, ctx: cx, queue: q.q, scale: q.s})
			}
		}
	}
	return out
}

func runHandshake(run *mon.Run, h hsScen) {
	rueidis.VerifSetQueueType(h.queue)
	defer rueidis.VerifSetQueueType("")
	srv := fakeredis.New(fakeredis.Options{Seed: run.Seed}, addr)
	opt := drv.Option(srv, addr)
	opt.ForceSingleClient = true
	opt.PipelineMultiplex = -1 // a single wire
	opt.RingScaleEachConn = h.scale
	opt.AlwaysPipelining = false // the wire starts in synchronous mode
	opt.DisableRetry = true
	opt.Dialer.KeepAlive = time.Minute // no keep-alive ping during the history
	client, err := rueidis.NewClient(opt)
	if err != nil {
		run.Inconclusive("handshake client setup: " + err.Error())
		srv.Close()
		return
	}
	srv.Node(addr).Exec("SET", "ck", "cv")

	// hooks are process-global: installed after the client's own set-up traffic, removed before the bubble ends; they act
	// on the first wire that registers a first waiter only and never touch harness locks while waiting
	var heldPipe atomic.Value // the *pipe of the held call, as an opaque value
	var held, released, stopping1, expired atomic.Bool
	var closeHooks atomic.Int32
	release := make(chan struct{})
	rueidis.VerifSetHook(func(point string, args ...any) {
		switch point {
		case "pipe.do.registered":
			if w, _ := args[1].(uint32); w != 1 || !held.CompareAndSwap(false, true) {
				return
			}
			heldPipe.Store(args[0])
			select {
			case <-release:
			case <-time.After(30 * time.Second): // virtual; the hand-shake did not happen: do not wedge the driver
				expired.Store(true)
			}
		case "pipe.close.swapped":
			if !held.Load() || heldPipe.Load() != args[0] {
				return
			}
			closeHooks.Add(1)
			if released.CompareAndSwap(false, true) {
				s1, _ := args[1].(bool) // args: pipe, stopping1 (state 0 -> 2), stopping2 (state 1 -> 2)
				stopping1.Store(s1)
				close(release)
			}
		}
	})
	defer rueidis.VerifSetHook(nil)

	ctx, cancel := context.Background(), context.CancelFunc(func() {})
	switch h.ctx {
	case "deadline":
		ctx, cancel = context.WithTimeout(ctx, time.Hour)
	case "cancel":
		ctx, cancel = context.WithCancel(ctx)
	}
	defer cancel()
	var callReturned, closeReturned atomic.Bool
	var callErr atomic.Value
	uid := "hs-" + h.name
	echo := func(u string) rueidis.Completed {
		return client.B().Arbitrary("VERIF.ECHO").Keys("k").Args(u, "str").Build()
	}
	go func() {
		var err error
		switch h.kind {
		case "Do":
			err = client.Do(ctx, echo(uid)).Error()
		case "DoMulti":
			for _, r := range client.DoMulti(ctx, echo(uid+"-a"), echo(uid+"-b")) {
				if r.Error() != nil {
					err = r.Error()
				}
			}
		case "DoCache":
			err = client.DoCache(ctx, client.B().Get().Key("ck").Cache(), time.Minute).Error()
		case "DoMultiCache":
			for _, r := range client.DoMultiCache(ctx, rueidis.CT(client.B().Get().Key("ck").Cache(), time.Minute), rueidis.CT(client.B().Get().Key("ck2").Cache(), time.Minute)) {
				if r.Error() != nil {
					err = r.Error()
				}
			}
		case "Receive":
			err = client.Receive(ctx, client.B().Subscribe().Channel(uid).Build(), func(rueidis.PubSubMessage) {})
		}
		callErr.Store(fmt.Sprint(err))
		callReturned.Store(true)
	}()
	synctest.Wait()
	if !held.Load() || callReturned.Load() {
		run.Inconclusive("handshake: the first call of a fresh client was not held as the first waiter of its wire: " + h.String())
	} else {
		run.Observe("handshake_call_held_as_first_waiter", 1)
	}
	closeAt := time.Now()
	var closeTook atomic.Int64
	go func() { client.Close(); closeTook.Store(int64(time.Since(closeAt))); closeReturned.Store(true) }()
	// virtual: well past the one second that Close grants its farewell PING
	time.Sleep(5 * time.Second)
	synctest.Wait()
	if released.Load() && !expired.Load() {
		run.Observe("handshake_call_released_by_close_hook", 1)
		if stopping1.Load() {
			// Close found the wire in synchronous mode (state 0 -> 2): the interleaving this family is about
			run.Observe("handshake_close_switched_sync_wire_while_call_registered", 1)
		}
	} else {
		run.Inconclusive("handshake: client.Close() never reached the wire of the held call: " + h.String())
		if !released.Load() {
			close(release)
		}
		time.Sleep(time.Second)
		synctest.Wait()
	}
	key := fmt.Sprintf("handshake|%s|ctx=%s", h.kind, h.ctx)
	if !callReturned.Load() {
		run.Violation("call-still-pending", key, map[string]any{"scenario": h.String(),
			"history": "the call registered as the first waiter of a wire in synchronous mode, client.Close() switched the wire to closing, the call went on; 5 virtual seconds later it has not returned"})
	} else {
		run.Observe("handshake_call_returned", 1)
		if e, _ := callErr.Load().(string); e == fmt.Sprint(rueidis.ErrClosing) {
			run.Observe("handshake_call_got_ErrClosing", 1)
		}
	}
	if !closeReturned.Load() {
		run.Violation("close-does-not-return", "client.Close|"+key, map[string]any{"scenario": h.String()})
	} else {
		run.Observe("handshake_close_returned", 1)
		if time.Duration(closeTook.Load()) >= time.Second {
			// not a verdict (the statement sets no bound): Close sat out the full second it grants its farewell PING
			run.Observe("handshake_close_sat_out_its_full_second", 1)
		}
	}
	res := client.Do(context.Background(), echo("closed-"+uid))
	if res.Error() != rueidis.ErrClosing {
		run.Violation("call-after-close-not-ErrClosing", "Do|handshake", map[string]any{"scenario": h.String(), "err": fmt.Sprint(res.Error())})
	}
	rueidis.VerifSetHook(nil)
	srv.Close()
	// the bubble ends here: a goroutine of the client that is still parked (the farewell-PING helper of Close, the
	// background worker, ...) is reported by the caller as hang-or-leak
	run.Case(fmt.Sprintf("handshake|%s|%s|%s/%d", h.kind, h.ctx, h.queue, h.scale), true)
}

// C04: broken connections and Close never leave calls hanging.
func TestC04(t *testing.T) {
	run := mon.Start(t, "C04", "fault_enumeration",
		"failure {connection killed (EOF), server stops answering (keep-alive ping + write timeout), connection cut in the middle of a frame, client.Close} x pending mix drawn from {sync/queued Do, DoMulti half answered, DoCache owner, DoCache waiter, DoMultiCache, Receive on SUBSCRIBE / PSUBSCRIBE / SSUBSCRIBE (in its message loop or awaiting the confirmation), BLPOP on the blocking pool, DoStream, Dedicated} "+
			"x queue {ring, flowbuffer with 2 or 16 slots (full queue)} x AlwaysPipelining; each history in a synctest bubble: after the failure every pending call must have returned within 8 virtual seconds, held commands must not succeed, the next call is served on a new connection id, "+
			"calls after Close get ErrClosing and reach no server, and no goroutine of rueidis stays parked when the bubble ends; a case = (failure, queue, pending kinds); "+
			"plus a hand-shake family {Do, DoMulti, DoCache, DoMultiCache, Receive} x ctx {background, deadline, cancel} x queue: the first call of a fresh client is held right after it registered on its synchronous-mode wire (hook pipe.do.registered, waits==1) "+
			"and released by client.Close() right after Close switched the wire to closing (hook pipe.close.swapped): the call and Close must return and no goroutine may stay parked")
	defer run.Finish()
	run.Assume("virtual time: KeepAlive 1 s, ConnWriteTimeout 2 s, 1 s close grace => 8 s bound", "fakeredis Stall/Kill/Raw fault rules; a held command's reply never leaves the server")
	livelocks := 0
	for i, sc := range genScenarios(run) {
		sc := sc
		dl, stacks, frozen := drv.BubbleRT(t, 90*time.Second, func() { runScenario(run, sc) })
		if frozen != nil && strings.HasPrefix(frozen[0], "(") {
			livelocks++
			run.Inconclusive("bubble did not finish in 90 s of real time and no spinning rueidis goroutine was identified: " + sc.String())
			if livelocks >= 3 {
				break
			}
			continue
		}
		if frozen != nil {
			livelocks++
			run.Violation("teardown-never-finishes", sc.failure+"|"+strings.Join(frozen, ";"), map[string]any{"scenario": sc.String(), "spinning_in": frozen,
				"meaning": "a pending call never returned, so the connection's teardown keeps polling for it: virtual time is frozen by a goroutine that never blocks", "stacks": drv.Tail(stacks, 12000)})
			if livelocks >= 3 {
				break
			}
			continue
		}
		if dl != "" {
			run.Violation("hang-or-leak", sc.failure+"|"+strings.Join(drv.RueidisFrames(stacks), ";"), map[string]any{"scenario": sc.String(), "synctest": dl, "rueidis_frames": drv.RueidisFrames(stacks), "stacks": drv.Tail(stacks, 16000)})
		}
		if i < 4 {
			run.Sample(sc.String())
		}
	}
	for _, h := range genHandshakes() {
		h := h
		dl, stacks, frozen := drv.BubbleRT(t, 90*time.Second, func() { runHandshake(run, h) })
		rueidis.VerifSetHook(nil)
		if frozen != nil {
			run.Inconclusive("handshake bubble did not finish in 90 s of real time: " + h.String() + " " + strings.Join(frozen, ";"))
			break
		}
		if dl != "" {
			run.Violation("hang-or-leak", fmt.Sprintf("handshake|%s|%s", h.kind, strings.Join(drv.RueidisFrames(stacks), ";")), map[string]any{"scenario": h.String(), "synctest": dl,
				"meaning":        "client.Close() returned and every call returned, but a goroutine of the client is parked for ever when the history ends: the connection's teardown never finished",
				"rueidis_frames": drv.RueidisFrames(stacks), "stacks": drv.Tail(stacks, 16000)})
		}
	}
	run.Require("handshake_call_held_as_first_waiter", "handshake_call_released_by_close_hook", "handshake_close_switched_sync_wire_while_call_registered", "handshake_call_returned", "handshake_close_returned")
	run.Require("pending_calls_returned", "pending_calls_got_error", "served_by_fresh_connection", "served_by_new_connection_id", "pending_at_close_returned", "calls_after_close",
		// a Receive of each registry (channels, patterns, sharded channels) was in its message loop when the connection failed / the client was closed
		"receive_in_message_loop_at_failure_subscribe", "receive_in_message_loop_at_failure_psubscribe", "receive_in_message_loop_at_failure_ssubscribe",
		"receive_in_message_loop_at_close_subscribe", "receive_in_message_loop_at_close_psubscribe", "receive_in_message_loop_at_close_ssubscribe")
}
