//go:build verif

// Package c28 checks property C28: commands are retried automatically only if they are read-only or marked
// retryable, only after a transport error or a LOADING reply (cluster clients: also TRYAGAIN / CLUSTERDOWN), only
// while RetryDelay answers a non-negative delay, never once the context is done or the client is closed;
// DisableRetry switches all of that off; ordinary error and nil replies are returned as they are.
//
// One call per synctest bubble (virtual time). The driver's RetryDelay function logs every consultation with a
// stamp of the logical clock it shares with fakeredis, the server logs every command it receives with that
// clock and the virtual time. All verdicts are drawn from those two logs.
package c28

import (
	"context"
	"errors"
	"fmt"
	"math/rand"
	"os"
	"runtime"
	"sort"
	"strings"
	"sync"
	"testing"
	"time"

	"github.com/redis/rueidis"
	"verifh/drv"
	"verifh/fakeredis"
	"verifh/mon"
	"verifh/resp"
)

const (
	aP1, aP2, aP3 = "127.0.0.1:7001", "127.0.0.1:7002", "127.0.0.1:7003"
	aR1           = "127.0.0.1:7101"
	aS            = "127.0.0.1:26379"
)

type scen struct {
	mode       string // single | dedicated | standalone | redirect | sentinel | cluster | cluster-dedicated
	api        string // do | domulti | docache | domulticache
	errCls     string // closebefore | closeafter | loading | tryagain | clusterdown | err | nil | moved
	cmdCls     string // ro | write | retryable | mixed (domulti: read-only commands plus one plain write)
	script     []time.Duration
	scriptName string
	k          int // how many attempts meet the fault
	deadline   time.Duration
	noRetry    bool
	special    string // "" | cancel-in-callback | close-in-callback
	ncmds      int
	faultPos   int
}

func (s scen) String() string {
	return fmt.Sprintf("mode=%s api=%s err=%s cmd=%s script=%s k=%d deadline=%v DisableRetry=%v special=%s n=%d pos=%d", s.mode, s.api, s.errCls, s.cmdCls, s.scriptName, s.k, s.deadline, s.noRetry, s.special, s.ncmds, s.faultPos)
}

func (s scen) clusterMode() bool { return strings.HasPrefix(s.mode, "cluster") }
func (s scen) cacheAPI() bool   { return s.api == "docache" || s.api == "domulticache" }

type cmd struct {
	uid, key, cls string
	val           string // expected reply payload
	res           rueidis.RedisResult
	resErr        error
	resVal        string
	resNil        bool
}

type consult struct {
	stamp    int64
	attempts int
	argv     []string
	uid      string
	errStr   string
	errCls   string // transport | loading | tryagain | clusterdown | moved | ask | rediserr | nil | ctx | closing
	at       time.Time
	ctxDone  bool
	remain   time.Duration // time left to the deadline (0 = no deadline)
	answer   time.Duration
	afterClose, afterCancel bool
}

type recvEv struct {
	seq  int64
	at   time.Time
	uid  string
	node string
	conn int64
}

type world struct {
	run *mon.Run
	t   *testing.T
	id  int
	sc  scen
	rng *rand.Rand

	srv    *fakeredis.Server
	client rueidis.Client
	cmds   []*cmd
	byUID  map[string]*cmd

	mu          sync.Mutex
	consults    []consult
	recvs       []recvEv
	replies     map[string][]string // uid -> reply classes in order
	ctx         context.Context
	cancel      context.CancelFunc
	deadlineAt  time.Time
	cancelStamp int64
	closeStamp  int64
	started     time.Time
	hung        bool
	panicked    any
}

func classify(err error) string {
	if err == nil {
		return "none"
	}
	if rueidis.IsRedisNil(err) {
		return "nil"
	}
	if re, ok := rueidis.IsRedisErr(err); ok {
		switch {
		case re.IsLoading():
			return "loading"
		case re.IsTryAgain():
			return "tryagain"
		case re.IsClusterDown():
			return "clusterdown"
		}
		if _, ok := re.IsMoved(); ok {
			return "moved"
		}
		if _, ok := re.IsAsk(); ok {
			return "ask"
		}
		return "rediserr"
	}
	if errors.Is(err, context.Canceled) || errors.Is(err, context.DeadlineExceeded) {
		return "ctx"
	}
	if errors.Is(err, rueidis.ErrClosing) {
		return "closing"
	}
	return "transport"
}

func replyClass(v resp.V) string {
	if v.T == '-' || v.T == '!' {
		for _, p := range []string{"MOVED", "ASK", "LOADING", "TRYAGAIN", "CLUSTERDOWN"} {
			if strings.HasPrefix(v.S, p) {
				return p
			}
		}
		return "ERR"
	}
	if v.IsNull() {
		return "nil"
	}
	return "ok"
}

func uidOfArgv(a []string) string {
	if len(a) >= 3 && strings.HasPrefix(strings.ToUpper(a[0]), "VERIF.") {
		return a[2]
	}
	if len(a) == 2 && strings.EqualFold(a[0], "GET") {
		return a[1]
	}
	return ""
}

// retryDelay is the RetryDelay function under the driver's control.
func (w *world) retryDelay(attempts int, c rueidis.Completed, err error) time.Duration {
	argv := append([]string{}, c.Commands()...)
	w.mu.Lock()
	i := len(w.consults)
	ans := time.Duration(-1)
	if i < len(w.sc.script) {
		ans = w.sc.script[i]
	}
	cs := consult{stamp: mon.Stamp(), attempts: attempts, argv: argv, uid: uidOfArgv(argv), errStr: fmt.Sprint(err), errCls: classify(err), at: time.Now(), answer: ans,
		ctxDone: w.ctx.Err() != nil, afterClose: w.closeStamp != 0, afterCancel: w.cancelStamp != 0}
	if !w.deadlineAt.IsZero() {
		cs.remain = time.Until(w.deadlineAt)
	}
	w.consults = append(w.consults, cs)
	special := w.sc.special
	w.mu.Unlock()
	if i == 0 {
		switch special {
		case "cancel-in-callback":
			w.cancel()
			w.mu.Lock()
			w.cancelStamp = mon.Stamp()
			w.mu.Unlock()
		case "close-in-callback":
			w.client.Close()
			w.mu.Lock()
			w.closeStamp = mon.Stamp()
			w.mu.Unlock()
		}
	}
	return ans
}

var tags = map[string][]string{} // node address -> hash tags whose slot that node owns at start

func init() {
	// three primaries own 16384/3 slots each, in address order (fakeredis.EnableCluster)
	for i := 0; len(tags[aP1]) < 4 || len(tags[aP2]) < 4 || len(tags[aP3]) < 4; i++ {
		t := fmt.Sprintf("t%d", i)
		n := []string{aP1, aP2, aP3}[fakeredis.Slot(t)*3/16384]
		tags[n] = append(tags[n], t)
	}
}

func (w *world) setup() error {
	sc := w.sc
	opts := fakeredis.Options{LogReplies: true, Seed: int64(w.id)}
	var s *fakeredis.Server
	var o rueidis.ClientOption
	switch sc.mode {
	case "single", "dedicated":
		s = fakeredis.New(opts, aP1)
		o = drv.Option(s, aP1)
		o.ForceSingleClient = true
	case "redirect":
		// standalone client with CLIENT CAPA redirect; a first command is answered REDIRECT <aP2>, so that the call under
		// test runs against the primary the client switched to
		s = fakeredis.New(opts, aP1, aP2)
		o = drv.Option(s, aP1)
		o.Standalone.EnableRedirect = true
	case "standalone":
		s = fakeredis.New(opts, aP1)
		s.AddNode(aR1, "slave", s.Node(aP1))
		o = drv.Option(s, aP1)
		o.Standalone.ReplicaAddress = []string{aR1}
		o.SendToReplicas = func(c rueidis.Completed) bool { return c.IsReadOnly() }
	case "sentinel":
		s = fakeredis.New(opts, aP1)
		s.AddNode(aR1, "slave", s.Node(aP1))
		s.AddNode(aS, "sentinel", nil).ConfigureSentinel("mymaster", aP1, []fakeredis.SentinelReplica{{Addr: aR1}}, nil)
		o = drv.Option(s, aS)
		o.Sentinel.MasterSet = "mymaster"
	default:
		s = fakeredis.New(opts, aP1, aP2, aP3)
		s.EnableCluster()
		o = drv.Option(s, aP1, aP2, aP3)
	}
	w.srv = s
	w.replies = map[string][]string{}
	s.OnEvent = func(e fakeredis.Event) {
		if e.Conn == 0 || (e.Kind != "recv" && e.Kind != "reply") {
			return
		}
		u := uidOfArgv(e.Argv)
		if u == "" || w.byUID[u] == nil {
			return
		}
		w.mu.Lock()
		if e.Kind == "recv" {
			w.recvs = append(w.recvs, recvEv{seq: e.Seq, at: time.Now(), uid: u, node: e.Node, conn: e.Conn})
		} else {
			w.replies[u] = append(w.replies[u], replyClass(e.Reply))
		}
		w.mu.Unlock()
	}
	o.RetryDelay = w.retryDelay
	o.DisableRetry = sc.noRetry
	o.PipelineMultiplex = -1
	o.DisableCache = false
	cl, err := rueidis.NewClient(o)
	if err != nil {
		return err
	}
	w.client = cl
	if sc.mode == "redirect" {
		warm := fmt.Sprintf("warm%d;", w.id)
		red := resp.Err("REDIRECT " + aP2)
		s.Plan(&fakeredis.Rule{Name: "redirect", Match: fakeredis.MatchArg(warm), Times: 1, Action: fakeredis.Action{Reply: &red}})
		from := s.LogLen()
		v, err := cl.Do(context.Background(), cl.B().Arbitrary("VERIF.ECHO").Keys("k:{t}:"+warm).Args(warm).ReadOnly()).ToString()
		s.ClearPlan()
		onNew := false
		for _, e := range s.Log()[from:] {
			if e.Kind == "recv" && e.Node == aP2 && len(e.Argv) > 2 && e.Argv[2] == warm {
				onNew = true
			}
		}
		if err != nil || v != "echo:"+warm || !onNew {
			cl.Close()
			return fmt.Errorf("the REDIRECT was not followed: %q %v served-by-new-primary=%v", v, err, onNew)
		}
		w.run.Observe("redirects_followed_before_the_call", 1)
	}
	return nil
}

func (w *world) makeCmds() {
	sc := w.sc
	w.byUID = map[string]*cmd{}
	// cluster: spread the commands over the nodes, except for dedicated clients (one slot)
	nodeOf := func(i int) string { return []string{aP1, aP2, aP3}[i%3] }
	for i := 0; i < sc.ncmds; i++ {
		tag := "t"
		if sc.clusterMode() {
			tag = tags[nodeOf(i)][(i/3)%4]
			if sc.mode == "cluster-dedicated" {
				tag = tags[aP2][0]
			}
		}
		uid := fmt.Sprintf("q%d.%d;", w.id, i)
		c := &cmd{uid: uid, key: "k:{" + tag + "}:" + uid, cls: sc.cmdCls, val: "echo:" + uid}
		if sc.cmdCls == "mixed" {
			c.cls = "ro"
			if i == sc.ncmds-1 {
				c.cls = "write"
			}
		}
		if sc.cacheAPI() {
			c.cls = "ro"
			c.uid = c.key
			c.val = "val:" + uid
		}
		w.cmds = append(w.cmds, c)
		w.byUID[c.uid] = c
	}
}

// preset stores the values the cacheable commands read (all but the nil class).
func (w *world) preset() {
	sc := w.sc
	if sc.cacheAPI() && sc.errCls != "nil" {
		for _, c := range w.cmds {
			n := w.srv.Node(aP1)
			if sc.clusterMode() {
				n = w.srv.Node(w.srv.SlotOwner(fakeredis.Slot(c.key)))
			}
			n.Exec("SET", c.key, c.val)
		}
	}
}

func (w *world) plan() {
	sc := w.sc
	fc := w.cmds[sc.faultPos]
	var reply *resp.V
	mk := func(s string) *resp.V { v := resp.Err(s); return &v }
	switch sc.errCls {
	case "loading":
		reply = mk("LOADING Redis is loading the dataset in memory")
	case "tryagain":
		reply = mk("TRYAGAIN Multiple keys request during rehashing of slot")
	case "clusterdown":
		reply = mk("CLUSTERDOWN The cluster is down")
	case "err":
		reply = mk("ERR injected ordinary error " + fc.uid)
	case "nil":
		if !sc.cacheAPI() {
			v := resp.NullBulk()
			reply = &v
		}
	case "moved":
		// the client's slot map goes stale: the slot of the faulted command now belongs to another node
		slot := fakeredis.Slot(fc.key)
		owner := w.srv.SlotOwner(slot)
		other := aP1
		if owner == aP1 {
			other = aP3
		}
		w.srv.SetSlotOwner(slot, slot, other)
		return
	}
	switch {
	case sc.errCls == "closebefore" || sc.errCls == "closeafter":
		m := fakeredis.MatchArg(fc.uid)
		if sc.cacheAPI() {
			m = fakeredis.MatchCmd("GET", fc.key)
		}
		w.srv.Plan(&fakeredis.Rule{Name: sc.errCls, Match: m, Times: sc.k, Action: fakeredis.Action{Close: true, ExecFirst: sc.errCls == "closeafter"}})
	case reply == nil:
	case sc.cacheAPI():
		// the whole CLIENT CACHING / MULTI / PTTL / GET / EXEC exchange is answered with the error, for k rounds; a round
		// ends with the EXEC that follows the faulted key
		remaining, sawKey := sc.k, false
		w.srv.Plan(&fakeredis.Rule{Name: sc.errCls, Match: func(_ *fakeredis.Conn, a []string) bool {
			if remaining == 0 {
				return false
			}
			switch strings.ToUpper(a[0]) {
			case "MULTI":
				return true
			case "PTTL", "GET":
				if len(a) > 1 && a[1] == fc.key {
					sawKey = true
				}
				return true
			case "EXEC":
				if sawKey {
					remaining--
					sawKey = false
				}
				return true
			}
			return false
		}, Action: fakeredis.Action{Reply: reply}})
	default:
		w.srv.Plan(&fakeredis.Rule{Name: sc.errCls, Match: fakeredis.MatchArg(fc.uid), Times: sc.k, Action: fakeredis.Action{Reply: reply}})
	}
}

func (w *world) build(b rueidis.Builder, c *cmd) rueidis.Completed {
	a := b.Arbitrary("VERIF.ECHO")
	if c.cls != "ro" {
		a = b.Arbitrary("VERIF.WRITE")
	}
	a = a.Keys(c.key).Args(c.uid)
	switch c.cls {
	case "ro":
		return a.ReadOnly()
	case "retryable":
		return a.Build().ToRetryable()
	}
	return a.Build()
}

func (w *world) issue() {
	sc := w.sc
	ctx := w.ctx
	var cc rueidis.CoreClient = w.client
	release := func() {}
	if sc.mode == "dedicated" || sc.mode == "cluster-dedicated" {
		dc, cancel := w.client.Dedicate()
		cc, release = dc, cancel
	}
	defer release()
	var res []rueidis.RedisResult
	switch sc.api {
	case "do":
		res = []rueidis.RedisResult{cc.Do(ctx, w.build(cc.B(), w.cmds[0]))}
	case "domulti":
		var cs []rueidis.Completed
		for _, c := range w.cmds {
			cs = append(cs, w.build(cc.B(), c))
		}
		res = append(res, cc.DoMulti(ctx, cs...)...)
	case "docache":
		res = []rueidis.RedisResult{w.client.DoCache(ctx, w.client.B().Get().Key(w.cmds[0].key).Cache(), time.Minute)}
	case "domulticache":
		var cs []rueidis.CacheableTTL
		for _, c := range w.cmds {
			cs = append(cs, rueidis.CT(w.client.B().Get().Key(c.key).Cache(), time.Minute))
		}
		res = append(res, w.client.DoMultiCache(ctx, cs...)...)
	}
	for i, c := range w.cmds {
		if i >= len(res) {
			c.resErr = errors.New("c28: no result returned for this command")
			continue
		}
		c.res = res[i]
		c.resErr = res[i].Error()
		if c.resErr == nil {
			c.resVal, _ = res[i].ToString()
		}
		c.resNil = rueidis.IsRedisNil(c.resErr)
	}
}

func (w *world) body() {
	defer func() {
		if p := recover(); p != nil {
			w.panicked = p
		}
	}()
	w.ctx, w.cancel = context.WithCancel(context.Background()) // replaced below; RetryDelay may be consulted during setup
	w.makeCmds() // before the server exists: its event hook reads the uid table
	if err := w.setup(); err != nil {
		w.run.Inconclusive("client construction failed: " + err.Error())
		if w.srv != nil {
			w.srv.Close()
		}
		return
	}
	defer func() {
		go w.client.Close()
		time.Sleep(3 * time.Second)
		w.srv.Close()
		time.Sleep(time.Minute)
	}()
	w.preset()
	w.plan()
	w.started = time.Now()
	if w.sc.deadline > 0 {
		w.deadlineAt = w.started.Add(w.sc.deadline)
		w.ctx, w.cancel = context.WithDeadline(context.Background(), w.deadlineAt)
	} else {
		w.ctx, w.cancel = context.WithCancel(context.Background())
	}
	defer w.cancel()
	done := make(chan struct{})
	go func() {
		defer close(done)
		defer func() {
			if p := recover(); p != nil {
				w.panicked = p
			}
		}()
		w.issue()
	}()
	tm := time.NewTimer(time.Hour)
	select {
	case <-done:
		tm.Stop()
	case <-tm.C:
		w.hung = true
		buf := make([]byte, 1<<20)
		buf = buf[:runtime.Stack(buf, true)]
		w.run.Violation("hang", w.key(), w.wit(map[string]any{"rueidis_frames": drv.RueidisFrames(string(buf))}))
		return
	}
	time.Sleep(10 * time.Second) // stragglers (a retry sent after the call returned would show up here)
	w.srv.ClearPlan()
}

func (w *world) key() string {
	s := w.sc
	k := fmt.Sprintf("%s.%s|err=%s|cmd=%s|script=%s", s.mode, s.api, s.errCls, s.cmdCls, s.scriptName)
	if s.noRetry {
		k += "|DisableRetry"
	}
	if s.special != "" {
		k += "|" + s.special
	}
	if s.deadline > 0 {
		k += "|deadline"
	}
	return k
}

func (w *world) wit(extra map[string]any) map[string]any {
	w.mu.Lock()
	defer w.mu.Unlock()
	var cs []string
	for _, c := range w.consults {
		cs = append(cs, fmt.Sprintf("#%d t=+%v attempts=%d cmd=%v err=%q(%s) remaining=%v ctxDone=%v -> %v", c.stamp, c.at.Sub(w.started), c.attempts, c.argv, c.errStr, c.errCls, c.remain, c.ctxDone, c.answer))
	}
	var rs []string
	for _, r := range w.recvs {
		rs = append(rs, fmt.Sprintf("#%d t=+%v %s on %s conn %d", r.seq, r.at.Sub(w.started), r.uid, r.node, r.conn))
	}
	var res []string
	for _, c := range w.cmds {
		res = append(res, fmt.Sprintf("%s(%s): val=%q err=%v server-replies=%v", c.uid, c.cls, c.resVal, c.resErr, w.replies[c.uid]))
	}
	m := map[string]any{"case": w.id, "scenario": w.sc.String(), "consultations": cs, "server_received": rs, "results": res, "cancel_stamp": w.cancelStamp, "close_stamp": w.closeStamp}
	for k, v := range extra {
		m[k] = v
	}
	return m
}

func (w *world) check() {
	run, sc := w.run, w.sc
	key := w.key()
	if w.panicked != nil {
		run.Violation("panic", key, w.wit(map[string]any{"panic": fmt.Sprint(w.panicked)}))
		return
	}
	if w.hung || w.client == nil {
		return
	}
	w.mu.Lock()
	consults := append([]consult{}, w.consults...)
	recvs := append([]recvEv{}, w.recvs...)
	w.mu.Unlock()
	sort.Slice(recvs, func(i, j int) bool { return recvs[i].seq < recvs[j].seq })
	clusterClient := sc.clusterMode()

	// ---- A. who was asked, about what
	grants := []consult{}
	for _, c := range consults {
		run.Observe("consultations", 1)
		cm := w.byUID[c.uid]
		if sc.noRetry {
			run.Violation("consulted-with-retry-disabled", key, w.wit(nil))
		}
		if cm == nil {
			run.Violation("consulted-for-foreign-command", key, w.wit(map[string]any{"argv": c.argv}))
			continue
		}
		if cm.cls == "write" {
			run.Violation("consulted-for-non-retryable-command", key, w.wit(map[string]any{"command": c.argv}))
		}
		switch c.errCls {
		case "transport", "loading":
		case "tryagain", "clusterdown":
			if !clusterClient {
				run.Violation("consulted-for-non-retryable-error", key+"|"+c.errCls, w.wit(map[string]any{"error": c.errStr}))
			}
		default:
			run.Violation("consulted-for-non-retryable-error", key+"|"+c.errCls, w.wit(map[string]any{"error": c.errStr}))
		}
		if c.ctxDone || c.afterCancel {
			run.Observe("consultations_with_context_done", 1)
		}
		if c.afterClose {
			run.Observe("consultations_after_close", 1)
		}
		if c.answer >= 0 {
			grants = append(grants, c)
			run.Observe("grants", 1)
		} else {
			run.Observe("negative_answers", 1)
		}
	}

	// ---- B. every send beyond the first, per command
	byUID := map[string][]recvEv{}
	for _, r := range recvs {
		byUID[r.uid] = append(byUID[r.uid], r)
	}
	retrySends := 0
	for _, cm := range w.cmds {
		sends := byUID[cm.uid]
		reps := w.replies[cm.uid]
		nretry := 0
		for j := 1; j < len(sends); j++ {
			s := sends[j]
			if j-1 < len(reps) && (reps[j-1] == "MOVED" || reps[j-1] == "ASK") {
				run.Observe("redirect_resends", 1)
				continue
			}
			nretry++
			retrySends++
			run.Observe("retry_sends", 1)
			if cm.cls == "write" {
				run.Violation("non-retryable-command-resent", key, w.wit(map[string]any{"command": cm.uid}))
			}
			if sc.noRetry {
				run.Violation("resent-with-retry-disabled", key, w.wit(map[string]any{"command": cm.uid}))
			}
			g := 0
			for _, c := range grants {
				if c.stamp < s.seq {
					g++
				}
			}
			if nretry > g {
				run.Violation("resent-without-grant", key, w.wit(map[string]any{"command": cm.uid, "resend_number": nretry, "grants_before_it": g}))
			}
			for _, c := range consults {
				if c.uid == cm.uid && c.answer < 0 && c.stamp < s.seq {
					run.Violation("resent-after-negative-answer", key, w.wit(map[string]any{"command": cm.uid, "negative_answer_at": c.stamp, "resent_at": s.seq}))
					break
				}
			}
			if !w.deadlineAt.IsZero() && !s.at.Before(w.deadlineAt) {
				run.Violation("sent-after-context-done", key, w.wit(map[string]any{"command": cm.uid, "sent_at": s.at.Sub(w.started).String(), "deadline": sc.deadline.String()}))
			}
			if w.cancelStamp != 0 && s.seq > w.cancelStamp {
				run.Violation("sent-after-context-done", key, w.wit(map[string]any{"command": cm.uid, "sent_at_stamp": s.seq}))
			}
			if w.closeStamp != 0 && s.seq > w.closeStamp {
				run.Violation("sent-after-close", key, w.wit(map[string]any{"command": cm.uid, "sent_at_stamp": s.seq}))
			}
		}
		// any send at all once the context is done / the client closed
		for _, s := range sends {
			if (w.cancelStamp != 0 && s.seq > w.cancelStamp) || (w.closeStamp != 0 && s.seq > w.closeStamp) {
				run.Observe("sends_after_cancel_or_close", 1)
			}
		}
	}

	// ---- C. a granted retry that fits before the deadline is carried out (premise: every grant of the call fits,
	// the context was not cancelled and the client not closed by the driver)
	allFit := w.cancelStamp == 0 && w.closeStamp == 0
	for _, g := range grants {
		if g.ctxDone || (g.remain != 0 && g.remain <= g.answer) || (!w.deadlineAt.IsZero() && g.remain == 0) {
			allFit = false
			run.Observe("grants_not_fitting_before_deadline", 1)
		}
	}
	if allFit {
		for _, g := range grants {
			later := false
			for _, r := range recvs {
				if r.seq > g.stamp {
					later = true
					break
				}
			}
			if !later {
				run.Violation("granted-retry-not-sent", key, w.wit(map[string]any{"grant_at": g.stamp}))
			} else {
				run.Observe("granted_retries_carried_out", 1)
			}
		}
	} else {
		run.Observe("calls_excluded_from_lower_bound", 1)
	}

	// ---- D. results
	for _, cm := range w.cmds {
		sends := byUID[cm.uid]
		reps := w.replies[cm.uid]
		if cm.resErr == nil {
			if cm.resVal != cm.val {
				run.Violation("wrong-reply", key, w.wit(map[string]any{"command": cm.uid, "got": cm.resVal, "want": cm.val}))
			}
			run.Observe("results_ok", 1)
		}
		// ordinary error / nil replies come back as they are, after one send and without consultation
		if len(reps) > 0 {
			last := reps[len(reps)-1]
			if last == "ERR" || last == "nil" {
				nc := 0
				for _, c := range consults {
					if c.uid == cm.uid {
						nc++
					}
				}
				okRes := (last == "nil" && cm.resNil) || (last == "ERR" && cm.resErr != nil && strings.Contains(cm.resErr.Error(), "injected ordinary error"))
				if sc.cacheAPI() && last == "nil" {
					okRes = cm.resNil
				}
				if !okRes {
					run.Violation("reply-not-returned-as-is", key, w.wit(map[string]any{"command": cm.uid, "server_reply": last}))
				}
				if len(sends) == 1 && nc == 0 {
					run.Observe("ordinary_replies_returned_unchanged", 1)
				}
			}
		}
		// a negative answer ends the matter for that command with the error it was asked about
		var lastC *consult
		for i := range consults {
			if consults[i].uid == cm.uid {
				lastC = &consults[i]
			}
		}
		if lastC != nil && lastC.answer < 0 {
			later := false
			for _, s := range sends {
				if s.seq > lastC.stamp {
					later = true
				}
			}
			if !later {
				if cm.resErr == nil || fmt.Sprint(cm.resErr) != lastC.errStr {
					run.Violation("negative-answer-result-differs", key, w.wit(map[string]any{"command": cm.uid, "asked_about": lastC.errStr, "returned": fmt.Sprint(cm.resErr)}))
				}
				run.Observe("calls_ended_by_negative_answer", 1)
			}
		}
	}
	if sc.noRetry {
		run.Observe("disable_retry_cases", 1)
	}
	if w.cancelStamp != 0 {
		run.Observe("cancelled_in_callback", 1)
	}
	if w.closeStamp != 0 {
		run.Observe("closed_in_callback", 1)
	}
	faultMet := len(consults) > 0 || retrySends > 0
	for _, cm := range w.cmds {
		if cm.resErr != nil {
			faultMet = true
		}
		for _, r := range w.replies[cm.uid] {
			if r != "ok" {
				faultMet = true
			}
		}
	}
	run.Case(fmt.Sprintf("%s|k=%d|n=%d|pos=%d|consults=%d|retries=%d", key, sc.k, sc.ncmds, sc.faultPos, len(consults), retrySends), faultMet)
}

type script struct {
	name string
	d    []time.Duration
}

const ms = time.Millisecond

var scripts = []script{
	{"always-0", []time.Duration{0, 0, 0, 0, 0, 0}},
	{"never", []time.Duration{-1}},
	{"300ms", []time.Duration{300 * ms, 300 * ms, 300 * ms, 300 * ms, 300 * ms, 300 * ms}},
	{"0-then-stop", []time.Duration{0, -1}},
	{"stop-then-0", []time.Duration{-1, 0, 0, 0}},
	{"5s", []time.Duration{5 * time.Second, 5 * time.Second}},
	{"1ms-300ms-2s", []time.Duration{1 * ms, 300 * ms, 2 * time.Second, 2 * time.Second}},
	{"0-stop-0", []time.Duration{0, -1, 0, 0}},
}

type combo struct{ mode, api, errCls, cmdCls string }

func combos() []combo {
	var out []combo
	apis := map[string][]string{
		"single":            {"do", "domulti", "docache", "domulticache"},
		"dedicated":         {"do", "domulti"},
		"standalone":        {"do", "domulti", "docache"},
		"redirect":          {"do", "domulti", "docache", "domulticache"},
		"sentinel":          {"do", "domulti", "docache", "domulticache"},
		"cluster":           {"do", "domulti", "docache", "domulticache"},
		"cluster-dedicated": {"do", "domulti"},
	}
	for _, mode := range []string{"single", "dedicated", "standalone", "redirect", "sentinel", "cluster", "cluster-dedicated"} {
		for _, api := range apis[mode] {
			errs := []string{"closebefore", "closeafter", "loading", "tryagain", "clusterdown", "err", "nil"}
			if mode == "cluster" && (api == "do" || api == "domulti") {
				errs = append(errs, "moved")
			}
			for _, e := range errs {
				cls := []string{"ro", "write", "retryable"}
				if api == "domulti" {
					cls = append(cls, "mixed")
				}
				if api == "docache" || api == "domulticache" {
					cls = []string{"ro"}
				}
				for _, c := range cls {
					out = append(out, combo{mode, api, e, c})
				}
			}
		}
	}
	return out
}

func genScen(r *rand.Rand, cb combo) scen {
	sc := scen{mode: cb.mode, api: cb.api, errCls: cb.errCls, cmdCls: cb.cmdCls, ncmds: 1}
	s := scripts[r.Intn(len(scripts))]
	sc.script, sc.scriptName = s.d, s.name
	sc.k = []int{1, 1, 2, 3, 9}[r.Intn(5)]
	if r.Intn(3) == 0 {
		sc.deadline = time.Second
	}
	if r.Intn(8) == 0 || (cb.mode == "redirect" && r.Intn(2) == 0) {
		sc.noRetry = true
	}
	switch r.Intn(12) {
	case 0:
		sc.special = "cancel-in-callback"
	case 1:
		sc.special = "close-in-callback"
	}
	if sc.api == "domulti" || sc.api == "domulticache" {
		sc.ncmds = 2 + r.Intn(5)
		sc.faultPos = r.Intn(sc.ncmds)
		if sc.cmdCls == "mixed" && r.Intn(2) == 0 {
			sc.faultPos = sc.ncmds - 1 // the plain write itself meets the fault
		}
	}
	return sc
}

func TestC28(t *testing.T) {
	run := mon.Start(t, "C28", "fault_enumeration",
		"every (client mode x call kind x error class x command class) combination - modes single / dedicated / standalone with replica / standalone with EnableRedirect after a followed REDIRECT / sentinel / cluster / cluster dedicated, calls Do / DoMulti(2-6) / DoCache / DoMultiCache, "+
			"errors connection closed before or after execution / LOADING / TRYAGAIN / CLUSTERDOWN / ordinary ERR / nil / MOVED, commands read-only / plain write / ToRetryable write / read-only batch with one plain write - several times with a random "+
			"RetryDelay script (8 scripts of non-negative and negative answers), fault persistence 1-9 attempts, optional 1 s deadline, DisableRetry, context cancelled or client closed inside RetryDelay; one call per virtual-time bubble; "+
			"a case = the scenario plus the number of consultations and re-sends it produced, non-trivial when the fault was met")
	defer run.Finish()
	run.Assume("fakeredis logs every received command with the logical clock shared with the driver's RetryDelay function", "a re-send that follows a MOVED/ASK reply to the same command is a redirection, not a retry")
	rueidis.VerifSetQueueType("flowbuffer")
	defer rueidis.VerifSetQueueType("")
	cbs := combos()
	reps := run.N(10, 150)
	base := run.Rand("cases").Int63()
	id := 0
	for rep := 0; rep < reps; rep++ {
		for ci, cb := range cbs {
			if f := os.Getenv("VERIF_C28_ONLY"); f != "" && !strings.HasPrefix(cb.mode+"."+cb.api, f) { // debugging aid: restrict to one mode.api
				id++
				continue
			}
			r := rand.New(rand.NewSource(base + int64(rep)*1000003 + int64(ci)*7919))
			w := &world{run: run, t: t, id: id, sc: genScen(r, cb), rng: r}
			id++
			dl, stacks := drv.Bubble(t, w.body)
			if dl != "" {
				run.Violation("hang-or-leak", w.key(), w.wit(map[string]any{"synctest": dl, "rueidis_frames": drv.RueidisFrames(stacks), "stacks": drv.Tail(stacks, 6000)}))
				continue
			}
			w.check()
			if id%97 == 1 && rep == 0 {
				run.Sample(w.wit(nil))
			}
		}
	}
	run.Extra("combinations", len(cbs))
	run.Require("consultations", "grants", "negative_answers", "retry_sends", "redirect_resends", "redirects_followed_before_the_call", "granted_retries_carried_out", "grants_not_fitting_before_deadline", "ordinary_replies_returned_unchanged",
		"calls_ended_by_negative_answer", "disable_retry_cases", "cancelled_in_callback", "closed_in_callback", "results_ok")
}
