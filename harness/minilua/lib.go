package minilua

import (
	"crypto/sha1"
	"encoding/hex"
	"fmt"
	"math"
	"sort"
	"strconv"
	"strings"
)

// args wraps builtin arguments with luaL_check*-style accessors (1-based).
type args struct {
	in    *interp
	fname string
	a     []Value
}

func (a args) n() int { return len(a.a) }
func (a args) get(i int) Value {
	if i >= 1 && i <= len(a.a) {
		return a.a[i-1]
	}
	return nil
}
func (a args) argError(i int, msg string) {
	a.in.rtError("bad argument #%d to '%s' (%s)", i, a.fname, msg)
}
func (a args) typeError(i int, want string) {
	got := "no value"
	if i <= len(a.a) {
		got = typeName(a.a[i-1])
	}
	a.argError(i, want+" expected, got "+got)
}
func (a args) any(i int) Value {
	if i > len(a.a) {
		a.argError(i, "value expected")
	}
	return a.a[i-1]
}
func (a args) table(i int) *Table {
	t, ok := a.get(i).(*Table)
	if !ok {
		a.typeError(i, "table")
	}
	return t
}
func (a args) num(i int) float64 {
	f, ok := toNumber(a.get(i))
	if !ok {
		a.typeError(i, "number")
	}
	return f
}
func (a args) optNum(i int, def float64) float64 {
	if a.get(i) == nil {
		return def
	}
	return a.num(i)
}
func (a args) int(i int) int { return int(toInt64(a.num(i))) }
func (a args) optInt(i int, def int) int {
	if a.get(i) == nil {
		return def
	}
	return a.int(i)
}
func (a args) str(i int) string {
	s, ok := toStringCoerce(a.get(i))
	if !ok {
		a.typeError(i, "string")
	}
	return s
}
func (a args) optStr(i int, def string) string {
	if a.get(i) == nil {
		return def
	}
	return a.str(i)
}

func reg(in *interp, t *Table, prefix, name string, f func(a args) []Value) {
	full := prefix + name
	t.Set(name, &goFunc{name: full, fn: func(in *interp, av []Value) []Value {
		return f(args{in: in, fname: name, a: av})
	}})
}

func one(v Value) []Value { return []Value{v} }

func redisErrTable(msg string) *Table {
	t := NewTable()
	t.Set("err", msg)
	return t
}

func newGlobals(in *interp) *Table {
	g := NewTable()
	base := func(name string, f func(a args) []Value) { reg(in, g, "", name, f) }

	base("type", func(a args) []Value { return one(typeName(a.any(1))) })
	base("tostring", func(a args) []Value { return one(tostring(a.any(1))) })
	base("tonumber", func(a args) []Value {
		v := a.any(1)
		b := a.optInt(2, 10)
		if b == 10 {
			if f, ok := toNumber(v); ok {
				return one(f)
			}
			return one(nil)
		}
		if b < 2 || b > 36 {
			a.argError(2, "base out of range")
		}
		s := strings.ToLower(strings.Trim(a.str(1), " \t\n\v\f\r"))
		neg := strings.HasPrefix(s, "-")
		s = strings.TrimPrefix(strings.TrimPrefix(s, "-"), "+")
		if b == 16 {
			s = strings.TrimPrefix(s, "0x")
		}
		u, err := strconv.ParseUint(s, b, 64)
		if err != nil {
			return one(nil)
		}
		if neg {
			return one(-float64(u))
		}
		return one(float64(u))
	})
	base("error", func(a args) []Value {
		v := a.get(1)
		if s, ok := v.(string); ok && a.optInt(2, 1) > 0 {
			v = fmt.Sprintf("user_script:%d: %s", a.in.line, s)
		}
		panic(&luaError{v})
	})
	base("assert", func(a args) []Value {
		if !truthy(a.any(1)) {
			if a.n() >= 2 {
				if s, ok := toStringCoerce(a.a[1]); ok {
					panic(&luaError{s})
				}
				panic(&luaError{a.a[1]})
			}
			panic(&luaError{"assertion failed!"})
		}
		return a.a
	})
	base("pcall", func(a args) (out []Value) {
		f := a.any(1)
		in := a.in
		depth, line := in.depth, in.line
		defer func() {
			if r := recover(); r != nil {
				le, ok := r.(*luaError)
				if !ok {
					panic(r) // budget exhaustion and internal errors are not catchable
				}
				in.depth, in.line = depth, line
				out = []Value{false, le.val}
			}
		}()
		return append([]Value{true}, in.callValue(f, a.a[1:], nil)...)
	})
	base("select", func(a args) []Value {
		if s, ok := a.get(1).(string); ok && s == "#" {
			return one(float64(a.n() - 1))
		}
		i, n := a.int(1), a.n()
		if i < 0 {
			i = n + i
		} else if i > n {
			i = n
		}
		if i < 1 {
			a.argError(1, "index out of range")
		}
		return a.a[i:]
	})
	base("unpack", func(a args) []Value {
		t := a.table(1)
		i := a.optInt(2, 1)
		j := a.optInt(3, t.Len())
		if i > j {
			return nil
		}
		if j-i+1 >= maxUnpack || j-i+1 <= 0 {
			a.in.rtError("too many results to unpack")
		}
		out := make([]Value, 0, j-i+1)
		for ; i <= j; i++ {
			out = append(out, t.Get(float64(i)))
		}
		return out
	})
	nextFn := func(a args) []Value {
		k, v, ok := a.table(1).next(a.get(2))
		if !ok {
			a.in.rtError("invalid key to 'next'")
		}
		if k == nil {
			return one(nil)
		}
		return []Value{k, v}
	}
	base("next", nextFn)
	nextVal := g.Get("next")
	base("pairs", func(a args) []Value { return []Value{nextVal, a.table(1), nil} })
	ipairsIter := &goFunc{name: "ipairs_iter", fn: func(in *interp, av []Value) []Value {
		a := args{in: in, fname: "ipairs", a: av}
		i := a.int(2) + 1
		v := a.table(1).Get(float64(i))
		if v == nil {
			return one(nil)
		}
		return []Value{float64(i), v}
	}}
	base("ipairs", func(a args) []Value { return []Value{ipairsIter, a.table(1), 0.0} })
	base("rawget", func(a args) []Value { return one(a.table(1).Get(a.any(2))) })
	base("rawequal", func(a args) []Value { return one(a.any(1) == a.any(2)) })
	base("rawset", func(a args) []Value {
		a.in.setIndex(a.table(1), a.any(2), a.any(3), nil)
		return one(a.a[0])
	})

	// table
	tbl := NewTable()
	g.Set("table", tbl)
	tf := func(name string, f func(a args) []Value) { reg(in, tbl, "table.", name, f) }
	tf("insert", func(a args) []Value {
		t := a.table(1)
		e := t.Len() + 1
		switch a.n() {
		case 2:
			t.Set(float64(e), a.a[1])
		case 3:
			pos := a.int(2)
			if pos > e {
				e = pos
			}
			for i := e; i > pos; i-- {
				a.in.step()
				t.Set(float64(i), t.Get(float64(i-1)))
			}
			a.in.setIndex(t, float64(pos), a.a[2], nil)
		default:
			a.in.rtError("wrong number of arguments to 'insert'")
		}
		return nil
	})
	tf("remove", func(a args) []Value {
		t := a.table(1)
		e := t.Len()
		pos := a.optInt(2, e)
		if pos < 1 || pos > e {
			return nil
		}
		v := t.Get(float64(pos))
		for ; pos < e; pos++ {
			t.Set(float64(pos), t.Get(float64(pos+1)))
		}
		t.Set(float64(e), nil)
		return one(v)
	})
	tf("concat", func(a args) []Value {
		t := a.table(1)
		sep := a.optStr(2, "")
		i, j := a.optInt(3, 1), a.optInt(4, t.Len())
		var sb strings.Builder
		for k := i; k <= j; k++ {
			a.in.step()
			s, ok := toStringCoerce(t.Get(float64(k)))
			if !ok {
				a.in.rtError("invalid value (at index %d) in table for 'concat'", k)
			}
			sb.WriteString(s)
			if k != j {
				sb.WriteString(sep)
			}
			if sb.Len() > maxStringLen {
				a.in.rtError("not enough memory")
			}
		}
		return one(sb.String())
	})
	getn := func(a args) []Value { return one(float64(a.table(1).Len())) }
	tf("getn", getn)
	tf("maxn", func(a args) []Value {
		t, max := a.table(1), 0.0
		for k, _, _ := t.next(nil); k != nil; k, _, _ = t.next(k) {
			if f, ok := k.(float64); ok && f > max {
				max = f
			}
		}
		return one(max)
	})
	tf("sort", func(a args) []Value {
		t := a.table(1)
		cmp := a.get(2)
		n := t.Len()
		vals := make([]Value, n)
		for i := range vals {
			vals[i] = t.Get(float64(i + 1))
		}
		sort.SliceStable(vals, func(i, j int) bool {
			a.in.step()
			if cmp != nil {
				rs := a.in.callValue(cmp, []Value{vals[i], vals[j]}, nil)
				return len(rs) > 0 && truthy(rs[0])
			}
			return a.in.less(vals[i], vals[j], false)
		})
		for i, v := range vals {
			t.Set(float64(i+1), v)
		}
		return nil
	})

	// math
	m := NewTable()
	g.Set("math", m)
	m.Set("huge", math.Inf(1))
	m.Set("pi", math.Pi)
	m1 := func(name string, f func(float64) float64) {
		reg(in, m, "math.", name, func(a args) []Value { return one(f(a.num(1))) })
	}
	m1("floor", math.Floor)
	m1("ceil", math.Ceil)
	m1("abs", math.Abs)
	m1("sqrt", math.Sqrt)
	m1("log", math.Log)
	m1("log10", math.Log10)
	m1("exp", math.Exp)
	reg(in, m, "math.", "fmod", func(a args) []Value { return one(math.Mod(a.num(1), a.num(2))) })
	reg(in, m, "math.", "pow", func(a args) []Value { return one(math.Pow(a.num(1), a.num(2))) })
	reg(in, m, "math.", "max", func(a args) []Value {
		r := a.num(1)
		for i := 2; i <= a.n(); i++ {
			if v := a.num(i); v > r {
				r = v
			}
		}
		return one(r)
	})
	reg(in, m, "math.", "min", func(a args) []Value {
		r := a.num(1)
		for i := 2; i <= a.n(); i++ {
			if v := a.num(i); v < r {
				r = v
			}
		}
		return one(r)
	})

	in.strlib = newStringLib(in)
	g.Set("string", in.strlib)

	// redis
	r := NewTable()
	g.Set("redis", r)
	rf := func(name string, f func(a args) []Value) { reg(in, r, "redis.", name, f) }
	doCall := func(a args, raise bool) []Value {
		if a.n() == 0 {
			panic(&luaError{redisErrTable("ERR Please specify at least one argument for this redis lib call")})
		}
		argv := make([]string, a.n())
		for i, v := range a.a {
			s, ok := redisArg(v)
			if !ok {
				panic(&luaError{redisErrTable("ERR Lua redis() command arguments must be strings or integers")})
			}
			argv[i] = s
		}
		if a.in.call == nil {
			panic(&luaError{redisErrTable("ERR minilua: no redis.call host callback")})
		}
		rep := a.in.call(argv)
		v := replyToLua(rep)
		if rep.Kind == '-' && raise {
			panic(&luaError{v})
		}
		return one(v)
	}
	rf("call", func(a args) []Value { return doCall(a, true) })
	rf("pcall", func(a args) []Value { return doCall(a, false) })
	rf("status_reply", func(a args) []Value {
		s, ok := a.get(1).(string)
		if a.n() != 1 || !ok {
			return one(redisErrTable("ERR wrong number or type of arguments"))
		}
		t := NewTable()
		t.Set("ok", s)
		return one(t)
	})
	rf("error_reply", func(a args) []Value {
		s, ok := a.get(1).(string)
		if a.n() != 1 || !ok {
			return one(redisErrTable("ERR wrong number or type of arguments"))
		}
		return one(redisErrTable(s))
	})
	rf("sha1hex", func(a args) []Value {
		if a.n() != 1 {
			a.in.rtError("wrong number of arguments")
		}
		sum := sha1.Sum([]byte(a.str(1)))
		return one(hex.EncodeToString(sum[:]))
	})
	rf("log", func(a args) []Value { return nil })
	rf("replicate_commands", func(a args) []Value { return one(true) })
	rf("setresp", func(a args) []Value { return nil })
	r.Set("LOG_DEBUG", 0.0)
	r.Set("LOG_VERBOSE", 1.0)
	r.Set("LOG_NOTICE", 2.0)
	r.Set("LOG_WARNING", 3.0)
	return g
}

// ---- string library ----

// posrelat converts a possibly negative string position to an absolute one.
func posrelat(pos, l int) int {
	if pos < 0 {
		pos += l + 1
	}
	if pos < 0 {
		return 0
	}
	return pos
}

func pad(s string, width int, left bool) string {
	if len(s) >= width {
		return s
	}
	if left {
		return s + strings.Repeat(" ", width-len(s))
	}
	return strings.Repeat(" ", width-len(s)) + s
}

func newStringLib(in *interp) *Table {
	st := NewTable()
	sf := func(name string, f func(a args) []Value) { reg(in, st, "string.", name, f) }

	sf("len", func(a args) []Value { return one(float64(len(a.str(1)))) })
	sf("sub", func(a args) []Value {
		s := a.str(1)
		i := posrelat(a.int(2), len(s))
		j := posrelat(a.optInt(3, -1), len(s))
		if i < 1 {
			i = 1
		}
		if j > len(s) {
			j = len(s)
		}
		if i > j {
			return one("")
		}
		return one(s[i-1 : j])
	})
	sf("upper", func(a args) []Value {
		b := []byte(a.str(1))
		for i, c := range b {
			if c >= 'a' && c <= 'z' {
				b[i] = c - 32
			}
		}
		return one(string(b))
	})
	sf("lower", func(a args) []Value {
		b := []byte(a.str(1))
		for i, c := range b {
			if c >= 'A' && c <= 'Z' {
				b[i] = c + 32
			}
		}
		return one(string(b))
	})
	sf("reverse", func(a args) []Value {
		b := []byte(a.str(1))
		for i, j := 0, len(b)-1; i < j; i, j = i+1, j-1 {
			b[i], b[j] = b[j], b[i]
		}
		return one(string(b))
	})
	sf("rep", func(a args) []Value {
		s, n := a.str(1), a.int(2)
		if n <= 0 || s == "" {
			return one("")
		}
		if n > maxStringLen/len(s) {
			a.in.rtError("not enough memory")
		}
		return one(strings.Repeat(s, n))
	})
	sf("byte", func(a args) []Value {
		s := a.str(1)
		i := posrelat(a.optInt(2, 1), len(s))
		j := posrelat(a.optInt(3, i), len(s))
		if i < 1 {
			i = 1
		}
		if j > len(s) {
			j = len(s)
		}
		var out []Value
		for ; i <= j; i++ {
			out = append(out, float64(s[i-1]))
		}
		return out
	})
	sf("char", func(a args) []Value {
		b := make([]byte, a.n())
		for i := range b {
			c := a.int(i + 1)
			if c < 0 || c > 255 {
				a.argError(i+1, "invalid value")
			}
			b[i] = byte(c)
		}
		return one(string(b))
	})
	sf("find", func(a args) []Value {
		s, pat := a.str(1), a.str(2)
		init := posrelat(a.optInt(3, 1), len(s)) - 1
		if init < 0 {
			init = 0
		} else if init > len(s) {
			init = len(s)
		}
		if !truthy(a.get(4)) && strings.ContainsAny(pat, "^$*+?.([%-") {
			a.in.rtError("minilua: string.find with pattern magic characters is unsupported (use plain=true)")
		}
		idx := strings.Index(s[init:], pat)
		if idx < 0 {
			return one(nil)
		}
		return []Value{float64(init + idx + 1), float64(init + idx + len(pat))}
	})
	sf("format", func(a args) []Value { return one(luaFormat(a)) })
	return st
}

func luaFormat(a args) string {
	f := a.str(1)
	var sb strings.Builder
	argi := 1
	for i := 0; i < len(f); i++ {
		if f[i] != '%' {
			sb.WriteByte(f[i])
			continue
		}
		i++
		if i >= len(f) {
			a.in.rtError("invalid option '%%' to 'format'")
		}
		if f[i] == '%' {
			sb.WriteByte('%')
			continue
		}
		start := i
		for i < len(f) && strings.IndexByte("-+ #0", f[i]) >= 0 {
			i++
		}
		flags := f[start:i]
		if len(flags) > 5 {
			a.in.rtError("invalid format (repeated flags)")
		}
		ws := i
		for i < len(f) && isDigit(f[i]) {
			i++
		}
		width := f[ws:i]
		prec, hasPrec := "", false
		if i < len(f) && f[i] == '.' {
			hasPrec = true
			i++
			ps := i
			for i < len(f) && isDigit(f[i]) {
				i++
			}
			prec = f[ps:i]
		}
		if len(width) > 2 || len(prec) > 2 {
			a.in.rtError("invalid format (width or precision too long)")
		}
		if i >= len(f) {
			a.in.rtError("invalid option '%%' to 'format'")
		}
		conv := f[i]
		argi++
		spec := "%" + flags + width
		if hasPrec {
			spec += "." + prec
		}
		w, p := 0, 0
		fmt.Sscanf(width, "%d", &w)
		fmt.Sscanf(prec, "%d", &p)
		left := strings.Contains(flags, "-")
		switch conv {
		case 'd', 'i':
			sb.WriteString(fmt.Sprintf(spec+"d", toInt64(a.num(argi))))
		case 'u':
			sb.WriteString(fmt.Sprintf(spec+"d", uint64(toInt64(a.num(argi)))))
		case 'x', 'X', 'o':
			sb.WriteString(fmt.Sprintf(spec+string(conv), uint64(toInt64(a.num(argi)))))
		case 'c':
			sb.WriteString(pad(string([]byte{byte(a.int(argi))}), w, left))
		case 'e', 'E', 'f', 'g', 'G':
			v := a.num(argi)
			if math.IsInf(v, 0) || v != v {
				s := fmtNumber(v)
				if v > 0 && strings.Contains(flags, "+") {
					s = "+" + s
				}
				if conv == 'E' || conv == 'G' {
					s = strings.ToUpper(s)
				}
				sb.WriteString(pad(s, w, left))
				break
			}
			if !hasPrec {
				spec += ".6"
			}
			sb.WriteString(fmt.Sprintf(spec+string(conv), v))
		case 's':
			s := a.str(argi)
			if hasPrec && p < len(s) {
				s = s[:p]
			}
			sb.WriteString(pad(s, w, left))
		case 'q':
			s := a.str(argi)
			sb.WriteByte('"')
			for k := 0; k < len(s); k++ {
				switch s[k] {
				case '"', '\\', '\n':
					sb.WriteByte('\\')
					sb.WriteByte(s[k])
				case '\r':
					sb.WriteString("\\r")
				case 0:
					sb.WriteString("\\000")
				default:
					sb.WriteByte(s[k])
				}
			}
			sb.WriteByte('"')
		default:
			a.in.rtError("invalid option '%%%c' to 'format'", conv)
		}
		if sb.Len() > maxStringLen {
			a.in.rtError("not enough memory")
		}
	}
	return sb.String()
}
