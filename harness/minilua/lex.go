// Package minilua is a small Lua 5.1 subset interpreter that emulates the
// scripting environment Redis exposes to EVAL. It is a plain tree-walking
// interpreter: correctness and determinism matter, speed does not.
//
// Conversion rules (identical to Redis):
//
//	RESP -> Lua: integer -> number, bulk -> string, status -> {ok=s},
//	  error -> raised (redis.call) or {err=s} (redis.pcall), null -> false,
//	  array -> 1-based table (nested, null elements -> false).
//	Lua -> RESP: number -> integer (truncated toward zero), string -> bulk,
//	  true -> 1, false/nil/no value -> null, table with string field err ->
//	  error, with string field ok -> status, any other table -> array of
//	  t[1..n] up to the first nil; functions -> null.
//
// Script errors: a raised string s yields the error reply "ERR " + s (runtime
// errors and error("msg") carry a "user_script:LINE: " prefix like Lua's), a
// raised table with a string err field yields that text unchanged (this is how
// a failing redis.call aborts the script with the command's own error).
//
// Not supported: metatables, coroutines, string patterns (string.find accepts
// only plain text), string.match/gmatch/gsub, cjson/cmsgpack/struct/bit, os/io,
// math.random, loadstring. Like Redis, reading an undefined global or creating
// a new global (including `function name() end` at global level) raises.
package minilua

import (
	"errors"
	"fmt"
	"math"
	"strconv"
	"strings"
)

type tokKind uint8

const (
	tkEOF tokKind = iota
	tkName
	tkKw
	tkNum
	tkStr
	tkOp
)

type token struct {
	k    tokKind
	s    string // name, keyword, operator text, or string contents
	n    float64
	line int
}

func (t token) near() string {
	switch t.k {
	case tkEOF:
		return "<eof>"
	case tkNum:
		return fmtNumber(t.n)
	}
	return t.s
}

// syntaxError is panicked by the lexer/parser and recovered by Compile.
type syntaxError struct{ msg string }

func synErr(line int, near string, format string, a ...any) {
	msg := fmt.Sprintf(format, a...)
	if near != "" {
		msg += " near '" + near + "'"
	}
	panic(syntaxError{fmt.Sprintf("user_script:%d: %s", line, msg)})
}

var keywords = map[string]bool{
	"and": true, "break": true, "do": true, "else": true, "elseif": true, "end": true,
	"false": true, "for": true, "function": true, "if": true, "in": true, "local": true,
	"nil": true, "not": true, "or": true, "repeat": true, "return": true, "then": true,
	"true": true, "until": true, "while": true,
}

type lexer struct {
	src  string
	pos  int
	line int
}

func isDigit(c byte) bool { return c >= '0' && c <= '9' }
func isAlpha(c byte) bool { return c == '_' || (c >= 'a' && c <= 'z') || (c >= 'A' && c <= 'Z') }
func isAlnum(c byte) bool { return isAlpha(c) || isDigit(c) }

func (lx *lexer) peekAt(off int) byte {
	if lx.pos+off < len(lx.src) {
		return lx.src[lx.pos+off]
	}
	return 0
}

// newline consumes one line break (\n, \r, \r\n or \n\r).
func (lx *lexer) newline() {
	c := lx.src[lx.pos]
	lx.pos++
	if lx.pos < len(lx.src) {
		d := lx.src[lx.pos]
		if (d == '\n' || d == '\r') && d != c {
			lx.pos++
		}
	}
	lx.line++
}

// longLevel returns the level of a long bracket opening at pos ('[' '='* '['), or -1.
func (lx *lexer) longLevel() int {
	i := lx.pos + 1
	lvl := 0
	for i < len(lx.src) && lx.src[i] == '=' {
		lvl++
		i++
	}
	if i < len(lx.src) && lx.src[i] == '[' {
		return lvl
	}
	return -1
}

func (lx *lexer) readLong(lvl int, what string) string {
	startLine := lx.line
	lx.pos += lvl + 2
	if lx.pos < len(lx.src) && (lx.src[lx.pos] == '\n' || lx.src[lx.pos] == '\r') {
		lx.newline()
	}
	var sb strings.Builder
	closer := "]" + strings.Repeat("=", lvl) + "]"
	for {
		if lx.pos >= len(lx.src) {
			synErr(startLine, "<eof>", "unfinished long %s", what)
		}
		if strings.HasPrefix(lx.src[lx.pos:], closer) {
			lx.pos += len(closer)
			return sb.String()
		}
		c := lx.src[lx.pos]
		if c == '\n' || c == '\r' {
			lx.newline()
			sb.WriteByte('\n')
		} else {
			sb.WriteByte(c)
			lx.pos++
		}
	}
}

func (lx *lexer) readString(q byte) string {
	line := lx.line
	lx.pos++
	var sb strings.Builder
	for {
		if lx.pos >= len(lx.src) {
			synErr(line, "<eof>", "unfinished string")
		}
		c := lx.src[lx.pos]
		switch {
		case c == q:
			lx.pos++
			return sb.String()
		case c == '\n' || c == '\r':
			synErr(line, sb.String(), "unfinished string")
		case c == '\\':
			lx.pos++
			if lx.pos >= len(lx.src) {
				synErr(line, "<eof>", "unfinished string")
			}
			e := lx.src[lx.pos]
			switch {
			case e == 'a':
				sb.WriteByte(7)
			case e == 'b':
				sb.WriteByte(8)
			case e == 'f':
				sb.WriteByte(12)
			case e == 'n':
				sb.WriteByte('\n')
			case e == 'r':
				sb.WriteByte('\r')
			case e == 't':
				sb.WriteByte('\t')
			case e == 'v':
				sb.WriteByte(11)
			case e == '\n' || e == '\r':
				lx.newline()
				sb.WriteByte('\n')
				continue
			case isDigit(e):
				v, n := 0, 0
				for n < 3 && lx.pos < len(lx.src) && isDigit(lx.src[lx.pos]) {
					v = v*10 + int(lx.src[lx.pos]-'0')
					lx.pos++
					n++
				}
				if v > 255 {
					synErr(lx.line, "", "escape sequence too large")
				}
				sb.WriteByte(byte(v))
				continue
			default: // \\ \" \' and unknown escapes yield the character itself
				sb.WriteByte(e)
			}
			lx.pos++
		default:
			sb.WriteByte(c)
			lx.pos++
		}
	}
}

func (lx *lexer) readNumber() token {
	start := lx.pos
	hex := lx.src[lx.pos] == '0' && (lx.peekAt(1) == 'x' || lx.peekAt(1) == 'X')
	for lx.pos < len(lx.src) {
		c := lx.src[lx.pos]
		if isAlnum(c) || c == '.' {
			lx.pos++
			continue
		}
		if (c == '+' || c == '-') && !hex && lx.pos > start && (lx.src[lx.pos-1] == 'e' || lx.src[lx.pos-1] == 'E') {
			lx.pos++
			continue
		}
		break
	}
	text := lx.src[start:lx.pos]
	n, ok := str2number(text)
	if !ok {
		synErr(lx.line, text, "malformed number")
	}
	return token{k: tkNum, n: n, line: lx.line}
}

func (lx *lexer) next() token {
	for lx.pos < len(lx.src) {
		c := lx.src[lx.pos]
		switch {
		case c == '\n' || c == '\r':
			lx.newline()
		case c == ' ' || c == '\t' || c == '\f' || c == '\v':
			lx.pos++
		case c == '-' && lx.peekAt(1) == '-':
			lx.pos += 2
			if lx.peekAt(0) == '[' {
				if lvl := lx.longLevel(); lvl >= 0 {
					lx.readLong(lvl, "comment")
					continue
				}
			}
			for lx.pos < len(lx.src) && lx.src[lx.pos] != '\n' && lx.src[lx.pos] != '\r' {
				lx.pos++
			}
		case isAlpha(c):
			start := lx.pos
			for lx.pos < len(lx.src) && isAlnum(lx.src[lx.pos]) {
				lx.pos++
			}
			w := lx.src[start:lx.pos]
			if keywords[w] {
				return token{k: tkKw, s: w, line: lx.line}
			}
			return token{k: tkName, s: w, line: lx.line}
		case isDigit(c) || (c == '.' && isDigit(lx.peekAt(1))):
			return lx.readNumber()
		case c == '"' || c == '\'':
			line := lx.line
			return token{k: tkStr, s: lx.readString(c), line: line}
		case c == '[':
			if lvl := lx.longLevel(); lvl >= 0 {
				line := lx.line
				return token{k: tkStr, s: lx.readLong(lvl, "string"), line: line}
			}
			lx.pos++
			return token{k: tkOp, s: "[", line: lx.line}
		default:
			for _, op := range [...]string{"...", "..", "==", "~=", "<=", ">="} {
				if strings.HasPrefix(lx.src[lx.pos:], op) {
					lx.pos += len(op)
					return token{k: tkOp, s: op, line: lx.line}
				}
			}
			if strings.IndexByte("+-*/%^#<>=(){}];:,.", c) >= 0 {
				lx.pos++
				return token{k: tkOp, s: string(c), line: lx.line}
			}
			synErr(lx.line, string(c), "unexpected symbol")
		}
	}
	return token{k: tkEOF, line: lx.line}
}

func tokenize(src string) []token {
	lx := &lexer{src: src, line: 1}
	var out []token
	for {
		t := lx.next()
		out = append(out, t)
		if t.k == tkEOF {
			return out
		}
	}
}

// str2number converts a string to a number the way Lua 5.1's tonumber does
// (surrounding whitespace allowed, decimal/exponent/hex forms).
func str2number(s string) (float64, bool) {
	s = strings.Trim(s, " \t\n\v\f\r")
	if s == "" {
		return 0, false
	}
	neg := false
	body := s
	if body[0] == '+' || body[0] == '-' {
		neg = body[0] == '-'
		body = body[1:]
	}
	if body == "" {
		return 0, false
	}
	var v float64
	switch low := strings.ToLower(body); {
	case strings.HasPrefix(low, "0x"):
		if len(low) == 2 {
			return 0, false
		}
		for _, c := range []byte(low[2:]) {
			var d int
			switch {
			case isDigit(c):
				d = int(c - '0')
			case c >= 'a' && c <= 'f':
				d = int(c-'a') + 10
			default:
				return 0, false
			}
			v = v*16 + float64(d)
		}
	case low == "inf" || low == "infinity":
		v = math.Inf(1)
	case low == "nan":
		v = math.NaN()
	default:
		if body[0] == '+' || body[0] == '-' {
			return 0, false
		}
		for i := 0; i < len(body); i++ {
			if !isDigit(body[i]) && strings.IndexByte(".eE+-", body[i]) < 0 {
				return 0, false
			}
		}
		f, err := strconv.ParseFloat(body, 64)
		if err != nil && !errors.Is(err, strconv.ErrRange) {
			return 0, false
		}
		v = f
	}
	if neg {
		v = -v
	}
	return v, true
}

// fmtNumber formats a number like Lua 5.1's "%.14g".
func fmtNumber(f float64) string {
	switch {
	case math.IsNaN(f):
		return "nan"
	case math.IsInf(f, 1):
		return "inf"
	case math.IsInf(f, -1):
		return "-inf"
	}
	return strconv.FormatFloat(f, 'g', 14, 64)
}
