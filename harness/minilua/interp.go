package minilua

import (
	"fmt"
	"math"
	"strconv"
)

const (
	// DefaultMaxSteps is used by Run when maxSteps <= 0.
	DefaultMaxSteps = 10_000_000
	maxCallDepth    = 1000
	maxStringLen    = 64 << 20
	maxUnpack       = 8000
)

type luaError struct{ val Value }
type budgetError struct{}

type frame struct{ varargs []Value }

type env struct {
	parent *env
	fr     *frame
	vars   []*localVar
	vals   []Value
}

func newEnv(parent *env) *env { return &env{parent: parent, fr: parent.fr} }

func (e *env) declare(lv *localVar, v Value) {
	e.vars = append(e.vars, lv)
	e.vals = append(e.vals, v)
}

func (e *env) find(lv *localVar) (*env, int) {
	for s := e; s != nil; s = s.parent {
		for i := len(s.vars) - 1; i >= 0; i-- {
			if s.vars[i] == lv {
				return s, i
			}
		}
	}
	return nil, -1
}

type interp struct {
	globals  *Table
	strlib   *Table
	call     CallFn
	steps    int
	maxSteps int
	depth    int
	line     int
}

func (in *interp) step() {
	in.steps++
	if in.steps > in.maxSteps {
		panic(budgetError{})
	}
}

// rtError raises a Lua error with position information, like luaG_runerror.
func (in *interp) rtError(format string, a ...any) {
	panic(&luaError{fmt.Sprintf("user_script:%d: %s", in.line, fmt.Sprintf(format, a...))})
}

func describe(e expr) string {
	switch x := e.(type) {
	case *nameExpr:
		switch {
		case x.lv == nil:
			return "global '" + x.name + "'"
		case x.upval:
			return "upvalue '" + x.name + "'"
		}
		return "local '" + x.name + "'"
	case *indexExpr:
		if k, ok := x.key.(*strExpr); ok {
			return "field '" + k.v + "'"
		}
	case *methodCallExpr:
		return "method '" + x.name + "'"
	}
	return ""
}

func (in *interp) opError(what string, v Value, e expr) {
	if d := describe(e); d != "" {
		in.rtError("attempt to %s %s (a %s value)", what, d, typeName(v))
	}
	in.rtError("attempt to %s a %s value", what, typeName(v))
}

// Run executes the script. See the package documentation for conversion rules.
// maxSteps <= 0 selects DefaultMaxSteps.
func (s *Script) Run(keys, argv []string, call CallFn, maxSteps int) (rep Reply) {
	defer func() {
		if r := recover(); r != nil {
			switch e := r.(type) {
			case *luaError:
				rep = errValueToReply(e.val)
			case budgetError:
				rep = Reply{Kind: '-', Str: "ERR script step budget exceeded"}
			default:
				rep = Reply{Kind: '-', Str: fmt.Sprintf("ERR minilua internal error: %v", r)}
			}
		}
	}()
	if s == nil {
		return Reply{Kind: '-', Str: "ERR minilua: nil script"}
	}
	if maxSteps <= 0 {
		maxSteps = DefaultMaxSteps
	}
	in := &interp{call: call, maxSteps: maxSteps, line: 1}
	in.globals = newGlobals(in)
	kt, at := NewTable(), NewTable()
	for i, k := range keys {
		kt.Set(float64(i+1), k)
	}
	for i, a := range argv {
		at.Set(float64(i+1), a)
	}
	in.globals.Set("KEYS", kt)
	in.globals.Set("ARGV", at)
	root := &env{fr: &frame{}}
	_, vals := in.execBlock(s.body, root)
	if len(vals) == 0 {
		return Reply{Kind: '_'}
	}
	return luaToReply(vals[0], 0)
}

func errValueToReply(v Value) Reply {
	switch x := v.(type) {
	case string:
		return Reply{Kind: '-', Str: "ERR " + x}
	case *Table:
		if s, ok := x.Get("err").(string); ok {
			return Reply{Kind: '-', Str: s}
		}
	}
	return Reply{Kind: '-', Str: "ERR unknown error"}
}

// ---- statements ----

const (
	ctlNone = iota
	ctlBreak
	ctlReturn
)

func (in *interp) execBlock(b []stmt, e *env) (int, []Value) {
	for _, s := range b {
		if c, v := in.exec(s, e); c != ctlNone {
			return c, v
		}
	}
	return ctlNone, nil
}

func (in *interp) exec(s stmt, e *env) (int, []Value) {
	in.step()
	switch x := s.(type) {
	case *localStmt:
		in.line = x.line
		vals := in.evalList(x.exprs, e, len(x.vars))
		for i, lv := range x.vars {
			e.declare(lv, vals[i])
		}
	case *assignStmt:
		in.line = x.line
		in.assign(x, e)
	case *callStmt:
		in.line = x.line
		in.evalMulti(x.call, e)
	case *doStmt:
		return in.execBlock(x.body, newEnv(e))
	case *localFuncStmt:
		e.declare(x.v, nil)
		e.vals[len(e.vals)-1] = &closure{fn: x.fn, env: e}
	case *returnStmt:
		in.line = x.line
		return ctlReturn, in.evalList(x.exprs, e, -1)
	case *breakStmt:
		return ctlBreak, nil
	case *ifStmt:
		for i, c := range x.conds {
			in.line = x.line
			if truthy(in.eval(c, e)) {
				return in.execBlock(x.blocks[i], newEnv(e))
			}
		}
		if x.els != nil {
			return in.execBlock(x.els, newEnv(e))
		}
	case *whileStmt:
		for {
			in.line = x.line
			if !truthy(in.eval(x.cond, e)) {
				break
			}
			in.step()
			if c, v := in.execBlock(x.body, newEnv(e)); c == ctlBreak {
				break
			} else if c == ctlReturn {
				return c, v
			}
		}
	case *repeatStmt:
		for {
			in.step()
			be := newEnv(e)
			if c, v := in.execBlock(x.body, be); c == ctlBreak {
				break
			} else if c == ctlReturn {
				return c, v
			}
			in.line = x.line
			if truthy(in.eval(x.cond, be)) {
				break
			}
		}
	case *numForStmt:
		return in.execNumFor(x, e)
	case *genForStmt:
		return in.execGenFor(x, e)
	default:
		in.rtError("minilua: unknown statement %T", s)
	}
	return ctlNone, nil
}

func (in *interp) execNumFor(x *numForStmt, e *env) (int, []Value) {
	in.line = x.line
	num := func(ex expr, what string) float64 {
		f, ok := toNumber(in.eval(ex, e))
		if !ok {
			in.line = x.line
			in.rtError("'for' %s must be a number", what)
		}
		return f
	}
	start := num(x.start, "initial value")
	limit := num(x.limit, "limit")
	step := 1.0
	if x.step != nil {
		step = num(x.step, "step")
	}
	for i := start; (step > 0 && i <= limit) || (step <= 0 && limit <= i); i += step {
		in.step()
		be := newEnv(e)
		be.declare(x.v, i)
		if c, v := in.execBlock(x.body, be); c == ctlBreak {
			break
		} else if c == ctlReturn {
			return c, v
		}
	}
	return ctlNone, nil
}

func (in *interp) execGenFor(x *genForStmt, e *env) (int, []Value) {
	in.line = x.line
	init := in.evalList(x.exprs, e, 3)
	f, st, ctl := init[0], init[1], init[2]
	for {
		in.step()
		in.line = x.line
		rs := in.callValue(f, []Value{st, ctl}, nil)
		if len(rs) == 0 || rs[0] == nil {
			break
		}
		ctl = rs[0]
		be := newEnv(e)
		for i, lv := range x.vars {
			var v Value
			if i < len(rs) {
				v = rs[i]
			}
			be.declare(lv, v)
		}
		if c, v := in.execBlock(x.body, be); c == ctlBreak {
			break
		} else if c == ctlReturn {
			return c, v
		}
	}
	return ctlNone, nil
}

type lref struct {
	name     *nameExpr
	obj, key Value
	objExpr  expr
	line     int
}

func (in *interp) assign(x *assignStmt, e *env) {
	refs := make([]lref, len(x.targets))
	for i, t := range x.targets {
		switch tx := t.(type) {
		case *nameExpr:
			refs[i] = lref{name: tx, line: tx.line}
		case *indexExpr:
			refs[i] = lref{obj: in.eval(tx.obj, e), key: in.eval(tx.key, e), objExpr: tx.obj, line: tx.line}
		}
	}
	vals := in.evalList(x.exprs, e, len(refs))
	for i := len(refs) - 1; i >= 0; i-- {
		r := refs[i]
		in.line = r.line
		if r.name == nil {
			in.setIndex(r.obj, r.key, vals[i], r.objExpr)
			continue
		}
		if r.name.lv != nil {
			if s, idx := e.find(r.name.lv); s != nil {
				s.vals[idx] = vals[i]
				continue
			}
			in.rtError("minilua: unresolved local '%s'", r.name.name)
		}
		if in.globals.Get(r.name.name) == nil {
			in.rtError("Script attempted to create global variable '%s'", r.name.name)
		}
		in.globals.Set(r.name.name, vals[i])
	}
}

// ---- expressions ----

func isMulti(e expr) bool {
	switch e.(type) {
	case *callExpr, *methodCallExpr, *varargExpr:
		return true
	}
	return false
}

// evalList evaluates an expression list with Lua's adjustment rules; want < 0 keeps all values.
func (in *interp) evalList(es []expr, e *env, want int) []Value {
	out := make([]Value, 0, len(es)+2)
	for i, x := range es {
		if i == len(es)-1 && isMulti(x) {
			out = append(out, in.evalMulti(x, e)...)
		} else {
			out = append(out, in.eval(x, e))
		}
	}
	if want >= 0 {
		for len(out) < want {
			out = append(out, nil)
		}
		out = out[:want]
	}
	return out
}

func (in *interp) evalMulti(x expr, e *env) []Value {
	switch c := x.(type) {
	case *varargExpr:
		return e.fr.varargs
	case *callExpr:
		fn := in.eval(c.fn, e)
		args := in.evalList(c.args, e, -1)
		in.line = c.line
		return in.callValue(fn, args, c.fn)
	case *methodCallExpr:
		obj := in.eval(c.obj, e)
		in.line = c.line
		fn := in.index(obj, c.name, c.obj)
		args := append([]Value{obj}, in.evalList(c.args, e, -1)...)
		in.line = c.line
		return in.callValue(fn, args, c)
	}
	return []Value{in.eval(x, e)}
}

func (in *interp) callValue(f Value, args []Value, fe expr) []Value {
	in.step()
	switch fn := f.(type) {
	case *goFunc:
		return fn.fn(in, args)
	case *closure:
		if in.depth >= maxCallDepth {
			in.rtError("stack overflow")
		}
		in.depth++
		line := in.line
		ce := &env{parent: fn.env, fr: &frame{}}
		for i, p := range fn.fn.params {
			var v Value
			if i < len(args) {
				v = args[i]
			}
			ce.declare(p, v)
		}
		if fn.fn.vararg && len(args) > len(fn.fn.params) {
			ce.fr.varargs = args[len(fn.fn.params):]
		}
		_, vals := in.execBlock(fn.fn.body, ce)
		in.depth--
		in.line = line
		return vals
	}
	in.opError("call", f, fe)
	return nil
}

func (in *interp) index(obj, key Value, oe expr) Value {
	switch o := obj.(type) {
	case *Table:
		return o.Get(key)
	case string:
		return in.strlib.Get(key)
	}
	in.opError("index", obj, oe)
	return nil
}

func (in *interp) setIndex(obj, key, v Value, oe expr) {
	t, ok := obj.(*Table)
	if !ok {
		in.opError("index", obj, oe)
	}
	if key == nil {
		in.rtError("table index is nil")
	}
	if f, isNum := key.(float64); isNum && f != f {
		in.rtError("table index is NaN")
	}
	t.Set(key, v)
}

func (in *interp) eval(x expr, e *env) Value {
	switch c := x.(type) {
	case *nilExpr:
		return nil
	case *boolExpr:
		return c.v
	case *numExpr:
		return c.v
	case *strExpr:
		return c.v
	case *parenExpr:
		return in.eval(c.e, e)
	case *varargExpr:
		if len(e.fr.varargs) > 0 {
			return e.fr.varargs[0]
		}
		return nil
	case *funcExpr:
		return &closure{fn: c, env: e}
	case *nameExpr:
		if c.lv != nil {
			if s, i := e.find(c.lv); s != nil {
				return s.vals[i]
			}
			in.rtError("minilua: unresolved local '%s'", c.name)
		}
		v := in.globals.Get(c.name)
		if v == nil {
			in.line = c.line
			in.rtError("Script attempted to access nonexistent global variable '%s'", c.name)
		}
		return v
	case *indexExpr:
		obj := in.eval(c.obj, e)
		key := in.eval(c.key, e)
		in.line = c.line
		return in.index(obj, key, c.obj)
	case *callExpr, *methodCallExpr:
		if vs := in.evalMulti(x, e); len(vs) > 0 {
			return vs[0]
		}
		return nil
	case *tableExpr:
		t := NewTable()
		var seq []Value
		for i, f := range c.fields {
			switch {
			case f.key != nil:
				k := in.eval(f.key, e)
				in.setIndex(t, k, in.eval(f.val, e), nil)
			case i == len(c.fields)-1 && isMulti(f.val):
				seq = append(seq, in.evalMulti(f.val, e)...)
			default:
				seq = append(seq, in.eval(f.val, e))
			}
		}
		if len(seq) > 0 {
			t.setSeq(seq)
		}
		return t
	case *unExpr:
		v := in.eval(c.e, e)
		in.line = c.line
		switch c.op {
		case "not":
			return !truthy(v)
		case "-":
			f, ok := toNumber(v)
			if !ok {
				in.opError("perform arithmetic on", v, c.e)
			}
			return -f
		case "#":
			switch o := v.(type) {
			case string:
				return float64(len(o))
			case *Table:
				return float64(o.Len())
			}
			in.opError("get length of", v, c.e)
		}
	case *binExpr:
		switch c.op {
		case "and":
			if l := in.eval(c.l, e); !truthy(l) {
				return l
			}
			return in.eval(c.r, e)
		case "or":
			if l := in.eval(c.l, e); truthy(l) {
				return l
			}
			return in.eval(c.r, e)
		}
		l := in.eval(c.l, e)
		r := in.eval(c.r, e)
		in.line = c.line
		return in.binop(c, l, r)
	}
	in.rtError("minilua: unknown expression %T", x)
	return nil
}

func (in *interp) binop(c *binExpr, l, r Value) Value {
	switch c.op {
	case "==":
		return l == r
	case "~=":
		return l != r
	case "<":
		return in.less(l, r, false)
	case "<=":
		return in.less(l, r, true)
	case ">":
		return in.less(r, l, false)
	case ">=":
		return in.less(r, l, true)
	case "..":
		ls, ok1 := toStringCoerce(l)
		rs, ok2 := toStringCoerce(r)
		if !ok1 {
			in.opError("concatenate", l, c.l)
		}
		if !ok2 {
			in.opError("concatenate", r, c.r)
		}
		if len(ls)+len(rs) > maxStringLen {
			in.rtError("not enough memory")
		}
		return ls + rs
	}
	a, ok1 := toNumber(l)
	b, ok2 := toNumber(r)
	if !ok1 {
		in.opError("perform arithmetic on", l, c.l)
	}
	if !ok2 {
		in.opError("perform arithmetic on", r, c.r)
	}
	switch c.op {
	case "+":
		return a + b
	case "-":
		return a - b
	case "*":
		return a * b
	case "/":
		return a / b
	case "%":
		return a - math.Floor(a/b)*b
	case "^":
		return math.Pow(a, b)
	}
	in.rtError("minilua: unknown operator %s", c.op)
	return nil
}

func (in *interp) less(l, r Value, orEq bool) bool {
	switch a := l.(type) {
	case float64:
		if b, ok := r.(float64); ok {
			if orEq {
				return a <= b
			}
			return a < b
		}
	case string:
		if b, ok := r.(string); ok {
			if orEq {
				return a <= b
			}
			return a < b
		}
	}
	t1, t2 := typeName(l), typeName(r)
	if t1 == t2 {
		in.rtError("attempt to compare two %s values", t1)
	}
	in.rtError("attempt to compare %s with %s", t1, t2)
	return false
}

// ---- values, tables, RESP conversion ----

// Value is a Lua value: nil, bool, float64 (all Lua numbers), string, *Table,
// or a function value (*closure for Lua functions, *goFunc for builtins).
type Value any

type closure struct {
	fn  *funcExpr
	env *env
}

type goFunc struct {
	name string
	fn   func(in *interp, args []Value) []Value
}

// Table is a Lua table with an array part and an insertion-ordered hash part,
// so that pairs()/next() iterate deterministically: array part first, then
// hash keys in first-insertion order.
type Table struct {
	arr   []Value
	hkeys []Value
	hvals []Value // nil marks a dead (removed) entry
	hidx  map[Value]int
	dead  int
}

func NewTable() *Table { return &Table{} }

func normKey(k Value) Value {
	switch x := k.(type) {
	case int:
		return float64(x)
	case int64:
		return float64(x)
	}
	return k
}

// arrIndex reports whether k is a positive integral number and returns it.
func arrIndex(k Value) (int, bool) {
	if f, ok := k.(float64); ok && f >= 1 && f < 1<<52 {
		if i := int(f); float64(i) == f {
			return i, true
		}
	}
	return 0, false
}

// Get returns t[k] (nil when absent).
func (t *Table) Get(k Value) Value {
	k = normKey(k)
	if k == nil {
		return nil
	}
	if i, ok := arrIndex(k); ok && i <= len(t.arr) {
		return t.arr[i-1]
	}
	if i, ok := t.hidx[k]; ok {
		return t.hvals[i]
	}
	return nil
}

// Set performs t[k] = v. A nil or NaN key is ignored (the interpreter raises
// the proper Lua error before calling Set).
func (t *Table) Set(k, v Value) {
	k = normKey(k)
	if k == nil {
		return
	}
	if f, ok := k.(float64); ok && f != f {
		return
	}
	if i, ok := arrIndex(k); ok {
		n := len(t.arr)
		if i <= n {
			t.arr[i-1] = v
			if v == nil && i == n {
				t.trim()
			}
			return
		}
		if i == n+1 {
			if v != nil {
				t.arr = append(t.arr, v)
				t.migrate()
			}
			return
		}
	}
	t.hset(k, v)
}

func (t *Table) trim() {
	n := len(t.arr)
	for n > 0 && t.arr[n-1] == nil {
		n--
	}
	t.arr = t.arr[:n]
}

// migrate moves hash entries that now continue the array part into it.
func (t *Table) migrate() {
	for len(t.hidx) > 0 {
		i, ok := t.hidx[float64(len(t.arr)+1)]
		if !ok || t.hvals[i] == nil {
			return
		}
		t.arr = append(t.arr, t.hvals[i])
		t.hvals[i] = nil
		t.dead++
	}
}

func (t *Table) hset(k, v Value) {
	if i, ok := t.hidx[k]; ok {
		switch {
		case v == nil && t.hvals[i] != nil:
			t.dead++
		case v != nil && t.hvals[i] == nil:
			t.dead--
		}
		t.hvals[i] = v
		return
	}
	if v == nil {
		return
	}
	if t.hidx == nil {
		t.hidx = map[Value]int{}
	}
	if t.dead > 16 && t.dead > len(t.hkeys)/2 {
		keys, vals := t.hkeys, t.hvals
		t.hkeys, t.hvals, t.dead = nil, nil, 0
		t.hidx = map[Value]int{}
		for i, kk := range keys {
			if vals[i] != nil {
				t.hidx[kk] = len(t.hkeys)
				t.hkeys = append(t.hkeys, kk)
				t.hvals = append(t.hvals, vals[i])
			}
		}
	}
	t.hidx[k] = len(t.hkeys)
	t.hkeys = append(t.hkeys, k)
	t.hvals = append(t.hvals, v)
}

// setSeq installs positional constructor values {v1, v2, ...} (holes allowed).
func (t *Table) setSeq(vals []Value) {
	if len(t.arr) == 0 {
		clean := true
		for i, k := range t.hkeys {
			if _, isInt := arrIndex(k); isInt && t.hvals[i] != nil {
				clean = false
				break
			}
		}
		if clean {
			t.arr = append([]Value(nil), vals...)
			t.trim()
			return
		}
	}
	for i, v := range vals {
		t.Set(float64(i+1), v)
	}
}

// Len returns a border of the table (Lua '#'): the length of the array part.
func (t *Table) Len() int { return len(t.arr) }

// next implements Lua's next(); ok is false for an invalid key.
func (t *Table) next(k Value) (nk, nv Value, ok bool) {
	i := 0
	if k != nil {
		if ai, isInt := arrIndex(k); isInt && ai <= len(t.arr) {
			i = ai
		} else if hi, found := t.hidx[k]; found {
			i = len(t.arr) + hi + 1
		} else if isInt {
			i = len(t.arr) // array element removed during traversal
		} else {
			return nil, nil, false
		}
	}
	for ; i < len(t.arr); i++ {
		if t.arr[i] != nil {
			return float64(i + 1), t.arr[i], true
		}
	}
	for j := i - len(t.arr); j < len(t.hkeys); j++ {
		if t.hvals[j] != nil {
			return t.hkeys[j], t.hvals[j], true
		}
	}
	return nil, nil, true
}

func typeName(v Value) string {
	switch v.(type) {
	case nil:
		return "nil"
	case bool:
		return "boolean"
	case float64:
		return "number"
	case string:
		return "string"
	case *Table:
		return "table"
	case *closure, *goFunc:
		return "function"
	}
	return "userdata"
}

func truthy(v Value) bool {
	if v == nil {
		return false
	}
	if b, ok := v.(bool); ok {
		return b
	}
	return true
}

func toNumber(v Value) (float64, bool) {
	switch x := v.(type) {
	case float64:
		return x, true
	case string:
		return str2number(x)
	}
	return 0, false
}

// toStringCoerce is the implicit number->string coercion (concat, string lib args).
func toStringCoerce(v Value) (string, bool) {
	switch x := v.(type) {
	case string:
		return x, true
	case float64:
		return fmtNumber(x), true
	}
	return "", false
}

func tostring(v Value) string {
	switch x := v.(type) {
	case nil:
		return "nil"
	case bool:
		if x {
			return "true"
		}
		return "false"
	case float64:
		return fmtNumber(x)
	case string:
		return x
	case *Table:
		return fmt.Sprintf("table: %p", x)
	case *closure:
		return fmt.Sprintf("function: %p", x)
	case *goFunc:
		return fmt.Sprintf("function: builtin: %p", x)
	}
	return fmt.Sprintf("userdata: %v", v)
}

// toInt64 truncates like C's (long long) cast on x86-64.
func toInt64(f float64) int64 {
	if f != f || f >= 9223372036854775808.0 || f < -9223372036854775808.0 {
		return math.MinInt64
	}
	return int64(f)
}

// ---- Redis <-> Lua conversion ----

// Reply is a RESP-level value exchanged with the host.
type Reply struct {
	Kind  byte    // '+' status, '-' error, ':' integer, '$' bulk string, '*' array, '_' null
	Str   string  // for + - $
	Int   int64   // for :
	Elems []Reply // for *
}

// CallFn executes one Redis command on behalf of the script.
type CallFn func(argv []string) Reply

func replyToLua(r Reply) Value {
	switch r.Kind {
	case ':':
		return float64(r.Int)
	case '$':
		return r.Str
	case '+':
		t := NewTable()
		t.Set("ok", r.Str)
		return t
	case '-':
		t := NewTable()
		t.Set("err", r.Str)
		return t
	case '*':
		t := NewTable()
		for i, e := range r.Elems {
			t.Set(float64(i+1), replyToLua(e))
		}
		return t
	}
	return false // '_' and anything unknown
}

func luaToReply(v Value, depth int) Reply {
	switch x := v.(type) {
	case float64:
		return Reply{Kind: ':', Int: toInt64(x)}
	case string:
		return Reply{Kind: '$', Str: x}
	case bool:
		if x {
			return Reply{Kind: ':', Int: 1}
		}
	case *Table:
		if depth > 1000 {
			return Reply{Kind: '-', Str: "ERR reached lua stack limit"}
		}
		if s, ok := x.Get("err").(string); ok {
			return Reply{Kind: '-', Str: s}
		}
		if s, ok := x.Get("ok").(string); ok {
			return Reply{Kind: '+', Str: s}
		}
		elems := []Reply{}
		for i := 1; ; i++ {
			e := x.Get(float64(i))
			if e == nil {
				break
			}
			elems = append(elems, luaToReply(e, depth+1))
		}
		return Reply{Kind: '*', Elems: elems}
	}
	return Reply{Kind: '_'}
}

// redisArg formats a redis.call argument the way Redis does.
func redisArg(v Value) (string, bool) {
	switch x := v.(type) {
	case string:
		return x, true
	case float64:
		if x == math.Trunc(x) && x >= -9223372036854775808.0 && x < 9223372036854775808.0 {
			return strconv.FormatInt(int64(x), 10), true
		}
		switch {
		case x != x:
			return "nan", true
		case math.IsInf(x, 1):
			return "inf", true
		case math.IsInf(x, -1):
			return "-inf", true
		}
		return strconv.FormatFloat(x, 'g', 17, 64), true
	}
	return "", false
}
