package minilua

import "fmt"

// ---- AST ----

type expr interface{}
type stmt interface{}

// localVar identifies one lexical local declaration; names are resolved at parse time.
type localVar struct {
	name string
	fs   *funcState
}

type (
	nilExpr    struct{}
	boolExpr   struct{ v bool }
	numExpr    struct{ v float64 }
	strExpr    struct{ v string }
	varargExpr struct{}
	parenExpr  struct{ e expr }
	funcExpr   struct {
		params []*localVar
		vararg bool
		body   []stmt
		line   int
	}
	nameExpr struct {
		name  string
		lv    *localVar // nil => global
		upval bool
		line  int
	}
	indexExpr struct {
		obj, key expr
		line     int
	}
	callExpr struct {
		fn   expr
		args []expr
		line int
	}
	methodCallExpr struct {
		obj  expr
		name string
		args []expr
		line int
	}
	binExpr struct {
		op   string
		l, r expr
		line int
	}
	unExpr struct {
		op   string
		e    expr
		line int
	}
	tableField struct {
		key expr // nil => positional
		val expr
	}
	tableExpr struct{ fields []tableField }
)

type (
	localStmt struct {
		vars  []*localVar
		exprs []expr
		line  int
	}
	assignStmt struct {
		targets []expr
		exprs   []expr
		line    int
	}
	callStmt struct {
		call expr
		line int
	}
	doStmt struct {
		body []stmt
		line int
	}
	whileStmt struct {
		cond expr
		body []stmt
		line int
	}
	repeatStmt struct {
		body []stmt
		cond expr
		line int
	}
	ifStmt struct {
		conds  []expr
		blocks [][]stmt
		els    []stmt
		line   int
	}
	numForStmt struct {
		v                  *localVar
		start, limit, step expr
		body               []stmt
		line               int
	}
	genForStmt struct {
		vars  []*localVar
		exprs []expr
		body  []stmt
		line  int
	}
	localFuncStmt struct {
		v    *localVar
		fn   *funcExpr
		line int
	}
	returnStmt struct {
		exprs []expr
		line  int
	}
	breakStmt struct{ line int }
)

// ---- parser ----

type funcState struct {
	parent *funcState
	vararg bool
	loops  int
}

type scope struct {
	parent *scope
	vars   []*localVar
}

type parser struct {
	toks  []token
	p     int
	fs    *funcState
	sc    *scope
	depth int
}

const maxSyntaxLevels = 200

func (p *parser) peek() token { return p.toks[p.p] }
func (p *parser) peek2() token {
	if p.p+1 < len(p.toks) {
		return p.toks[p.p+1]
	}
	return p.toks[len(p.toks)-1]
}
func (p *parser) advance() token {
	t := p.toks[p.p]
	if t.k != tkEOF {
		p.p++
	}
	return t
}
func (p *parser) isOp(s string) bool { t := p.peek(); return t.k == tkOp && t.s == s }
func (p *parser) isKw(s string) bool { t := p.peek(); return t.k == tkKw && t.s == s }
func (p *parser) acceptOp(s string) bool {
	if p.isOp(s) {
		p.p++
		return true
	}
	return false
}
func (p *parser) acceptKw(s string) bool {
	if p.isKw(s) {
		p.p++
		return true
	}
	return false
}
func (p *parser) fail(format string, a ...any) {
	t := p.peek()
	synErr(t.line, t.near(), format, a...)
}
func (p *parser) expectOp(s string) {
	if !p.acceptOp(s) {
		p.fail("'%s' expected", s)
	}
}
func (p *parser) expectKw(s string) {
	if !p.acceptKw(s) {
		p.fail("'%s' expected", s)
	}
}

// expectMatch expects the closing keyword/op of a construct opened at line.
func (p *parser) expectMatch(what, open string, line int, kw bool) {
	ok := false
	if kw {
		ok = p.acceptKw(what)
	} else {
		ok = p.acceptOp(what)
	}
	if !ok {
		if line == p.peek().line {
			p.fail("'%s' expected", what)
		}
		p.fail("'%s' expected (to close '%s' at line %d)", what, open, line)
	}
}
func (p *parser) name() string {
	t := p.peek()
	if t.k != tkName {
		p.fail("<name> expected")
	}
	p.p++
	return t.s
}
func (p *parser) enter() {
	p.depth++
	if p.depth > maxSyntaxLevels {
		synErr(p.peek().line, "", "chunk has too many syntax levels")
	}
}
func (p *parser) leave() { p.depth-- }

func (p *parser) openScope()  { p.sc = &scope{parent: p.sc} }
func (p *parser) closeScope() { p.sc = p.sc.parent }
func (p *parser) declare(name string) *localVar {
	lv := &localVar{name: name, fs: p.fs}
	p.sc.vars = append(p.sc.vars, lv)
	return lv
}
func (p *parser) resolve(name string, line int) *nameExpr {
	for s := p.sc; s != nil; s = s.parent {
		for i := len(s.vars) - 1; i >= 0; i-- {
			if s.vars[i].name == name {
				return &nameExpr{name: name, lv: s.vars[i], upval: s.vars[i].fs != p.fs, line: line}
			}
		}
	}
	return &nameExpr{name: name, line: line}
}

func blockEnd(t token) bool {
	if t.k == tkEOF {
		return true
	}
	return t.k == tkKw && (t.s == "end" || t.s == "else" || t.s == "elseif" || t.s == "until")
}

// block parses statements in the current scope (the caller opens/closes scopes).
func (p *parser) block() []stmt {
	p.enter()
	defer p.leave()
	var out []stmt
	for !blockEnd(p.peek()) {
		if p.isKw("return") {
			line := p.advance().line
			rs := &returnStmt{line: line}
			if !blockEnd(p.peek()) && !p.isOp(";") {
				rs.exprs = p.exprList()
			}
			p.acceptOp(";")
			return append(out, rs)
		}
		if p.isKw("break") {
			line := p.advance().line
			if p.fs.loops == 0 {
				synErr(line, "", "no loop to break")
			}
			p.acceptOp(";")
			return append(out, &breakStmt{line: line})
		}
		out = append(out, p.statement())
		p.acceptOp(";")
	}
	return out
}

func (p *parser) scopedBlock() []stmt {
	p.openScope()
	b := p.block()
	p.closeScope()
	return b
}

func (p *parser) loopBody() []stmt {
	p.fs.loops++
	b := p.block()
	p.fs.loops--
	return b
}

func (p *parser) statement() stmt {
	t := p.peek()
	line := t.line
	if t.k == tkKw {
		switch t.s {
		case "if":
			return p.ifStat()
		case "while":
			p.advance()
			cond := p.expr()
			p.expectKw("do")
			p.openScope()
			body := p.loopBody()
			p.closeScope()
			p.expectMatch("end", "while", line, true)
			return &whileStmt{cond: cond, body: body, line: line}
		case "do":
			p.advance()
			body := p.scopedBlock()
			p.expectMatch("end", "do", line, true)
			return &doStmt{body: body, line: line}
		case "for":
			return p.forStat()
		case "repeat":
			p.advance()
			p.openScope()
			body := p.loopBody()
			p.expectMatch("until", "repeat", line, true)
			cond := p.expr() // sees the body's locals
			p.closeScope()
			return &repeatStmt{body: body, cond: cond, line: line}
		case "function":
			p.advance()
			nt := p.peek()
			var target expr = p.resolve(p.name(), nt.line)
			method := false
			for p.isOp(".") || p.isOp(":") {
				colon := p.advance().s == ":"
				kt := p.peek()
				target = &indexExpr{obj: target, key: &strExpr{p.name()}, line: kt.line}
				if colon {
					method = true
					break
				}
			}
			fn := p.funcBody(method, line)
			return &assignStmt{targets: []expr{target}, exprs: []expr{fn}, line: line}
		case "local":
			p.advance()
			if p.acceptKw("function") {
				lv := p.declare(p.name())
				return &localFuncStmt{v: lv, fn: p.funcBody(false, line), line: line}
			}
			names := []string{p.name()}
			for p.acceptOp(",") {
				names = append(names, p.name())
			}
			ls := &localStmt{line: line}
			if p.acceptOp("=") {
				ls.exprs = p.exprList()
			}
			for _, n := range names { // declared after the initialisers are parsed
				ls.vars = append(ls.vars, p.declare(n))
			}
			return ls
		}
	}
	// expression statement: call or assignment
	e := p.primaryExpr()
	if p.isOp("=") || p.isOp(",") {
		targets := []expr{e}
		for p.acceptOp(",") {
			targets = append(targets, p.primaryExpr())
		}
		for _, tg := range targets {
			switch tg.(type) {
			case *nameExpr, *indexExpr:
			default:
				p.fail("syntax error")
			}
		}
		p.expectOp("=")
		return &assignStmt{targets: targets, exprs: p.exprList(), line: line}
	}
	switch e.(type) {
	case *callExpr, *methodCallExpr:
		return &callStmt{call: e, line: line}
	}
	p.fail("syntax error")
	return nil
}

func (p *parser) ifStat() stmt {
	line := p.advance().line
	st := &ifStmt{line: line}
	for {
		st.conds = append(st.conds, p.expr())
		p.expectKw("then")
		st.blocks = append(st.blocks, p.scopedBlock())
		if p.acceptKw("elseif") {
			continue
		}
		if p.acceptKw("else") {
			st.els = p.scopedBlock()
			if st.els == nil {
				st.els = []stmt{}
			}
		}
		p.expectMatch("end", "if", line, true)
		return st
	}
}

func (p *parser) forStat() stmt {
	line := p.advance().line
	n1 := p.name()
	if p.acceptOp("=") {
		st := &numForStmt{line: line}
		st.start = p.expr()
		p.expectOp(",")
		st.limit = p.expr()
		if p.acceptOp(",") {
			st.step = p.expr()
		}
		p.expectKw("do")
		p.openScope()
		st.v = p.declare(n1)
		st.body = p.loopBody()
		p.closeScope()
		p.expectMatch("end", "for", line, true)
		return st
	}
	names := []string{n1}
	for p.acceptOp(",") {
		names = append(names, p.name())
	}
	if !p.acceptKw("in") {
		p.fail("'=' or 'in' expected")
	}
	st := &genForStmt{line: line}
	st.exprs = p.exprList()
	p.expectKw("do")
	p.openScope()
	for _, n := range names {
		st.vars = append(st.vars, p.declare(n))
	}
	st.body = p.loopBody()
	p.closeScope()
	p.expectMatch("end", "for", line, true)
	return st
}

func (p *parser) funcBody(method bool, line int) *funcExpr {
	fn := &funcExpr{line: line}
	p.fs = &funcState{parent: p.fs}
	p.openScope()
	if method {
		fn.params = append(fn.params, p.declare("self"))
	}
	p.expectOp("(")
	if !p.isOp(")") {
		for {
			if p.acceptOp("...") {
				fn.vararg = true
				break
			}
			fn.params = append(fn.params, p.declare(p.name()))
			if !p.acceptOp(",") {
				break
			}
		}
	}
	p.expectOp(")")
	p.fs.vararg = fn.vararg
	fn.body = p.block()
	p.expectMatch("end", "function", line, true)
	p.closeScope()
	p.fs = p.fs.parent
	return fn
}

func (p *parser) exprList() []expr {
	out := []expr{p.expr()}
	for p.acceptOp(",") {
		out = append(out, p.expr())
	}
	return out
}

func (p *parser) primaryExpr() expr {
	t := p.peek()
	var e expr
	switch {
	case t.k == tkName:
		p.advance()
		e = p.resolve(t.s, t.line)
	case t.k == tkOp && t.s == "(":
		p.advance()
		inner := p.expr()
		p.expectMatch(")", "(", t.line, false)
		e = &parenExpr{inner}
	default:
		p.fail("unexpected symbol")
	}
	for {
		t = p.peek()
		switch {
		case t.k == tkOp && t.s == ".":
			p.advance()
			kt := p.peek()
			e = &indexExpr{obj: e, key: &strExpr{p.name()}, line: kt.line}
		case t.k == tkOp && t.s == "[":
			p.advance()
			k := p.expr()
			p.expectOp("]")
			e = &indexExpr{obj: e, key: k, line: t.line}
		case t.k == tkOp && t.s == ":":
			p.advance()
			n := p.name()
			e = &methodCallExpr{obj: e, name: n, args: p.callArgs(), line: t.line}
		case t.k == tkStr || (t.k == tkOp && (t.s == "(" || t.s == "{")):
			e = &callExpr{fn: e, args: p.callArgs(), line: t.line}
		default:
			return e
		}
	}
}

func (p *parser) callArgs() []expr {
	t := p.peek()
	switch {
	case t.k == tkStr:
		p.advance()
		return []expr{&strExpr{t.s}}
	case t.k == tkOp && t.s == "{":
		return []expr{p.tableCons()}
	case t.k == tkOp && t.s == "(":
		if p.p > 0 && p.toks[p.p-1].line != t.line {
			p.fail("ambiguous syntax (function call x new statement)")
		}
		p.advance()
		var args []expr
		if !p.isOp(")") {
			args = p.exprList()
		}
		p.expectMatch(")", "(", t.line, false)
		return args
	}
	p.fail("function arguments expected")
	return nil
}

func (p *parser) tableCons() expr {
	line := p.peek().line
	p.expectOp("{")
	te := &tableExpr{}
	for !p.isOp("}") {
		t := p.peek()
		switch {
		case t.k == tkOp && t.s == "[":
			p.advance()
			k := p.expr()
			p.expectOp("]")
			p.expectOp("=")
			te.fields = append(te.fields, tableField{key: k, val: p.expr()})
		case t.k == tkName && p.peek2().k == tkOp && p.peek2().s == "=":
			p.advance()
			p.advance()
			te.fields = append(te.fields, tableField{key: &strExpr{t.s}, val: p.expr()})
		default:
			te.fields = append(te.fields, tableField{val: p.expr()})
		}
		if !p.acceptOp(",") && !p.acceptOp(";") {
			break
		}
	}
	p.expectMatch("}", "{", line, false)
	return te
}

type opPrio struct{ left, right int }

var binPrio = map[string]opPrio{
	"+": {6, 6}, "-": {6, 6}, "*": {7, 7}, "/": {7, 7}, "%": {7, 7},
	"^": {10, 9}, "..": {5, 4},
	"==": {3, 3}, "~=": {3, 3}, "<": {3, 3}, "<=": {3, 3}, ">": {3, 3}, ">=": {3, 3},
	"and": {2, 2}, "or": {1, 1},
}

const unaryPrio = 8

func (p *parser) expr() expr { return p.subExpr(0) }

func (p *parser) subExpr(limit int) expr {
	p.enter()
	defer p.leave()
	var e expr
	t := p.peek()
	if (t.k == tkKw && t.s == "not") || (t.k == tkOp && (t.s == "-" || t.s == "#")) {
		p.advance()
		operand := p.subExpr(unaryPrio)
		if n, ok := operand.(*numExpr); ok && t.s == "-" {
			e = &numExpr{-n.v}
		} else {
			e = &unExpr{op: t.s, e: operand, line: t.line}
		}
	} else {
		e = p.simpleExpr()
	}
	for {
		t = p.peek()
		if t.k != tkOp && !(t.k == tkKw && (t.s == "and" || t.s == "or")) {
			return e
		}
		pr, ok := binPrio[t.s]
		if !ok || pr.left <= limit {
			return e
		}
		p.advance()
		r := p.subExpr(pr.right)
		e = &binExpr{op: t.s, l: e, r: r, line: t.line}
	}
}

func (p *parser) simpleExpr() expr {
	t := p.peek()
	switch t.k {
	case tkNum:
		p.advance()
		return &numExpr{t.n}
	case tkStr:
		p.advance()
		return &strExpr{t.s}
	case tkKw:
		switch t.s {
		case "nil":
			p.advance()
			return &nilExpr{}
		case "true", "false":
			p.advance()
			return &boolExpr{t.s == "true"}
		case "function":
			p.advance()
			return p.funcBody(false, t.line)
		}
	case tkOp:
		switch t.s {
		case "...":
			if !p.fs.vararg {
				p.fail("cannot use '...' outside a vararg function")
			}
			p.advance()
			return &varargExpr{}
		case "{":
			return p.tableCons()
		}
	}
	return p.primaryExpr()
}

// Script is a compiled (parsed) chunk. It is immutable and may be Run concurrently.
type Script struct {
	body []stmt
}

// Compile parses src. Syntax errors are reported with the message prefix
// "ERR Error compiling script".
func Compile(src string) (s *Script, err error) {
	defer func() {
		if r := recover(); r != nil {
			s = nil
			if se, ok := r.(syntaxError); ok {
				err = fmt.Errorf("ERR Error compiling script (new function): %s", se.msg)
			} else {
				err = fmt.Errorf("ERR Error compiling script (new function): internal error: %v", r)
			}
		}
	}()
	p := &parser{toks: tokenize(src), fs: &funcState{vararg: true}}
	p.openScope()
	body := p.block()
	if p.peek().k != tkEOF {
		p.fail("'<eof>' expected")
	}
	return &Script{body: body}, nil
}
