package minilua

import (
	"encoding/json"
	"go/ast"
	goparser "go/parser"
	gotoken "go/token"
	"os"
	"sort"
	"strconv"
	"strings"
	"testing"
)

// ---------------------------------------------------------------------------
// Verbatim copies of every Lua script literal shipped in /repo (non-test files).
// None of them is assembled by concatenation: each is one complete literal.
// TestShippedScriptsMatchRepo cross-checks these copies against the sources.
// ---------------------------------------------------------------------------

var shippedScripts = map[string]string{
	// /repo/rueidislock/lock.go
	"lock.delkey": `if redis.call("GET",KEYS[1]) == ARGV[1] then return redis.call("DEL",KEYS[1]) end;return 0`,
	"lock.extend": `if redis.call("GET",KEYS[1]) == ARGV[1] then local r = redis.call("PEXPIREAT",KEYS[1],ARGV[2]);redis.call("GET",KEYS[1]);return r end;return 0`,
	"lock.acqms":  `local r = redis.call("SET",KEYS[1],ARGV[1],"NX","PX",ARGV[2]);redis.call("GET",KEYS[1]);return r`,
	"lock.acqat":  `local r = redis.call("SET",KEYS[1],ARGV[1],"NX","PXAT",ARGV[2]);redis.call("GET",KEYS[1]);return r`,
	"lock.fcqms":  `local r = redis.call("SET",KEYS[1],ARGV[1],"PX",ARGV[2]);redis.call("GET",KEYS[1]);return r`,
	"lock.fcqat":  `local r = redis.call("SET",KEYS[1],ARGV[1],"PXAT",ARGV[2]);redis.call("GET",KEYS[1]);return r`,

	// /repo/rueidisaside/aside.go
	"aside.delkey":      `if redis.call("GET",KEYS[1]) == ARGV[1] then return redis.call("DEL",KEYS[1]) else return 0 end`,
	"aside.setkey":      `if redis.call("GET",KEYS[1]) == ARGV[1] then return redis.call("SET",KEYS[1],ARGV[2],"PX",ARGV[3]) else return 0 end`,
	"aside.acquireLock": `if redis.call("SET", KEYS[1], ARGV[1], "NX", "PX", ARGV[2]) then return nil else return redis.call("GET", KEYS[1]) end`,

	// /repo/rueidislimiter/limiter.go
	"limiter.rateLimitScript": `
local rate_limit_key = KEYS[1]
local increment_amount = tonumber(ARGV[1])
local next_expires_at = tonumber(ARGV[2])
local current_time = tonumber(ARGV[3])
local expires_at_key = KEYS[2]
local expires_at = tonumber(redis.call("get", expires_at_key))
if not expires_at or expires_at < current_time then
  redis.call("set", rate_limit_key, 0, "pxat", next_expires_at + 1000)
  redis.call("set", expires_at_key, next_expires_at, "pxat", next_expires_at + 1000)
  expires_at = next_expires_at
end
local current = redis.call("incrby", rate_limit_key, increment_amount)
return { current, expires_at }
`,

	// /repo/om/hash.go
	"om.hashSaveScript": `
if (ARGV[1] == '')
then
  local e = (#ARGV % 2 == 1) and table.remove(ARGV) or nil
  if redis.call('HSET',KEYS[1],unpack(ARGV))
  then
    if e then redis.call('PEXPIREAT',KEYS[1],e) end
  end
  return ARGV[2]
end
local v = redis.call('HGET',KEYS[1],ARGV[1])
if (not v or v == ARGV[2])
then
  ARGV[2] = tostring(tonumber(ARGV[2])+1)
  local e = (#ARGV % 2 == 1) and table.remove(ARGV) or nil
  if redis.call('HSET',KEYS[1],unpack(ARGV))
  then
    if e then redis.call('PEXPIREAT',KEYS[1],e) end
    return ARGV[2]
  end
end
return nil
`,

	// /repo/om/json.go
	"om.jsonSaveScript": `
if (ARGV[1] == '')
then
  redis.call('JSON.SET',KEYS[1],'$',ARGV[3])
  if #ARGV == 4 then redis.call('PEXPIREAT',KEYS[1],ARGV[4]) end
  return ARGV[2]
end
local v = redis.call('JSON.GET',KEYS[1],ARGV[1])
if (not v or v == ARGV[2])
then
  redis.call('JSON.SET',KEYS[1],'$',ARGV[3])
  local v = redis.call('JSON.NUMINCRBY',KEYS[1],ARGV[1],1)
  if #ARGV == 4 then redis.call('PEXPIREAT',KEYS[1],ARGV[4]) end
  return v
end
return nil
`,

	// /repo/rueidisprob/bloomfilter.go
	"bloom.addMulti": `
local hashIterations = tonumber(ARGV[1])
local numElements = tonumber(#ARGV) - 1
local filterKey = KEYS[1]
local counterKey = KEYS[2]

local counter = 0
local oneBits = 0
for i=1, numElements do
	local bitset = redis.call('BITFIELD', filterKey, 'SET', 'u1', ARGV[i+1], '1')

	oneBits = oneBits + bitset[1]
	if i % hashIterations == 0 then
		if oneBits ~= hashIterations then
			counter = counter + 1
		end

		oneBits = 0
	end
end

return redis.call('INCRBY', counterKey, counter)
`,
	"bloom.existsMulti": `
local hashIterations = tonumber(ARGV[1])
local numElements = tonumber(#ARGV) - 1
local filterKey = KEYS[1]

local result = {}
local oneBits = 0
for i=1, numElements do
	local index = tonumber(ARGV[i+1])
	local bitset = redis.call('BITFIELD', filterKey, 'GET', 'u1', index)

	oneBits = oneBits + bitset[1]
	if i % hashIterations == 0 then
		table.insert(result, oneBits == hashIterations)

		oneBits = 0
	end
end

return result
`,
	"bloom.existsMultiReadOnly": `
local hashIterations = tonumber(ARGV[1])
local numElements = tonumber(#ARGV) - 1
local filterKey = KEYS[1]

local result = {}
local oneBits = 0
for i=1, numElements do
	local index = tonumber(ARGV[i+1])
	local bitset = redis.call('BITFIELD_RO', filterKey, 'GET', 'u1', index)

	oneBits = oneBits + bitset[1]
	if i % hashIterations == 0 then
		table.insert(result, oneBits == hashIterations)

		oneBits = 0
	end
end

return result
`,
	"bloom.reset": `
local filterKey = KEYS[1]
local counterKey = KEYS[2]

redis.call('SET', filterKey, "")
redis.call('SET', counterKey, 0)

return 1
`,
	"bloom.delete": `
local filterKey = KEYS[1]
local counterKey = KEYS[2]

redis.call('DEL', filterKey)
redis.call('DEL', counterKey)

return 1
`,

	// /repo/rueidisprob/countingbloomfilter.go
	"cbf.addMulti": `
local itemCount = tonumber(ARGV[1])
local numElements = tonumber(#ARGV) - 1
local filterKey = KEYS[1]
local counterKey = KEYS[2]

for i=2, numElements+1 do
    redis.call('HINCRBY', filterKey, ARGV[i], 1)
end

return redis.call('INCRBY', counterKey, itemCount)
`,
	"cbf.removeMulti": `
local function MergeTables(t1, t2)
	for i=1, #t2 do
		table.insert(t1, t2[i])
	end

	return t1
end

local numElements = tonumber(#ARGV) - 1
local hashIterations = tonumber(ARGV[#ARGV])
local filterKey = KEYS[1]
local counterKey = KEYS[2]

local indexCounter = {}
for i=1, numElements do
	local index = ARGV[i]
	local count = redis.call('HGET', filterKey, index)

	if (not indexCounter[index]) then
		if (not count) then
			indexCounter[index] = 0
		else
			indexCounter[index] = tonumber(count)
		end
	end
end

local decreaseIndexes = {}
local deleteItemCount = 0
for i=1, numElements, hashIterations do
	local isAbleToRemove = true
	local temp = {}
	local rollbackIndex = i

	for j=i, i+hashIterations-1 do
		local index = ARGV[j]

		table.insert(temp, index)
		indexCounter[index] = indexCounter[index] - 1
		
		if indexCounter[index] < 0 then
			isAbleToRemove = false
			rollbackIndex = j
			break
		end
	end

	if isAbleToRemove then
		decreaseIndexes = MergeTables(decreaseIndexes, temp)
		deleteItemCount = deleteItemCount + 1
	else
		for j=i, rollbackIndex do
			local index = ARGV[j]
			
			indexCounter[index] = indexCounter[index] + 1
		end
	end
end

for i=1, #decreaseIndexes do
    redis.call('HINCRBY', filterKey, decreaseIndexes[i], -1)
end

return redis.call('DECRBY', counterKey, deleteItemCount)
`,
	"cbf.delete": `
local filterKey = KEYS[1]
local counterKey = KEYS[2]

redis.call('DEL', filterKey)
redis.call('DEL', counterKey)

return 1
`,

	// /repo/rueidisprob/slidingbloomfilter.go
	"sbf.initialize": `
local filterKey = KEYS[1]
local nextFilterKey = KEYS[2]
local counterKey = KEYS[3]
local nextCounterKey = KEYS[4]
local lastRotationKey = KEYS[5]
local windowHalf = tonumber(ARGV[1])

if redis.call('EXISTS', filterKey, nextFilterKey, counterKey, nextCounterKey, lastRotationKey) == 0 then
	local time = redis.call('TIME')
	local current_time = tonumber(time[1]) * 1000 + math.floor(tonumber(time[2]) / 1000)

	redis.call('MSET', filterKey, "", counterKey, 0, nextFilterKey, "", nextCounterKey, 0)
	redis.call('SET', lastRotationKey, tostring(current_time), 'PX', windowHalf, 'NX')
end

return 1
`,
	"sbf.addMulti": `
local hashIterations = tonumber(ARGV[1])
local windowHalf = tonumber(ARGV[2])
local numElements = tonumber(#ARGV) - 2

local filterKey = KEYS[1]
local nextFilterKey = KEYS[2]
local counterKey = KEYS[3]
local nextCounterKey = KEYS[4]
local lastRotationKey = KEYS[5]

local time = redis.call('TIME')
local current_time = tonumber(time[1]) * 1000 + math.floor(tonumber(time[2])/1000)
local acquiredLock = redis.call('SET', lastRotationKey, tostring(current_time), 'PX', windowHalf, 'NX')

if acquiredLock then
	redis.call('RENAME', nextFilterKey, filterKey)
	redis.call('RENAME', nextCounterKey, counterKey)
	redis.call('SET', nextFilterKey, "")
	redis.call('SET', nextCounterKey, 0)
end

local counter = 0
local oneBits = 0
for i=1, numElements do
	local bitset = redis.call('BITFIELD', filterKey, 'SET', 'u1', ARGV[i+2], '1')
	redis.call('BITFIELD', nextFilterKey, 'SET', 'u1', ARGV[i+2], '1')

	oneBits = oneBits + bitset[1]
	if i % hashIterations == 0 then
		if oneBits ~= hashIterations then
			counter = counter + 1
		end

		oneBits = 0
	end
end

redis.call('INCRBY', nextCounterKey, counter)
return redis.call('INCRBY', counterKey, counter)
`,
	"sbf.existsMulti": `
local hashIterations = tonumber(ARGV[1])
local windowHalf = tonumber(ARGV[2])
local numElements = tonumber(#ARGV) - 2

local filterKey = KEYS[1]
local nextFilterKey = KEYS[2]
local counterKey = KEYS[3]
local nextCounterKey = KEYS[4]
local lastRotationKey = KEYS[5]

local time = redis.call('TIME')
local current_time = tonumber(time[1]) * 1000 + math.floor(tonumber(time[2])/1000)
local acquiredLock = redis.call('SET', lastRotationKey, tostring(current_time), 'PX', windowHalf, 'NX')

if acquiredLock then
	redis.call('RENAME', nextFilterKey, filterKey)
	redis.call('RENAME', nextCounterKey, counterKey)
	redis.call('SET', nextFilterKey, "")
	redis.call('SET', nextCounterKey, 0)
end

local result = {}
local oneBits = 0
for i=1, numElements do
	local index = tonumber(ARGV[i+2])
	local bitset = redis.call('BITFIELD', filterKey, 'GET', 'u1', index)

	oneBits = oneBits + bitset[1]
	if i % hashIterations == 0 then
		table.insert(result, oneBits == hashIterations)

		oneBits = 0
	end
end

return result
`,
	"sbf.existsMultiReadOnly": `
local hashIterations = tonumber(ARGV[1])
local windowHalf = tonumber(ARGV[2])
local numElements = tonumber(#ARGV) - 2

local filterKey = KEYS[1]
local nextFilterKey = KEYS[2]
local counterKey = KEYS[3]
local nextCounterKey = KEYS[4]
local lastRotationKey = KEYS[5]

local time = redis.call('TIME')
local current_time = tonumber(time[1]) * 1000 + math.floor(tonumber(time[2])/1000)
local acquiredLock = redis.call('SET', lastRotationKey, tostring(current_time), 'PX', windowHalf, 'NX')

if acquiredLock then
	redis.call('RENAME', nextFilterKey, filterKey)
	redis.call('RENAME', nextCounterKey, counterKey)
	redis.call('SET', nextFilterKey, "")
	redis.call('SET', nextCounterKey, 0)
end

local result = {}
local oneBits = 0
for i=1, numElements do
	local index = tonumber(ARGV[i+2])
	local bitset = redis.call('BITFIELD_RO', filterKey, 'GET', 'u1', index)

	oneBits = oneBits + bitset[1]
	if i % hashIterations == 0 then
		table.insert(result, oneBits == hashIterations)

		oneBits = 0
	end
end

return result
`,
	"sbf.reset": `
local filterKey = KEYS[1]
local nextFilterKey = KEYS[2]
local counterKey = KEYS[3]
local nextCounterKey = KEYS[4]

redis.call('RENAME', nextFilterKey, filterKey)
redis.call('RENAME', nextCounterKey, counterKey)
redis.call('SET', nextFilterKey, "")
redis.call('SET', nextCounterKey, 0)
`,
}

var shippedScriptFiles = []string{
	"/repo/rueidislock/lock.go",
	"/repo/rueidisaside/aside.go",
	"/repo/rueidislimiter/limiter.go",
	"/repo/om/hash.go",
	"/repo/om/json.go",
	"/repo/rueidisprob/bloomfilter.go",
	"/repo/rueidisprob/countingbloomfilter.go",
	"/repo/rueidisprob/slidingbloomfilter.go",
}

func TestShippedScriptsCompile(t *testing.T) {
	if len(shippedScripts) != 25 {
		t.Fatalf("expected 25 shipped scripts, have %d", len(shippedScripts))
	}
	for name, src := range shippedScripts {
		if _, err := Compile(src); err != nil {
			t.Errorf("%s: %v", name, err)
		}
	}
}

// TestShippedScriptsMatchRepo extracts every string literal containing "redis.call" from the
// repo sources, compiles each, and checks that the copies above are exactly that set.
func TestShippedScriptsMatchRepo(t *testing.T) {
	if _, err := os.Stat("/repo"); err != nil {
		t.Skip("/repo not available")
	}
	inRepo := map[string]string{} // text -> file
	for _, file := range shippedScriptFiles {
		fset := gotoken.NewFileSet()
		f, err := goparser.ParseFile(fset, file, nil, 0)
		if err != nil {
			t.Fatalf("%s: %v", file, err)
		}
		n := 0
		ast.Inspect(f, func(node ast.Node) bool {
			if be, ok := node.(*ast.BinaryExpr); ok && be.Op == gotoken.ADD {
				for _, side := range []ast.Expr{be.X, be.Y} {
					if bl, ok := side.(*ast.BasicLit); ok && bl.Kind == gotoken.STRING && strings.Contains(bl.Value, "redis.call") {
						t.Errorf("%s: script assembled by concatenation at %s; update the copies", file, fset.Position(bl.Pos()))
					}
				}
			}
			bl, ok := node.(*ast.BasicLit)
			if !ok || bl.Kind != gotoken.STRING {
				return true
			}
			s, err := strconv.Unquote(bl.Value)
			if err != nil || !strings.Contains(s, "redis.call") {
				return true
			}
			n++
			inRepo[s] = file
			if _, err := Compile(s); err != nil {
				t.Errorf("%s (%s): %v", file, fset.Position(bl.Pos()), err)
			}
			return true
		})
		if n == 0 {
			t.Errorf("%s: no Lua script literal found", file)
		}
	}
	copies := map[string]string{}
	for name, src := range shippedScripts {
		copies[src] = name
		if _, ok := inRepo[src]; !ok {
			t.Errorf("copy %s does not match any literal in the repo (drifted?)", name)
		}
	}
	for src, file := range inRepo {
		if _, ok := copies[src]; !ok {
			t.Errorf("literal in %s has no copy in shippedScripts:\n%s", file, src)
		}
	}
}

// ---------------------------------------------------------------------------
// A tiny in-memory Redis, just enough to execute the shipped scripts sensibly.
// ---------------------------------------------------------------------------

type mockRedis struct {
	now    int64 // current time in ms
	strs   map[string]string
	hashes map[string]map[string]string
	expire map[string]int64 // absolute ms
	log    []string
}

func newMockRedis() *mockRedis {
	return &mockRedis{now: 1700000000123, strs: map[string]string{}, hashes: map[string]map[string]string{}, expire: map[string]int64{}}
}

func (m *mockRedis) reap(k string) {
	if at, ok := m.expire[k]; ok && at <= m.now {
		m.del(k)
	}
}
func (m *mockRedis) del(k string) bool {
	_, a := m.strs[k]
	_, b := m.hashes[k]
	delete(m.strs, k)
	delete(m.hashes, k)
	delete(m.expire, k)
	return a || b
}
func (m *mockRedis) exists(k string) bool {
	m.reap(k)
	_, a := m.strs[k]
	_, b := m.hashes[k]
	return a || b
}
func (m *mockRedis) hash(k string) map[string]string {
	m.reap(k)
	h := m.hashes[k]
	if h == nil {
		h = map[string]string{}
		m.hashes[k] = h
	}
	return h
}

func (m *mockRedis) bit(k string, off int, set *int) int {
	b := []byte(m.strs[k])
	idx, mask := off>>3, byte(1)<<(7-uint(off&7))
	old := 0
	if idx < len(b) && b[idx]&mask != 0 {
		old = 1
	}
	if set != nil {
		for len(b) <= idx {
			b = append(b, 0)
		}
		if *set != 0 {
			b[idx] |= mask
		} else {
			b[idx] &^= mask
		}
		m.strs[k] = string(b)
	}
	return old
}

func (m *mockRedis) incr(k string, by int64) Reply {
	m.reap(k)
	cur, err := strconv.ParseInt(m.strs[k], 10, 64)
	if _, ok := m.strs[k]; ok && err != nil {
		return rE("ERR value is not an integer or out of range")
	}
	m.strs[k] = strconv.FormatInt(cur+by, 10)
	return rI(cur + by)
}

func (m *mockRedis) call(argv []string) Reply {
	m.log = append(m.log, strings.Join(argv, " "))
	cmd, a := strings.ToUpper(argv[0]), argv[1:]
	wrongArgs := rE("ERR wrong number of arguments for '" + strings.ToLower(cmd) + "' command")
	atoi := func(s string) (int64, bool) { n, err := strconv.ParseInt(s, 10, 64); return n, err == nil }
	if len(a) == 0 && cmd != "TIME" {
		return wrongArgs
	}
	if len(a) > 0 {
		if _, isHash := m.hashes[a[0]]; isHash {
			switch cmd {
			case "GET", "INCRBY", "DECRBY", "SETBIT", "GETBIT", "BITFIELD", "BITFIELD_RO":
				return rE("WRONGTYPE Operation against a key holding the wrong kind of value")
			}
		}
		if _, isStr := m.strs[a[0]]; isStr && strings.HasPrefix(cmd, "H") {
			return rE("WRONGTYPE Operation against a key holding the wrong kind of value")
		}
	}
	switch cmd {
	case "GET":
		m.reap(a[0])
		if v, ok := m.strs[a[0]]; ok {
			return rB(v)
		}
		return rN
	case "SET":
		if len(a) < 2 {
			return wrongArgs
		}
		nx, at := false, int64(0)
		for i := 2; i < len(a); i++ {
			switch strings.ToUpper(a[i]) {
			case "NX":
				nx = true
			case "PX", "PXAT", "EX":
				if i+1 >= len(a) {
					return rE("ERR syntax error")
				}
				n, ok := atoi(a[i+1])
				if !ok || n <= 0 {
					return rE("ERR invalid expire time in 'set' command")
				}
				switch strings.ToUpper(a[i]) {
				case "PX":
					at = m.now + n
				case "EX":
					at = m.now + n*1000
				default:
					at = n
				}
				i++
			default:
				return rE("ERR syntax error")
			}
		}
		if nx && m.exists(a[0]) {
			return rN
		}
		m.del(a[0])
		m.strs[a[0]] = a[1]
		if at != 0 {
			m.expire[a[0]] = at
		}
		return rS("OK")
	case "MSET":
		if len(a)%2 != 0 {
			return wrongArgs
		}
		for i := 0; i < len(a); i += 2 {
			m.del(a[i])
			m.strs[a[i]] = a[i+1]
		}
		return rS("OK")
	case "DEL":
		n := int64(0)
		for _, k := range a {
			m.reap(k)
			if m.del(k) {
				n++
			}
		}
		return rI(n)
	case "EXISTS":
		n := int64(0)
		for _, k := range a {
			if m.exists(k) {
				n++
			}
		}
		return rI(n)
	case "RENAME":
		if len(a) != 2 {
			return wrongArgs
		}
		if !m.exists(a[0]) {
			return rE("ERR no such key")
		}
		s, isStr := m.strs[a[0]]
		h := m.hashes[a[0]]
		ex, hasEx := m.expire[a[0]]
		m.del(a[0])
		m.del(a[1])
		if isStr {
			m.strs[a[1]] = s
		} else {
			m.hashes[a[1]] = h
		}
		if hasEx {
			m.expire[a[1]] = ex
		}
		return rS("OK")
	case "PEXPIREAT", "PEXPIRE":
		if len(a) != 2 {
			return wrongArgs
		}
		n, ok := atoi(a[1])
		if !ok {
			return rE("ERR value is not an integer or out of range")
		}
		if !m.exists(a[0]) {
			return rI(0)
		}
		if cmd == "PEXPIRE" {
			n += m.now
		}
		m.expire[a[0]] = n
		m.reap(a[0])
		return rI(1)
	case "PTTL":
		if !m.exists(a[0]) {
			return rI(-2)
		}
		if at, ok := m.expire[a[0]]; ok {
			return rI(at - m.now)
		}
		return rI(-1)
	case "INCRBY", "DECRBY":
		if len(a) != 2 {
			return wrongArgs
		}
		n, ok := atoi(a[1])
		if !ok {
			return rE("ERR value is not an integer or out of range")
		}
		if cmd == "DECRBY" {
			n = -n
		}
		return m.incr(a[0], n)
	case "TIME":
		return rA(rB(strconv.FormatInt(m.now/1000, 10)), rB(strconv.FormatInt(m.now%1000*1000+7, 10)))
	case "HGET":
		if len(a) != 2 {
			return wrongArgs
		}
		if !m.exists(a[0]) {
			return rN
		}
		if v, ok := m.hashes[a[0]][a[1]]; ok {
			return rB(v)
		}
		return rN
	case "HSET":
		if len(a) < 3 || len(a)%2 != 1 {
			return wrongArgs
		}
		h, n := m.hash(a[0]), int64(0)
		for i := 1; i < len(a); i += 2 {
			if _, ok := h[a[i]]; !ok {
				n++
			}
			h[a[i]] = a[i+1]
		}
		return rI(n)
	case "HMGET":
		out := make([]Reply, 0, len(a)-1)
		for _, f := range a[1:] {
			if v, ok := m.hashes[a[0]][f]; ok && m.exists(a[0]) {
				out = append(out, rB(v))
			} else {
				out = append(out, rN)
			}
		}
		return rA(out...)
	case "HDEL":
		n := int64(0)
		if m.exists(a[0]) {
			for _, f := range a[1:] {
				if _, ok := m.hashes[a[0]][f]; ok {
					delete(m.hashes[a[0]], f)
					n++
				}
			}
			if len(m.hashes[a[0]]) == 0 {
				m.del(a[0])
			}
		}
		return rI(n)
	case "HINCRBY":
		if len(a) != 3 {
			return wrongArgs
		}
		by, ok := atoi(a[2])
		if !ok {
			return rE("ERR value is not an integer or out of range")
		}
		h := m.hash(a[0])
		cur, _ := strconv.ParseInt(h[a[1]], 10, 64)
		h[a[1]] = strconv.FormatInt(cur+by, 10)
		return rI(cur + by)
	case "SETBIT", "GETBIT":
		off, ok := atoi(a[1])
		if !ok || off < 0 {
			return rE("ERR bit offset is not an integer or out of range")
		}
		m.reap(a[0])
		if cmd == "GETBIT" {
			return rI(int64(m.bit(a[0], int(off), nil)))
		}
		v, _ := atoi(a[2])
		iv := int(v)
		return rI(int64(m.bit(a[0], int(off), &iv)))
	case "BITFIELD", "BITFIELD_RO":
		m.reap(a[0])
		var out []Reply
		for i := 1; i < len(a); {
			op := strings.ToUpper(a[i])
			need := map[string]int{"GET": 3, "SET": 4}[op]
			if need == 0 || i+need > len(a) || (op == "SET" && cmd == "BITFIELD_RO") {
				return rE("ERR syntax error")
			}
			if a[i+1] != "u1" {
				return rE("ERR mock supports only u1 bitfields")
			}
			off, ok := atoi(a[i+2])
			if !ok || off < 0 {
				return rE("ERR bit offset is not an integer or out of range")
			}
			if op == "GET" {
				out = append(out, rI(int64(m.bit(a[0], int(off), nil))))
			} else {
				v, ok := atoi(a[i+3])
				if !ok {
					return rE("ERR value is not an integer or out of range")
				}
				iv := int(v & 1)
				out = append(out, rI(int64(m.bit(a[0], int(off), &iv))))
			}
			i += need
		}
		return rA(out...)
	case "JSON.SET":
		if len(a) != 3 || a[1] != "$" {
			return rE("ERR mock supports only JSON.SET key $ value")
		}
		if !json.Valid([]byte(a[2])) {
			return rE("ERR invalid JSON")
		}
		ex, hasEx := m.expire[a[0]]
		m.del(a[0])
		m.strs[a[0]] = a[2]
		if hasEx {
			m.expire[a[0]] = ex
		}
		return rS("OK")
	case "JSON.GET", "JSON.NUMINCRBY":
		if !m.exists(a[0]) {
			if cmd == "JSON.GET" {
				return rN
			}
			return rE("ERR could not perform this operation on a key that doesn't exist")
		}
		var doc map[string]any
		if err := json.Unmarshal([]byte(m.strs[a[0]]), &doc); err != nil {
			return rE("ERR not an object")
		}
		if cmd == "JSON.GET" {
			v, ok := doc[a[1]]
			if !ok {
				return rE("ERR Path '$." + a[1] + "' does not exist")
			}
			b, _ := json.Marshal(v)
			return rB(string(b))
		}
		f, ok := doc[a[1]].(float64)
		by, ok2 := atoi(a[2])
		if !ok || !ok2 {
			return rE("ERR not a number")
		}
		doc[a[1]] = f + float64(by)
		b, _ := json.Marshal(doc)
		m.strs[a[0]] = string(b)
		return rB(strconv.FormatFloat(f+float64(by), 'f', -1, 64))
	}
	return rE("ERR unknown command '" + argv[0] + "'")
}

// scriptRunner compiles the named shipped script once and runs it against the mock.
type scriptRunner struct {
	t *testing.T
	m *mockRedis
}

func (r scriptRunner) run(name string, keys []string, argv ...string) Reply {
	r.t.Helper()
	src, ok := shippedScripts[name]
	if !ok {
		r.t.Fatalf("no such script %s", name)
	}
	s, err := Compile(src)
	if err != nil {
		r.t.Fatalf("%s: %v", name, err)
	}
	return s.Run(keys, argv, r.m.call, 1_000_000)
}

func (r scriptRunner) expect(want Reply, name string, keys []string, argv ...string) {
	r.t.Helper()
	if got := r.run(name, keys, argv...); !replyEq(got, want) {
		r.t.Fatalf("%s %v %v: want %v, got %v\nlog: %s", name, keys, argv, want, got, strings.Join(r.m.log, "\n     "))
	}
}

var exercised = map[string]bool{}

func (r scriptRunner) ex(want Reply, name string, keys []string, argv ...string) {
	r.t.Helper()
	exercised[name] = true
	r.expect(want, name, keys, argv...)
}

func TestShippedLockScripts(t *testing.T) {
	m := newMockRedis()
	r := scriptRunner{t, m}
	k := []string{"lock:0"}
	r.ex(rS("OK"), "lock.acqms", k, "owner1", "5000")
	if m.strs["lock:0"] != "owner1" || m.expire["lock:0"] != m.now+5000 {
		t.Fatalf("acqms state: %v %v", m.strs, m.expire)
	}
	r.ex(rN, "lock.acqms", k, "owner2", "5000") // held by owner1
	r.ex(rI(0), "lock.extend", k, "owner2", strconv.FormatInt(m.now+9000, 10))
	r.ex(rI(1), "lock.extend", k, "owner1", strconv.FormatInt(m.now+9000, 10))
	if m.expire["lock:0"] != m.now+9000 {
		t.Fatalf("extend did not move the deadline: %v", m.expire)
	}
	r.ex(rI(0), "lock.delkey", k, "owner2")
	r.ex(rI(1), "lock.delkey", k, "owner1")
	r.ex(rI(0), "lock.delkey", k, "owner1") // already gone
	r.ex(rS("OK"), "lock.acqat", k, "owner2", strconv.FormatInt(m.now+1000, 10))
	r.ex(rN, "lock.acqat", k, "owner3", strconv.FormatInt(m.now+1000, 10))
	m.now += 1000 // lock expires
	r.ex(rS("OK"), "lock.acqat", k, "owner3", strconv.FormatInt(m.now+1000, 10))
	r.ex(rS("OK"), "lock.fcqms", k, "forcer", "3000") // force-acquire overrides
	if m.strs["lock:0"] != "forcer" {
		t.Fatal("fcqms did not override")
	}
	r.ex(rS("OK"), "lock.fcqat", k, "forcer2", strconv.FormatInt(m.now+100, 10))
	if m.strs["lock:0"] != "forcer2" || m.expire["lock:0"] != m.now+100 {
		t.Fatal("fcqat state")
	}
	// each acquire script issues SET then GET
	m.log = nil
	r.ex(rS("OK"), "lock.fcqms", k, "x", "10")
	if strings.Join(m.log, "|") != "SET lock:0 x PX 10|GET lock:0" {
		t.Fatalf("command sequence: %q", m.log)
	}
}

func TestShippedAsideScripts(t *testing.T) {
	m := newMockRedis()
	r := scriptRunner{t, m}
	k := []string{"cache:a"}
	r.ex(rN, "aside.acquireLock", k, "id1", "500")        // acquired -> nil
	r.ex(rB("id1"), "aside.acquireLock", k, "id2", "500") // held -> current holder
	r.ex(rI(0), "aside.setkey", k, "id2", "value", "10000")
	r.ex(rS("OK"), "aside.setkey", k, "id1", "value", "10000")
	if m.strs["cache:a"] != "value" || m.expire["cache:a"] != m.now+10000 {
		t.Fatalf("setkey state %v %v", m.strs, m.expire)
	}
	r.ex(rI(0), "aside.delkey", k, "id1")
	r.ex(rI(1), "aside.delkey", k, "value")
	r.ex(rI(0), "aside.setkey", k, "id1", "value", "10000") // key missing: GET false ~= ARGV[1]
}

func TestShippedLimiterScript(t *testing.T) {
	m := newMockRedis()
	r := scriptRunner{t, m}
	k := []string{"rl:u", "rl:u:ex"}
	next := m.now + 60000
	nexts := strconv.FormatInt(next, 10)
	r.ex(rA(rI(1), rI(next)), "limiter.rateLimitScript", k, "1", nexts, strconv.FormatInt(m.now, 10))
	if m.strs["rl:u"] != "1" || m.strs["rl:u:ex"] != nexts || m.expire["rl:u"] != next+1000 {
		t.Fatalf("limiter state %v %v", m.strs, m.expire)
	}
	r.ex(rA(rI(4), rI(next)), "limiter.rateLimitScript", k, "3", strconv.FormatInt(next+5, 10), strconv.FormatInt(m.now+5, 10))
	r.ex(rA(rI(4), rI(next)), "limiter.rateLimitScript", k, "0", strconv.FormatInt(next+6, 10), strconv.FormatInt(m.now+6, 10))
	// window over (logical time passes the stored expires_at, keys not yet reaped): counter restarts
	next2 := next + 60000
	r.ex(rA(rI(2), rI(next2)), "limiter.rateLimitScript", k, "2", strconv.FormatInt(next2, 10), strconv.FormatInt(next+1, 10))
	// keys expired server-side: also restarts
	m.now = next2 + 5000
	next3 := m.now + 60000
	r.ex(rA(rI(1), rI(next3)), "limiter.rateLimitScript", k, "1", strconv.FormatInt(next3, 10), strconv.FormatInt(m.now, 10))
}

func TestShippedOmScripts(t *testing.T) {
	m := newMockRedis()
	r := scriptRunner{t, m}
	k := []string{"h:1"}
	// new entity, version 0 -> stored as version 1
	r.ex(rB("1"), "om.hashSaveScript", k, "ver", "0", "name", "alice", "id", "1")
	if h := m.hashes["h:1"]; h["ver"] != "1" || h["name"] != "alice" || h["id"] != "1" || len(h) != 3 {
		t.Fatalf("hash after save: %v", h)
	}
	// update with the current version, plus an expiry (odd ARGV count)
	exp := strconv.FormatInt(m.now+1000, 10)
	r.ex(rB("2"), "om.hashSaveScript", k, "ver", "1", "name", "bob", "id", "1", exp)
	if h := m.hashes["h:1"]; h["ver"] != "2" || h["name"] != "bob" || len(h) != 3 || m.expire["h:1"] != m.now+1000 {
		t.Fatalf("hash after update: %v %v", h, m.expire)
	}
	// stale version -> nil
	r.ex(rN, "om.hashSaveScript", k, "ver", "1", "name", "mallory", "id", "1")
	if m.hashes["h:1"]["name"] != "bob" {
		t.Fatal("stale save overwrote data")
	}
	// verless schema: ARGV[1] == ''
	r.ex(rB(""), "om.hashSaveScript", []string{"h:2"}, "", "", "name", "carol", exp)
	if h := m.hashes["h:2"]; h["name"] != "carol" || m.expire["h:2"] != m.now+1000 {
		t.Fatalf("verless hash: %v", h)
	}
	r.ex(rB(""), "om.hashSaveScript", []string{"h:3"}, "", "", "name", "dave")
	if _, has := m.expire["h:3"]; has {
		t.Fatal("unexpected expiry")
	}

	jk := []string{"j:1"}
	r.ex(rB("1"), "om.jsonSaveScript", jk, "ver", "0", `{"ver":0,"name":"alice"}`)
	r.ex(rB("2"), "om.jsonSaveScript", jk, "ver", "1", `{"ver":1,"name":"bob"}`, exp)
	if m.expire["j:1"] != m.now+1000 || !strings.Contains(m.strs["j:1"], `"ver":2`) || !strings.Contains(m.strs["j:1"], "bob") {
		t.Fatalf("json state: %q %v", m.strs["j:1"], m.expire)
	}
	r.ex(rN, "om.jsonSaveScript", jk, "ver", "1", `{"ver":1,"name":"mallory"}`)
	if !strings.Contains(m.strs["j:1"], "bob") {
		t.Fatal("stale json save overwrote data")
	}
	r.ex(rB("0"), "om.jsonSaveScript", []string{"j:2"}, "", "0", `{"name":"verless"}`, exp)
	r.ex(rB("0"), "om.jsonSaveScript", []string{"j:3"}, "", "0", `{"name":"verless"}`)
}

func TestShippedBloomScripts(t *testing.T) {
	m := newMockRedis()
	r := scriptRunner{t, m}
	k := []string{"bf", "bf:c"}
	// 2 hash iterations; elements A={3,17} B={64,100}
	r.ex(rI(2), "bloom.addMulti", k, "2", "3", "17", "64", "100")
	r.ex(rI(2), "bloom.addMulti", k, "2", "3", "17") // already present: counter unchanged
	r.ex(rI(3), "bloom.addMulti", k, "2", "3", "99") // one new bit => new element
	if m.strs["bf:c"] != "3" || len(m.strs["bf"]) != 13 {
		t.Fatalf("bloom state: counter=%q len=%d", m.strs["bf:c"], len(m.strs["bf"]))
	}
	for _, name := range []string{"bloom.existsMulti", "bloom.existsMultiReadOnly"} {
		r.ex(rA(rI(1), rN, rI(1), rN), name, k[:1], "2", "3", "17", "3", "18", "64", "100", "5", "6")
	}
	r.ex(rA(), "bloom.existsMulti", k[:1], "2")
	r.ex(rI(1), "bloom.reset", k)
	if m.strs["bf"] != "" || m.strs["bf:c"] != "0" {
		t.Fatalf("after reset: %q %q", m.strs["bf"], m.strs["bf:c"])
	}
	r.ex(rA(rN), "bloom.existsMulti", k[:1], "2", "3", "17")
	r.ex(rI(1), "bloom.delete", k)
	if len(m.strs) != 0 {
		t.Fatalf("after delete: %v", m.strs)
	}
	// wrong type surfaces as the command's error reply, unchanged
	m.hashes["bf"] = map[string]string{"x": "1"}
	exercised["bloom.addMulti"] = true
	if got := r.run("bloom.addMulti", k, "1", "5"); !replyEq(got, rE("WRONGTYPE Operation against a key holding the wrong kind of value")) {
		t.Fatalf("wrongtype: %v", got)
	}
}

func TestShippedCountingBloomScripts(t *testing.T) {
	m := newMockRedis()
	r := scriptRunner{t, m}
	k := []string{"cbf", "cbf:c"}
	// itemCount=2, indexes for two items with 2 hash iterations each; index 7 is shared
	r.ex(rI(2), "cbf.addMulti", k, "2", "5", "7", "7", "9")
	if h := m.hashes["cbf"]; h["5"] != "1" || h["7"] != "2" || h["9"] != "1" {
		t.Fatalf("cbf after add: %v", h)
	}
	// remove item {5,7} and a never-added item {100,101}; trailing arg is hashIterations
	r.ex(rI(1), "cbf.removeMulti", k, "5", "7", "100", "101", "2")
	if h := m.hashes["cbf"]; h["5"] != "0" || h["7"] != "1" || h["9"] != "1" || h["100"] != "" {
		t.Fatalf("cbf after remove: %v", h)
	}
	// removing {5,7} again is impossible (5 has count 0): nothing changes, rollback path runs
	r.ex(rI(1), "cbf.removeMulti", k, "7", "5", "2")
	if h := m.hashes["cbf"]; h["5"] != "0" || h["7"] != "1" {
		t.Fatalf("cbf after failed remove: %v", h)
	}
	// removing the same item twice in one call only succeeds once
	r.ex(rI(0), "cbf.removeMulti", k, "7", "9", "7", "9", "2")
	if h := m.hashes["cbf"]; h["7"] != "0" || h["9"] != "0" {
		t.Fatalf("cbf after double remove: %v", h)
	}
	r.ex(rI(1), "cbf.delete", k)
	if len(m.hashes) != 0 || len(m.strs) != 0 {
		t.Fatal("cbf delete left data")
	}
}

func TestShippedSlidingBloomScripts(t *testing.T) {
	m := newMockRedis()
	r := scriptRunner{t, m}
	k := []string{"sbf", "sbf:n", "sbf:c", "sbf:nc", "sbf:lr"}
	r.ex(rI(1), "sbf.initialize", k, "30000")
	if m.strs["sbf:lr"] != "1700000000123" || m.expire["sbf:lr"] != m.now+30000 || m.strs["sbf:c"] != "0" || m.strs["sbf:nc"] != "0" {
		t.Fatalf("initialize state: %v %v", m.strs, m.expire)
	}
	if _, ok := m.strs["sbf"]; !ok {
		t.Fatal("filter key not created")
	}
	m.log = nil
	r.ex(rI(1), "sbf.initialize", k, "30000") // second time is a no-op
	if len(m.log) != 1 {
		t.Fatalf("re-initialize issued %q", m.log)
	}
	// within the half window: no rotation; both filters get the bits
	r.ex(rI(2), "sbf.addMulti", k, "2", "30000", "1", "2", "30", "40")
	if m.strs["sbf"] != m.strs["sbf:n"] || m.strs["sbf:nc"] != "2" {
		t.Fatalf("add state: %q %q %q", m.strs["sbf"], m.strs["sbf:n"], m.strs["sbf:nc"])
	}
	for _, name := range []string{"sbf.existsMulti", "sbf.existsMultiReadOnly"} {
		r.ex(rA(rI(1), rN, rI(1)), name, k, "2", "30000", "1", "2", "1", "3", "30", "40")
	}
	// half window passes: rotation promotes "next" to "current" and clears "next"
	m.now += 30001
	r.ex(rI(3), "sbf.addMulti", k, "2", "30000", "50", "60")
	if m.strs["sbf:lr"] != strconv.FormatInt(m.now, 10) || m.strs["sbf:nc"] != "1" || m.strs["sbf:c"] != "3" {
		t.Fatalf("rotation state: %v", m.strs)
	}
	r.ex(rA(rI(1), rI(1)), "sbf.existsMulti", k, "2", "30000", "1", "2", "50", "60")
	// another rotation: elements only in the old window vanish
	m.now += 30001
	r.ex(rA(rN, rI(1)), "sbf.existsMulti", k, "2", "30000", "1", "2", "50", "60")
	m.now += 30001
	r.ex(rA(rN, rN), "sbf.existsMultiReadOnly", k, "2", "30000", "1", "2", "50", "60")
	r.ex(rI(1), "sbf.addMulti", k, "1", "30000", "9")
	r.ex(rN, "sbf.reset", k[:4]) // no return statement -> null
	if m.strs["sbf:n"] != "" || m.strs["sbf:nc"] != "0" || m.strs["sbf:c"] != "1" {
		t.Fatalf("reset state: %v", m.strs)
	}
	// RENAME of a missing key aborts the script with the command's error
	m.del("sbf:n")
	exercised["sbf.reset"] = true
	if got := r.run("sbf.reset", k[:4]); !replyEq(got, rE("ERR no such key")) {
		t.Fatalf("reset without next filter: %v", got)
	}
}

// TestZZAllShippedScriptsExercised runs last (source order) and checks nothing was skipped.
func TestZZAllShippedScriptsExercised(t *testing.T) {
	if len(exercised) == 0 {
		t.Skip("script tests were filtered out")
	}
	var missing []string
	for name := range shippedScripts {
		if !exercised[name] {
			missing = append(missing, name)
		}
	}
	sort.Strings(missing)
	if len(missing) > 0 {
		t.Fatalf("shipped scripts never executed: %v", missing)
	}
}
