package minilua

import (
	"strings"
	"sync"
	"testing"
)

func TestRespToLua(t *testing.T) {
	runCases(t, []tcase{
		{name: "integer to number", src: `local v = redis.call("INCR", "k"); return {type(v), v + 1}`,
			calls: map[string]Reply{"INCR k": rI(41)}, want: rA(rB("number"), rI(42))},
		{name: "bulk to string", src: `local v = redis.call("GET", "k"); return {type(v), v .. "!"}`,
			calls: map[string]Reply{"GET k": rB("val")}, want: rA(rB("string"), rB("val!"))},
		{name: "status to ok table", src: `local v = redis.call("SET", "k", "v"); return {type(v), v.ok, v["ok"]}`,
			calls: map[string]Reply{"SET k v": rS("OK")}, want: rA(rB("table"), rB("OK"), rB("OK"))},
		{name: "status is truthy", src: `if redis.call("SET", "k", "v") then return "yes" end return "no"`,
			calls: map[string]Reply{"SET": rS("OK")}, want: rB("yes")},
		{name: "status round trip", src: `return redis.call("SET", "k", "v")`,
			calls: map[string]Reply{"SET": rS("OK")}, want: rS("OK")},
		{name: "null to false", src: `local v = redis.call("GET", "k"); return {type(v), v == false, not v}`,
			calls: map[string]Reply{"GET k": rN}, want: rA(rB("boolean"), rI(1), rI(1))},
		{name: "null round trip", src: `return redis.call("GET", "k")`,
			calls: map[string]Reply{"GET k": rN}, want: rN},
		{name: "zero kind treated as null", src: `return redis.call("GET", "k") == false`,
			calls: map[string]Reply{"GET k": {}}, want: rI(1)},
		{name: "array to table", src: `local v = redis.call("LRANGE", "l", 0, -1); return {#v, v[1], v[2], v[3]}`,
			calls: map[string]Reply{"LRANGE l 0 -1": rA(rB("a"), rI(7), rB("c"))}, want: rA(rI(3), rB("a"), rI(7), rB("c"))},
		{name: "array null element false", src: `local v = redis.call("MGET", "a", "b", "c"); return {#v, v[1], v[2] == false, v[3]}`,
			calls: map[string]Reply{"MGET a b c": rA(rB("1"), rN, rB("3"))}, want: rA(rI(3), rB("1"), rI(1), rB("3"))},
		{name: "array round trip with null", src: `return redis.call("MGET", "a", "b")`,
			calls: map[string]Reply{"MGET a b": rA(rN, rB("x"))}, want: rA(rN, rB("x"))},
		{name: "nested array", src: `local v = redis.call("X"); return {v[1][1], v[1][2], v[2][1][1], #v[3], v[4].ok}`,
			calls: map[string]Reply{"X": rA(rA(rI(1), rB("a")), rA(rA(rB("deep"))), rA(), rS("ST"))},
			want:  rA(rI(1), rB("a"), rB("deep"), rI(0), rB("ST"))},
		{name: "empty array", src: `local v = redis.call("KEYS", "*"); return {type(v), #v}`,
			calls: map[string]Reply{"KEYS *": rA()}, want: rA(rB("table"), rI(0))},
		{name: "empty array round trip", src: `return redis.call("KEYS", "*")`,
			calls: map[string]Reply{"KEYS *": rA()}, want: rA()},
		{name: "nil Elems array", src: `return #redis.call("KEYS", "*")`,
			calls: map[string]Reply{"KEYS *": {Kind: '*'}}, want: rI(0)},

		{name: "call error raises unchanged", src: `redis.call("BAD"); return "not reached"`,
			calls: map[string]Reply{"BAD": rE("WRONGTYPE Operation against a key holding the wrong kind of value")},
			want:  rE("WRONGTYPE Operation against a key holding the wrong kind of value")},
		{name: "call error aborts", src: `redis.call("SET", "a", "1"); redis.call("BAD"); redis.call("SET", "b", "2")`,
			calls: map[string]Reply{"BAD": rE("ERR nope"), "SET": rS("OK")}, want: rE("ERR nope"), wantCalls: []string{"SET a 1", "BAD"}},
		{name: "call error in nested function", src: `local function f() return redis.call("BAD") end; local x = f(); return "no"`,
			calls: map[string]Reply{"BAD": rE("ERR deep")}, want: rE("ERR deep")},
		{name: "pcall returns err table", src: `local r = redis.pcall("BAD"); return {type(r), r.err}`,
			calls: map[string]Reply{"BAD": rE("ERR nope")}, want: rA(rB("table"), rB("ERR nope"))},
		{name: "pcall err table returned", src: `return redis.pcall("BAD")`,
			calls: map[string]Reply{"BAD": rE("MYERR x")}, want: rE("MYERR x")},
		{name: "pcall success", src: `return redis.pcall("GET", "k")`,
			calls: map[string]Reply{"GET k": rB("v")}, want: rB("v")},
		{name: "lua pcall around redis.call", src: `local ok, e = pcall(redis.call, "BAD"); return {ok, type(e), e.err}`,
			calls: map[string]Reply{"BAD": rE("ERR inner")}, want: rA(rN, rB("table"), rB("ERR inner"))},
		{name: "lua pcall then rethrow", src: `local ok, e = pcall(redis.call, "BAD"); error(e)`,
			calls: map[string]Reply{"BAD": rE("ERR inner")}, want: rE("ERR inner")},
		{name: "unknown command", src: `return redis.call("NOPE")`, want: rE("ERR unknown command 'NOPE'")},
	})
}

func TestLuaToResp(t *testing.T) {
	runCases(t, []tcase{
		{name: "integer", src: `return 10`, want: rI(10)},
		{name: "truncate positive", src: `return 3.99`, want: rI(3)},
		{name: "truncate negative", src: `return -3.99`, want: rI(-3)},
		{name: "fraction only", src: `return 0.5`, want: rI(0)},
		{name: "big integer", src: `return 2^53`, want: rI(9007199254740992)},
		{name: "string", src: `return "hello"`, want: rB("hello")},
		{name: "empty string", src: `return ""`, want: rB("")},
		{name: "binary string", src: `return "a\0b\255"`, want: rB("a\x00b\xff")},
		{name: "numeric string stays bulk", src: `return "123"`, want: rB("123")},
		{name: "true", src: `return true`, want: rI(1)},
		{name: "false", src: `return false`, want: rN},
		{name: "nil", src: `return nil`, want: rN},
		{name: "nothing", src: `local x = 1`, want: rN},
		{name: "ok table", src: `return {ok = "FINE"}`, want: rS("FINE")},
		{name: "err table", src: `return {err = "ERR custom"}`, want: rE("ERR custom")},
		{name: "err wins over ok", src: `return {ok = "A", err = "B"}`, want: rE("B")},
		{name: "ok table ignores array part", src: `return {1, 2, ok = "S"}`, want: rS("S")},
		{name: "non-string ok is array", src: `return {ok = 1, "a"}`, want: rA(rB("a"))},
		{name: "status_reply", src: `return redis.status_reply("PONG")`, want: rS("PONG")},
		{name: "status_reply is table", src: `local r = redis.status_reply("X"); return {type(r), r.ok}`, want: rA(rB("table"), rB("X"))},
		{name: "error_reply", src: `return redis.error_reply("MY ERR")`, want: rE("MY ERR")},
		{name: "error_reply is table", src: `local r = redis.error_reply("E"); return {type(r), r.err}`, want: rA(rB("table"), rB("E"))},
		{name: "array", src: `return {1, "a", true, 2.7}`, want: rA(rI(1), rB("a"), rI(1), rI(2))},
		{name: "array stops at nil", src: `return {1, 2, nil, 4}`, want: rA(rI(1), rI(2))},
		{name: "array leading nil", src: `return {nil, 2}`, want: rA()},
		{name: "array false element null", src: `return {1, false, 3}`, want: rA(rI(1), rN, rI(3))},
		{name: "array ignores hash part", src: `return {1, 2, x = "ignored"}`, want: rA(rI(1), rI(2))},
		{name: "hash only is empty array", src: `return {a = 1, b = 2}`, want: rA()},
		{name: "nested array", src: `return {1, {2, {3, {}}}, {ok = "S"}, {err = "E"}}`, want: rA(rI(1), rA(rI(2), rA(rI(3), rA())), rS("S"), rE("E"))},
		{name: "array built sparse", src: `local t = {}; t[1] = "a"; t[2] = "b"; t[4] = "d"; return t`, want: rA(rB("a"), rB("b"))},
		{name: "function is null", src: `return function() end`, want: rN},
		{name: "function element", src: `return {1, tostring, 3}`, want: rA(rI(1), rN, rI(3))},
		{name: "nan", src: `return 0/0`, want: rI(-9223372036854775808)},
		{name: "only first return value", src: `return {1}, {2}`, want: rA(rI(1))},
	})
	// The self-referential case must terminate without panicking; the innermost element is an error.
	s, _ := Compile(`local t = {}; t[1] = t; return t`)
	r := s.Run(nil, nil, nil, 0)
	for r.Kind == '*' && len(r.Elems) == 1 {
		r = r.Elems[0]
	}
	if r.Kind != '-' || !strings.Contains(r.Str, "stack limit") {
		t.Fatalf("recursive table: got %v", r)
	}
}

func TestCallArguments(t *testing.T) {
	echo := func(argv []string) Reply { return rB(strings.Join(argv, "|")) }
	cases := []struct {
		name, src, want string
		isErr           bool
	}{
		{"strings", `return redis.call("SET", "k", "v")`, "SET|k|v", false},
		{"integer", `return redis.call("X", 3)`, "X|3", false},
		{"negative integer", `return redis.call("X", -12)`, "X|-12", false},
		{"zero", `return redis.call("X", 0)`, "X|0", false},
		{"float", `return redis.call("X", 1.5)`, "X|1.5", false},
		{"float 17g", `return redis.call("X", 0.1)`, "X|0.10000000000000001", false},
		{"1e15", `return redis.call("X", 1e15)`, "X|1000000000000000", false},
		{"2^53", `return redis.call("X", 2^53)`, "X|9007199254740992", false},
		{"1e20", `return redis.call("X", 1e20)`, "X|1e+20", false},
		{"third", `return redis.call("X", 1/3)`, "X|0.33333333333333331", false},
		{"integral float from arithmetic", `return redis.call("X", 10 / 2, 7 % 4)`, "X|5|3", false},
		{"numeric string unchanged", `return redis.call("X", "007", "1.50")`, "X|007|1.50", false},
		{"empty string", `return redis.call("X", "")`, "X|", false},
		{"unpack", `return redis.call("X", unpack({"a", "b", 3}))`, "X|a|b|3", false},
		{"unpack ARGV", `return redis.call("X", KEYS[1], unpack(ARGV))`, "X|k1|a1|a2", false},
		{"command from variable", `local c = "PING"; return redis.call(c)`, "PING", false},
		{"pcall args", `return redis.pcall("X", 1, "b")`, "X|1|b", false},
		{"bool", `return redis.call("X", true)`, "Lua redis() command arguments must be strings or integers", true},
		{"nil", `return redis.call("X", nil)`, "Lua redis() command arguments must be strings or integers", true},
		{"table", `return redis.call("X", {})`, "Lua redis() command arguments must be strings or integers", true},
		{"false in middle", `return redis.call("X", "a", false, "b")`, "Lua redis() command arguments must be strings or integers", true},
		{"pcall bad arg raises too", `return redis.pcall("X", {})`, "Lua redis() command arguments must be strings or integers", true},
		{"no args", `return redis.call()`, "Please specify at least one argument", true},
	}
	for _, c := range cases {
		t.Run(c.name, func(t *testing.T) {
			s, err := Compile(c.src)
			if err != nil {
				t.Fatal(err)
			}
			got := s.Run([]string{"k1"}, []string{"a1", "a2"}, echo, 1000)
			if c.isErr {
				if got.Kind != '-' || !strings.Contains(got.Str, c.want) {
					t.Fatalf("want error %q, got %v", c.want, got)
				}
			} else if !replyEq(got, rB(c.want)) {
				t.Fatalf("want %q, got %v", c.want, got)
			}
		})
	}
	// Bad arguments must not reach the host.
	called := false
	s, _ := Compile(`return redis.call("SET", "k", {})`)
	s.Run(nil, nil, func([]string) Reply { called = true; return rS("OK") }, 100)
	if called {
		t.Fatal("host called despite invalid argument")
	}
}

func TestRedisLib(t *testing.T) {
	runCases(t, []tcase{
		{name: "sha1hex", src: `return redis.sha1hex("")`, want: rB("da39a3ee5e6b4b0d3255bfef95601890afd80709")},
		{name: "sha1hex abc", src: `return redis.sha1hex("abc")`, want: rB("a9993e364706816aba3e25717850c26c9cd0d89d")},
		{name: "sha1hex number", src: `return redis.sha1hex(1) == redis.sha1hex("1")`, want: rI(1)},
		{name: "log noop", src: `redis.log(redis.LOG_WARNING, "msg"); redis.log(redis.LOG_DEBUG, "a", "b"); return "ok"`, want: rB("ok"), wantCalls: []string{}},
		{name: "log constants", src: `return {redis.LOG_DEBUG, redis.LOG_VERBOSE, redis.LOG_NOTICE, redis.LOG_WARNING}`, want: rA(rI(0), rI(1), rI(2), rI(3))},
		{name: "status_reply bad arg", src: `return redis.status_reply(1)`, wantErr: "wrong number or type of arguments"},
		{name: "error_reply bad arg", src: `return redis.error_reply()`, wantErr: "wrong number or type of arguments"},
		{name: "redis is table", src: `return type(redis) .. type(redis.call)`, want: rB("tablefunction")},
		{name: "unknown redis field", src: `return redis.nope()`, wantErr: "attempt to call field 'nope' (a nil value)"},
	})
}

func TestStepBudget(t *testing.T) {
	for _, src := range []string{
		`while true do end`,
		`repeat until false`,
		`for i = 1, 1e18 do end`,
		`for i = 10, 1, 0 do end`, // step 0 loops forever when limit <= start (Lua 5.1)
		`local function f() return f() end; while true do pcall(f) end`,
		`local t = {}; while true do t[#t + 1] = 1 end`,
		`while true do pcall(error, "x") end`,
		`local ok = pcall(function() while true do end end); return "escaped"`,
		`for k in function() return 1 end do end`,
		`local t = {} table.insert(t, -1e15, 1)`,
	} {
		s, err := Compile(src)
		if err != nil {
			t.Fatalf("%q: %v", src, err)
		}
		got := s.Run(nil, nil, nil, 20000)
		if !replyEq(got, rE("ERR script step budget exceeded")) {
			t.Errorf("%q: got %v", src, got)
		}
	}
	s, _ := Compile(`local s = 0; for i = 1, 100 do s = s + i end; return s`)
	if got := s.Run(nil, nil, nil, 1000); !replyEq(got, rI(5050)) {
		t.Fatalf("within budget: %v", got)
	}
	if got := s.Run(nil, nil, nil, 50); !replyEq(got, rE("ERR script step budget exceeded")) {
		t.Fatalf("tiny budget: %v", got)
	}
	if got := s.Run(nil, nil, nil, 0); !replyEq(got, rI(5050)) {
		t.Fatalf("default budget: %v", got)
	}
	// exponential string growth is stopped by the size cap, not by memory exhaustion
	s, _ = Compile(`local s = "xxxxxxxx"; while true do s = s .. s end`)
	if got := s.Run(nil, nil, nil, 0); got.Kind != '-' || !strings.Contains(got.Str, "not enough memory") {
		t.Fatalf("string growth: %v", got)
	}
}

func TestNoPanicsEscape(t *testing.T) {
	// host panics are converted to error replies
	s, _ := Compile(`return redis.call("X")`)
	got := s.Run(nil, nil, func([]string) Reply { panic("host exploded") }, 100)
	if got.Kind != '-' || !strings.Contains(got.Str, "host exploded") {
		t.Fatalf("host panic: %v", got)
	}
	// and are not catchable by pcall
	s, _ = Compile(`local ok = pcall(redis.call, "X"); return "swallowed"`)
	got = s.Run(nil, nil, func([]string) Reply { panic("host exploded") }, 100)
	if got.Kind != '-' {
		t.Fatalf("host panic in pcall: %v", got)
	}
	// nil callback
	s, _ = Compile(`return redis.call("X")`)
	if got = s.Run(nil, nil, nil, 100); got.Kind != '-' {
		t.Fatalf("nil callback: %v", got)
	}
	var nilScript *Script
	if got = nilScript.Run(nil, nil, nil, 1); got.Kind != '-' {
		t.Fatalf("nil script: %v", got)
	}
	// garbage inputs never panic in Compile
	for _, src := range []string{"\x00", "\xff\xfe", "[[", "]]", "--[==[", "'", `"\`, "{{{{", "}}}}", "((((", "....", "::", "1e", "0x", "a.", "a:", "a:b", "a[", "function", "local", "for", "if", "=", "~=", "#", "not", "and", "return return", "end", "until", "..", "f{", `f"`, "local function", "for i", "for i =", "for i = 1,", "for a, in", "\\", "a = function(", "a = function(...", "t = {[1", "t = {[1]", "t = {a =", "x = 1 +", "x = -", "x = #", "x = not", strings.Repeat("{", 1000), strings.Repeat("-", 1001), strings.Repeat("not ", 1000) + "1", strings.Repeat("a.", 1000) + "b = 1", strings.Repeat("do ", 500)} {
		func() {
			defer func() {
				if r := recover(); r != nil {
					t.Errorf("Compile(%q) panicked: %v", src, r)
				}
			}()
			sc, err := Compile(src)
			if err == nil {
				sc.Run(nil, nil, nil, 1000)
			} else if !strings.HasPrefix(err.Error(), "ERR Error compiling script") {
				t.Errorf("Compile(%q): error without prefix: %v", src, err)
			}
		}()
	}
	// a long flat chain is fine (no recursion per element)
	if _, err := Compile("local a = {b={}}; " + strings.Repeat("a.b.c = 1; ", 2000) + "return 1 " + strings.Repeat("+ 1 ", 2000)); err != nil {
		t.Fatalf("flat chain: %v", err)
	}
}

func TestScriptReuseAndConcurrency(t *testing.T) {
	s, err := Compile(`local n = tonumber(ARGV[1]); local t = {}; for i = 1, n do t[i] = i * i end; ARGV[1] = "mutated"; return t[n]`)
	if err != nil {
		t.Fatal(err)
	}
	var wg sync.WaitGroup
	for g := 1; g <= 8; g++ {
		wg.Add(1)
		go func(g int) {
			defer wg.Done()
			for i := 0; i < 50; i++ {
				argv := []string{string(rune('0' + g))}
				if got := s.Run(nil, argv, nil, 0); !replyEq(got, rI(int64(g*g))) {
					t.Errorf("g=%d got %v", g, got)
				}
				if argv[0] == "mutated" {
					t.Errorf("caller's argv slice was mutated")
				}
			}
		}(g)
	}
	wg.Wait()
	// globals do not leak between runs
	s2, _ := Compile(`local old = KEYS[1]; KEYS[1] = "changed"; string.extra = 1; return old`)
	for i := 0; i < 2; i++ {
		if got := s2.Run([]string{"orig"}, nil, nil, 0); !replyEq(got, rB("orig")) {
			t.Fatalf("run %d: %v", i, got)
		}
	}
	s3, _ := Compile(`return string.extra == nil`)
	if got := s3.Run(nil, nil, nil, 0); !replyEq(got, rI(1)) {
		t.Fatalf("stdlib mutation leaked: %v", got)
	}
}

func TestTableAPI(t *testing.T) {
	tb := NewTable()
	if tb.Len() != 0 || tb.Get("x") != nil || tb.Get(nil) != nil {
		t.Fatal("empty table")
	}
	tb.Set(nil, 1) // ignored
	tb.Set(1.0, "a")
	tb.Set(2, "b") // int keys are normalised
	tb.Set(int64(3), "c")
	tb.Set("k", true)
	if tb.Len() != 3 || tb.Get(2.0) != "b" || tb.Get(3) != "c" || tb.Get("k") != true {
		t.Fatalf("basic: len=%d", tb.Len())
	}
	tb.Set(5.0, "e")
	if tb.Len() != 3 {
		t.Fatalf("sparse len=%d", tb.Len())
	}
	tb.Set(4.0, "d") // joins 5 into the array part
	if tb.Len() != 5 || tb.Get(5.0) != "e" {
		t.Fatalf("migrated len=%d", tb.Len())
	}
	tb.Set(5.0, nil)
	tb.Set(4.0, nil)
	if tb.Len() != 3 {
		t.Fatalf("shrunk len=%d", tb.Len())
	}
	var order []Value
	for k, _, _ := tb.next(nil); k != nil; k, _, _ = tb.next(k) {
		order = append(order, k)
	}
	if len(order) != 4 || order[0] != 1.0 || order[3] != "k" {
		t.Fatalf("iteration order %v", order)
	}
	// hole in the middle keeps a valid border
	tb.Set(2.0, nil)
	if n := tb.Len(); tb.Get(float64(n)) == nil || tb.Get(float64(n+1)) != nil {
		t.Fatalf("border violated: %d", n)
	}
}
