package minilua

import (
	"fmt"
	"strings"
	"testing"
)

func rI(n int64) Reply    { return Reply{Kind: ':', Int: n} }
func rB(s string) Reply   { return Reply{Kind: '$', Str: s} }
func rS(s string) Reply   { return Reply{Kind: '+', Str: s} }
func rE(s string) Reply   { return Reply{Kind: '-', Str: s} }
func rA(e ...Reply) Reply { return Reply{Kind: '*', Elems: append([]Reply{}, e...)} }

var rN = Reply{Kind: '_'}

func replyEq(a, b Reply) bool {
	if a.Kind != b.Kind || a.Str != b.Str || a.Int != b.Int || len(a.Elems) != len(b.Elems) {
		return false
	}
	for i := range a.Elems {
		if !replyEq(a.Elems[i], b.Elems[i]) {
			return false
		}
	}
	return true
}

func (r Reply) String() string {
	switch r.Kind {
	case '+', '-', '$':
		return fmt.Sprintf("%c%q", r.Kind, r.Str)
	case ':':
		return fmt.Sprintf(":%d", r.Int)
	case '*':
		parts := make([]string, len(r.Elems))
		for i, e := range r.Elems {
			parts[i] = e.String()
		}
		return "[" + strings.Join(parts, " ") + "]"
	case '_':
		return "null"
	}
	return fmt.Sprintf("?%d", r.Kind)
}

// scripted is a CallFn that answers from a table keyed by the space-joined argv and records calls.
type scripted struct {
	answers map[string]Reply
	calls   []string
}

func (s *scripted) call(argv []string) Reply {
	k := strings.Join(argv, " ")
	s.calls = append(s.calls, k)
	if r, ok := s.answers[k]; ok {
		return r
	}
	if r, ok := s.answers[argv[0]]; ok {
		return r
	}
	return rE("ERR unknown command '" + argv[0] + "'")
}

type tcase struct {
	name  string
	src   string
	keys  []string
	argv  []string
	calls map[string]Reply
	want  Reply
	// wantErr, when non-empty, requires an error reply containing this substring instead of want.
	wantErr string
	// wantCalls, when non-nil, is the exact sequence of commands issued.
	wantCalls []string
}

func runCases(t *testing.T, cases []tcase) {
	t.Helper()
	for _, c := range cases {
		t.Run(c.name, func(t *testing.T) {
			s, err := Compile(c.src)
			if err != nil {
				t.Fatalf("compile: %v\n%s", err, c.src)
			}
			host := &scripted{answers: c.calls}
			got := s.Run(c.keys, c.argv, host.call, 100000)
			if c.wantErr != "" {
				if got.Kind != '-' || !strings.Contains(got.Str, c.wantErr) {
					t.Fatalf("want error containing %q, got %v\n%s", c.wantErr, got, c.src)
				}
			} else if !replyEq(got, c.want) {
				t.Fatalf("want %v, got %v\n%s", c.want, got, c.src)
			}
			if c.wantCalls != nil && strings.Join(c.wantCalls, "|") != strings.Join(host.calls, "|") {
				t.Fatalf("calls: want %q, got %q", c.wantCalls, host.calls)
			}
		})
	}
}

func TestLexer(t *testing.T) {
	runCases(t, []tcase{
		{name: "line comment", src: "-- hi\nreturn 1 -- trailing", want: rI(1)},
		{name: "block comment", src: "--[[ multi\nline ]] return 2", want: rI(2)},
		{name: "block comment level", src: "--[==[ a ]] b ]==] return 3", want: rI(3)},
		{name: "comment not long", src: "--[ not long\nreturn 4", want: rI(4)},
		{name: "dq string", src: `return "a\tb\n\\\"'"`, want: rB("a\tb\n\\\"'")},
		{name: "sq string", src: `return 'it\'s "x"'`, want: rB(`it's "x"`)},
		{name: "decimal escape", src: `return "\65\066\0673"`, want: rB("ABC3")},
		{name: "nul escape", src: `return #"a\0b"`, want: rI(3)},
		{name: "escapes abfrv", src: `return "\a\b\f\r\v"`, want: rB("\a\b\f\r\v")},
		{name: "escaped newline", src: "return 'a\\\nb'", want: rB("a\nb")},
		{name: "long string", src: "return [[a\nb]]", want: rB("a\nb")},
		{name: "long string skips first newline", src: "return [[\nab]]", want: rB("ab")},
		{name: "long string level", src: "return [==[a]]b]==]", want: rB("a]]b")},
		{name: "long string no escapes", src: `return [[a\n]]`, want: rB(`a\n`)},
		{name: "int", src: "return 42", want: rI(42)},
		{name: "decimal", src: "return 3.75 * 4", want: rI(15)},
		{name: "leading dot", src: "return .5 * 4", want: rI(2)},
		{name: "trailing dot", src: "return 5. + 1", want: rI(6)},
		{name: "exponent", src: "return 1e3 + 2E+1 + 50e-1", want: rI(1025)},
		{name: "hex", src: "return 0xFF + 0x10", want: rI(271)},
		{name: "semicolons", src: "local a = 1; local b = 2; return a + b;", want: rI(3)},
		{name: "crlf", src: "local a = 1\r\nlocal b = 2\r\nreturn a + b", want: rI(3)},
	})
	for _, bad := range []string{
		`return "abc`, "return 'a\nb'", "return [[abc", "--[[ never closed", "return 3x", "return 1..2",
		"return @", "return ~1", `return "\300"`, "x = = 1", "return 0x",
	} {
		if _, err := Compile(bad); err == nil || !strings.HasPrefix(err.Error(), "ERR Error compiling script") {
			t.Errorf("Compile(%q): want compile error, got %v", bad, err)
		}
	}
}

func TestOperators(t *testing.T) {
	runCases(t, []tcase{
		{name: "precedence mul add", src: "return 2 + 3 * 4", want: rI(14)},
		{name: "parens", src: "return (2 + 3) * 4", want: rI(20)},
		{name: "sub left assoc", src: "return 10 - 3 - 2", want: rI(5)},
		{name: "div", src: "return 7 / 2 * 2", want: rI(7)},
		{name: "mod", src: "return 7 % 3", want: rI(1)},
		{name: "mod negative", src: "return -7 % 3", want: rI(2)},
		{name: "mod negative divisor", src: "return 7 % -3", want: rI(-2)},
		{name: "mod fractional", src: "return tostring(5.5 % 2)", want: rB("1.5")},
		{name: "pow right assoc", src: "return 2 ^ 3 ^ 2", want: rI(512)},
		{name: "unary minus vs pow", src: "return -2 ^ 2", want: rI(-4)},
		{name: "pow vs unary rhs", src: "return 2 ^ -1 * 4", want: rI(2)},
		{name: "concat right assoc", src: `return "a" .. "b" .. "c"`, want: rB("abc")},
		{name: "concat lower than add", src: `return 1 + 2 .. ""`, want: rB("3")},
		{name: "concat numbers", src: `return 1 .. 2`, want: rB("12")},
		{name: "concat float", src: `return 1.5 .. ""`, want: rB("1.5")},
		{name: "concat int float", src: `return 3 .. ""`, want: rB("3")},
		{name: "concat 14g", src: `return (1/3) .. ""`, want: rB("0.33333333333333")},
		{name: "concat big", src: `return 1e15 .. "|" .. 1e14 .. "|" .. 123456789012 .. "|" .. 2^53`, want: rB("1e+15|1e+14|123456789012|9.007199254741e+15")},
		{name: "comparison", src: "return {1 < 2, 2 <= 2, 3 > 4, 4 >= 5, 1 == 1, 1 ~= 1}", want: rA(rI(1), rI(1), rN, rN, rI(1), rN)},
		{name: "string comparison", src: `return {"a" < "b", "abc" < "abd", "Z" < "a", "a" <= "a", "b" > "a", "" < "a"}`, want: rA(rI(1), rI(1), rI(1), rI(1), rI(1), rI(1))},
		{name: "cmp lower than concat", src: `return "a" .. "b" == "ab"`, want: rI(1)},
		{name: "and or values", src: `return {1 and 2, nil and 1, false or "x", nil or false, 0 and "zero", "" and "empty"}`, want: rA(rI(2))}, // conversion stops at the first nil
		{name: "and or values 2", src: `return {false or "x", 0 and "zero", "" and "empty"}`, want: rA(rB("x"), rB("zero"), rB("empty"))},
		{name: "and binds tighter than or", src: `return false and 1 or 2`, want: rI(2)},
		{name: "or and ternary", src: `return (1 == 1) and "yes" or "no"`, want: rB("yes")},
		{name: "short circuit", src: `local n = 0; local function f() n = n + 1; return true end; local _ = false and f(); _ = true or f(); return n`, want: rI(0)},
		{name: "not", src: `return {not nil, not false, not 0, not ""}`, want: rA(rI(1), rI(1), rN, rN)},
		{name: "not precedence", src: `return not 1 == 2`, want: rN},
		{name: "len string", src: `return #"hello"`, want: rI(5)},
		{name: "len table", src: `return #{1, 2, 3}`, want: rI(3)},
		{name: "len precedence", src: `return #"ab" + 1`, want: rI(3)},
		{name: "unary minus", src: `local a = 5 return -a + 2`, want: rI(-3)},
		{name: "double minus", src: `return - -3`, want: rI(3)},
		{name: "string arith coercion", src: `return "10" + 5`, want: rI(15)},
		{name: "string arith both", src: `return "3" * "4"`, want: rI(12)},
		{name: "string arith hex", src: `return "0x10" + 0`, want: rI(16)},
		{name: "string arith spaces", src: `return " 7 " + 0`, want: rI(7)},
		{name: "string unary minus", src: `return -"2"`, want: rI(-2)},
		{name: "eq no coercion", src: `return {1 == "1", "1" == "1", 0 == false, nil == false}`, want: rA(rN, rI(1), rN, rN)},
		{name: "eq tables identity", src: `local a, b = {}, {}; local c = a; return {a == b, a == c, a ~= b}`, want: rA(rN, rI(1), rI(1))},
		{name: "div zero", src: `return {tostring(1/0), tostring(-1/0), 1/0 == math.huge}`, want: rA(rB("inf"), rB("-inf"), rI(1))},
		{name: "nan neq", src: `local n = 0/0 return n ~= n`, want: rI(1)},
		{name: "truthy zero and empty", src: `if 0 and "" then return "truthy" end return "falsy"`, want: rB("truthy")},

		{name: "err arith nil", src: `local x; return x + 1`, wantErr: "attempt to perform arithmetic on local 'x' (a nil value)"},
		{name: "err arith string", src: `return "abc" + 1`, wantErr: "attempt to perform arithmetic on a string value"},
		{name: "err arith field", src: `local t = {} return t.n * 2`, wantErr: "attempt to perform arithmetic on field 'n' (a nil value)"},
		{name: "err arith upvalue", src: "local u\nlocal function f() return u + 1 end\nreturn f()", wantErr: "user_script:2: attempt to perform arithmetic on upvalue 'u' (a nil value)"},
		{name: "err concat nil", src: `local x; return "a" .. x`, wantErr: "attempt to concatenate local 'x' (a nil value)"},
		{name: "err concat bool", src: `return "a" .. true`, wantErr: "attempt to concatenate a boolean value"},
		{name: "err concat table", src: `return {} .. "x"`, wantErr: "attempt to concatenate a table value"},
		{name: "err compare mixed", src: `return 1 < "2"`, wantErr: "attempt to compare number with string"},
		{name: "err compare swapped", src: `return 1 > nil`, wantErr: "attempt to compare nil with number"},
		{name: "err compare nil", src: `return nil <= 1`, wantErr: "attempt to compare nil with number"},
		{name: "err compare tables", src: `return {} < {}`, wantErr: "attempt to compare two table values"},
		{name: "err compare bools", src: `return true >= false`, wantErr: "attempt to compare two boolean values"},
		{name: "err len", src: `return #5`, wantErr: "attempt to get length of a number value"},
		{name: "err len nil", src: `local v return #v`, wantErr: "attempt to get length of local 'v' (a nil value)"},
		{name: "err neg", src: `return -{}`, wantErr: "attempt to perform arithmetic on a table value"},
		{name: "err line numbers", src: "local a = 1\nlocal b\n\nreturn a + b", wantErr: "ERR user_script:4: attempt to perform arithmetic on local 'b'"},
	})
}

func TestStatements(t *testing.T) {
	runCases(t, []tcase{
		{name: "local multi", src: `local a, b, c = 1, 2 return {a, b, c == nil}`, want: rA(rI(1), rI(2), rI(1))},
		{name: "local extra values", src: `local a = 1, 2, 3 return a`, want: rI(1)},
		{name: "local no init", src: `local a return a == nil`, want: rI(1)},
		{name: "local shadow", src: `local a = 1; local a = a + 1; return a`, want: rI(2)},
		{name: "local self ref is outer", src: `local x = 1; do local x = x + 10; return x end`, want: rI(11)},
		{name: "multi assign", src: `local a, b; a, b = 1, 2; return a * 10 + b`, want: rI(12)},
		{name: "swap", src: `local a, b = 1, 2; a, b = b, a; return a * 10 + b`, want: rI(21)},
		{name: "assign eval order", src: `local i = 1; local t = {}; i, t[i] = i + 1, 20; return {i, t[1]}`, want: rA(rI(2), rI(20))},
		{name: "assign fewer values", src: `local a, b = 1, 2; a, b = 5; return {a, b == nil}`, want: rA(rI(5), rI(1))},
		{name: "assign field", src: `local t = {}; t.x = 1; t["y"] = 2; t[1] = 3; return t.x + t.y + t[1]`, want: rI(6)},
		{name: "assign nested field", src: `local t = {a = {b = {}}}; t.a.b.c = 7; return t.a.b.c`, want: rI(7)},
		{name: "assign ARGV", src: `ARGV[2] = "z"; ARGV[3] = "new"; return ARGV`, argv: []string{"a", "b"}, want: rA(rB("a"), rB("z"), rB("new"))},
		{name: "assign call result multi", src: `local function f() return 1, 2, 3 end; local a, b, c, d = 0, f(); return {a, b, c, d}`, want: rA(rI(0), rI(1), rI(2), rI(3))},
		{name: "assign call truncated middle", src: `local function f() return 1, 2 end; local a, b, c = f(), 10; return {a, b, c == nil}`, want: rA(rI(1), rI(10), rI(1))},
		{name: "if", src: `if ARGV[1] == "a" then return 1 end return 0`, argv: []string{"a"}, want: rI(1)},
		{name: "if else", src: `if ARGV[1] == "a" then return 1 else return 2 end`, argv: []string{"b"}, want: rI(2)},
		{name: "elseif", src: `local x = tonumber(ARGV[1]); if x < 0 then return "neg" elseif x == 0 then return "zero" elseif x < 10 then return "small" else return "big" end`, argv: []string{"5"}, want: rB("small")},
		{name: "elseif last", src: `local x = tonumber(ARGV[1]); if x < 0 then return "neg" elseif x == 0 then return "zero" elseif x < 10 then return "small" else return "big" end`, argv: []string{"50"}, want: rB("big")},
		{name: "if scope", src: `local x = 1; if true then local x = 2 end; return x`, want: rI(1)},
		{name: "numeric for", src: `local s = 0; for i = 1, 10 do s = s + i end; return s`, want: rI(55)},
		{name: "numeric for step", src: `local s = 0; for i = 1, 10, 3 do s = s * 100 + i end; return s`, want: rI(1040710)},
		{name: "numeric for down", src: `local s = ""; for i = 3, 1, -1 do s = s .. i end; return s`, want: rB("321")},
		{name: "numeric for empty", src: `local s = 0; for i = 5, 1 do s = s + 1 end; return s`, want: rI(0)},
		{name: "numeric for float", src: `local n = 0; for i = 0, 1, 0.25 do n = n + 1 end; return n`, want: rI(5)},
		{name: "numeric for string bounds", src: `local n = 0; for i = "1", "3" do n = n + i end; return n`, want: rI(6)},
		{name: "numeric for var is copy", src: `local s = 0; for i = 1, 3 do local j = i; i = 10; s = s + j end; return s`, want: rI(6)},
		{name: "numeric for bounds once", src: `local n = 3; local c = 0; for i = 1, n do n = 10; c = c + 1 end; return c`, want: rI(3)},
		{name: "for closure fresh var", src: `local fs = {}; for i = 1, 3 do fs[i] = function() return i end end; return fs[1]() * 100 + fs[2]() * 10 + fs[3]()`, want: rI(123)},
		{name: "for bad limit", src: `for i = 1, "x" do end`, wantErr: "'for' limit must be a number"},
		{name: "for bad init", src: `for i = nil, 2 do end`, wantErr: "'for' initial value must be a number"},
		{name: "for bad step", src: `for i = 1, 2, {} do end`, wantErr: "'for' step must be a number"},
		{name: "ipairs", src: `local s = ""; for i, v in ipairs({"a", "b", "c"}) do s = s .. i .. v end; return s`, want: rB("1a2b3c")},
		{name: "ipairs stops at nil", src: `local t = {1, 2}; t[4] = 4; local n = 0; for _ in ipairs(t) do n = n + 1 end; return n`, want: rI(2)},
		{name: "pairs insertion order", src: `local t = {}; t.z = 1; t.a = 2; t.m = 3; local s = ""; for k, v in pairs(t) do s = s .. k .. v end; return s`, want: rB("z1a2m3")},
		{name: "pairs array then hash", src: `local t = {x = "X", 10, 20}; local s = ""; for k, v in pairs(t) do s = s .. k .. "=" .. v .. ";" end; return s`, want: rB("1=10;2=20;x=X;")},
		{name: "pairs clear during traversal", src: `local t = {1, 2, 3, a = 1, b = 2}; for k in pairs(t) do t[k] = nil end; return next(t) == nil`, want: rI(1)},
		{name: "generic for next", src: `local t = {a = 1}; for k, v in next, t do return k .. v end`, want: rB("a1")},
		{name: "generic for custom iter", src: `local function range(n) local i = 0; return function() i = i + 1; if i <= n then return i end end end; local s = 0; for v in range(4) do s = s + v end; return s`, want: rI(10)},
		{name: "generic for not callable", src: `for k in 5 do end`, wantErr: "attempt to call a number value"},
		{name: "while", src: `local i, s = 0, 0; while i < 5 do i = i + 1; s = s + i end; return s`, want: rI(15)},
		{name: "while false", src: `while false do return 1 end; return 2`, want: rI(2)},
		{name: "repeat", src: `local i = 0; repeat i = i + 1 until i >= 3; return i`, want: rI(3)},
		{name: "repeat cond sees body local", src: `local i = 0; repeat local done = i >= 2; i = i + 1 until done; return i`, want: rI(3)},
		{name: "break while", src: `local i = 0; while true do i = i + 1; if i == 4 then break end end; return i`, want: rI(4)},
		{name: "break for", src: `local r; for i = 1, 10 do if i * i > 20 then r = i; break end end; return r`, want: rI(5)},
		{name: "break repeat", src: `local i = 0; repeat i = i + 1; if i == 2 then break end until false; return i`, want: rI(2)},
		{name: "break inner only", src: `local n = 0; for i = 1, 3 do for j = 1, 3 do if j == 2 then break end; n = n + 1 end end; return n`, want: rI(3)},
		{name: "break generic for", src: `local n = 0; for i, v in ipairs({1, 2, 3}) do n = v; if v == 2 then break end end; return n`, want: rI(2)},
		{name: "return from nested loops", src: `for i = 1, 3 do for j = 1, 3 do if i * j == 4 then return i * 10 + j end end end`, want: rI(22)},
		{name: "do block scope", src: `local a = 1; do local a = 2; a = 3 end; return a`, want: rI(1)},
		{name: "do block return", src: `do return 5 end`, want: rI(5)},
		{name: "return none", src: `return`, want: rN},
		{name: "no return", src: `local a = 1`, want: rN},
		{name: "return multi first only", src: `return 1, 2, 3`, want: rI(1)},
		{name: "return nil first", src: `return nil, 2`, want: rN},
		{name: "empty script", src: ``, want: rN},
	})
	for _, bad := range []string{
		"break", "return 1 local a = 2", "for i = 1 do end", "if x then", "local function() end", "local 1 = 2",
		"x +", "f(", "a.b:c = 1", "1 = 2", "(a) = 1 = 2", "return ...x", "for in x do end", "while true do",
		"repeat until", "function f(a,) end", "local t = {1, 2", "a b", "x", "f()\n(g)()", "local function f() return ... end",
		"goto x", "do break end", "while true do local f = function() break end end", strings.Repeat("(", 300) + "1" + strings.Repeat(")", 300),
	} {
		if _, err := Compile(bad); err == nil || !strings.HasPrefix(err.Error(), "ERR Error compiling script") {
			t.Errorf("Compile(%q): want compile error, got %v", bad, err)
		}
	}
}

func TestFunctions(t *testing.T) {
	runCases(t, []tcase{
		{name: "local function", src: `local function add(a, b) return a + b end; return add(2, 3)`, want: rI(5)},
		{name: "local function recursion", src: `local function fact(n) if n <= 1 then return 1 end; return n * fact(n - 1) end; return fact(10)`, want: rI(3628800)},
		{name: "anonymous", src: `local f = function(x) return x * 2 end; return f(21)`, want: rI(42)},
		{name: "function stat on local", src: `local f; function f(x) return x + 1 end; return f(1)`, want: rI(2)},
		{name: "function stat field", src: `local M = {}; function M.add(a, b) return a + b end; return M.add(1, 2)`, want: rI(3)},
		{name: "function stat nested field", src: `local M = {sub = {}}; function M.sub.f() return 9 end; return M.sub.f()`, want: rI(9)},
		{name: "function stat method", src: `local obj = {n = 5}; function obj:get(d) return self.n + d end; return obj:get(2)`, want: rI(7)},
		{name: "function stat global rejected", src: `function f() return 1 end; return f()`, wantErr: "Script attempted to create global variable 'f'"},
		{name: "missing args are nil", src: `local function f(a, b) return b == nil end; return f(1)`, want: rI(1)},
		{name: "extra args dropped", src: `local function f(a) return a end; return f(1, 2, 3)`, want: rI(1)},
		{name: "closure counter", src: `local function mk() local c = 0; return function() c = c + 1; return c end end; local a, b = mk(), mk(); a(); a(); b(); return a() * 10 + b()`, want: rI(32)},
		{name: "closure shared upvalue", src: `local x = 0; local function inc() x = x + 1 end; local function get() return x end; inc(); inc(); return get()`, want: rI(2)},
		{name: "closure lexical not dynamic", src: "local function f() return KEYS end\nlocal KEYS = 5\nreturn #f()", keys: []string{"a", "b"}, want: rI(2)},
		{name: "closure sees later assignment", src: `local v = 1; local f = function() return v end; v = 2; return f()`, want: rI(2)},
		{name: "upvalue through two levels", src: `local a = 1; local function f() return function() a = a + 1; return a end end; return f()() + f()()`, want: rI(5)},
		{name: "multiple returns", src: `local function f() return 1, 2, 3 end; local a, b, c = f(); return a * 100 + b * 10 + c`, want: rI(123)},
		{name: "multi return last arg expands", src: `local function f() return 1, 2 end; local function g(...) return select("#", ...) end; return g(f(), f())`, want: rI(3)},
		{name: "multi return paren truncates", src: `local function f() return 1, 2 end; local function g(...) return select("#", ...) end; return g((f()))`, want: rI(1)},
		{name: "multi return in table", src: `local function f() return 1, 2 end; return {f(), f()}`, want: rA(rI(1), rI(1), rI(2))},
		{name: "multi return in return", src: `local function f() return 1, 2 end; local function g() return 0, f() end; return {g()}`, want: rA(rI(0), rI(1), rI(2))},
		{name: "no return value is nil", src: `local function f() end; local a = f(); return a == nil`, want: rI(1)},
		{name: "no return in table", src: `local function f() end; return #{f()}`, want: rI(0)},
		{name: "varargs", src: `local function sum(...) local s = 0; for _, v in ipairs({...}) do s = s + v end; return s end; return sum(1, 2, 3, 4)`, want: rI(10)},
		{name: "varargs with named", src: `local function f(a, ...) local b, c = ...; return a * 100 + b * 10 + c end; return f(1, 2, 3)`, want: rI(123)},
		{name: "varargs count with nil", src: `local function f(...) return select("#", ...) end; return f(nil, nil)`, want: rI(2)},
		{name: "varargs empty", src: `local function f(...) return select("#", ...) end; return f()`, want: rI(0)},
		{name: "varargs first value in expr", src: `local function f(...) return (...) end; return f(7, 8)`, want: rI(7)},
		{name: "varargs forwarded", src: `local function g(a, b, c) return c end; local function f(...) return g(...) end; return f(1, 2, 3)`, want: rI(3)},
		{name: "varargs main chunk", src: `return select("#", ...)`, want: rI(0)},
		{name: "string method len", src: `local s = "hello"; return s:len()`, want: rI(5)},
		{name: "string method sub", src: `local s = "hello"; return s:sub(2, 3)`, want: rB("el")},
		{name: "string method literal", src: `return ("abc"):upper()`, want: rB("ABC")},
		{name: "string method chain", src: `return ("Hello"):lower():rep(2):len()`, want: rI(10)},
		{name: "string index field", src: `local s = "x"; return s.len == string.len`, want: rI(1)},
		{name: "call string arg", src: `local function f(s) return s .. "!" end; return f"hi"`, want: rB("hi!")},
		{name: "call table arg", src: `local function f(t) return t.a end; return f{a = 3}`, want: rI(3)},
		{name: "call chained", src: `local function f() return function() return {v = 8} end end; return f()().v`, want: rI(8)},
		{name: "immediately invoked", src: `return (function(a) return a + 1 end)(1)`, want: rI(2)},
		{name: "functions as values", src: `local t = {math.floor, math.ceil}; return t[1](1.5) * 10 + t[2](1.5)`, want: rI(12)},
		{name: "function as table key", src: `local f = function() end; local t = {}; t[f] = 1; t[math.floor] = 2; return t[f] + t[math.floor]`, want: rI(3)},
		{name: "deep recursion ok", src: `local function d(n) if n == 0 then return 0 end; return 1 + d(n - 1) end; return d(150)`, want: rI(150)},
		{name: "stack overflow", src: `local function f() return f() end; return f()`, wantErr: "stack overflow"},
		{name: "stack overflow caught", src: `local function f() return 1 + f() end; local ok, e = pcall(f); local function g() return 5 end; return {ok, g()}`, want: rA(rN, rI(5))},
		{name: "err call nil", src: `local f; f()`, wantErr: "attempt to call local 'f' (a nil value)"},
		{name: "err call field", src: `local t = {}; t.nope()`, wantErr: "attempt to call field 'nope' (a nil value)"},
		{name: "err call method", src: `local s = "x"; s:nope()`, wantErr: "attempt to call method 'nope' (a nil value)"},
		{name: "err call number", src: `local t = {5}; t[1]()`, wantErr: "attempt to call a number value"},
		{name: "err index nil", src: `local t; return t.x`, wantErr: "attempt to index local 't' (a nil value)"},
		{name: "err index nested", src: `local t = {}; return t.a.b`, wantErr: "attempt to index field 'a' (a nil value)"},
		{name: "err index number", src: `local n = 5; return n.x`, wantErr: "attempt to index local 'n' (a number value)"},
		{name: "err index assign", src: `local t; t.x = 1`, wantErr: "attempt to index local 't' (a nil value)"},
		{name: "err index key nil", src: `local t = {}; t[nil] = 1`, wantErr: "table index is nil"},
		{name: "err index key nan", src: `local t = {}; t[0/0] = 1`, wantErr: "table index is NaN"},
		{name: "read nil key ok", src: `local t = {}; return t[nil] == nil`, want: rI(1)},
	})
}

func TestTables(t *testing.T) {
	runCases(t, []tcase{
		{name: "empty", src: `return {}`, want: rA()},
		{name: "array", src: `return {1, "two", 3}`, want: rA(rI(1), rB("two"), rI(3))},
		{name: "named", src: `local t = {a = 1, b = "x"}; return {t.a, t.b, t["a"]}`, want: rA(rI(1), rB("x"), rI(1))},
		{name: "keyed", src: `local k = "dyn"; local t = {[k] = 1, [2 + 3] = "five", ["a b"] = true}; return {t.dyn, t[5], t["a b"]}`, want: rA(rI(1), rB("five"), rI(1))},
		{name: "mixed", src: `local t = {10, x = 1, 20, [100] = 5, 30}; return {#t, t[3], t.x, t[100]}`, want: rA(rI(3), rI(30), rI(1), rI(5))},
		{name: "trailing sep", src: `return #{1, 2, 3,} + #{1; 2;}`, want: rI(5)},
		{name: "nested", src: `local t = {{1, 2}, {a = {b = "deep"}}}; return {t[1][2], t[2].a.b}`, want: rA(rI(2), rB("deep"))},
		{name: "positional overrides keyed", src: `local t = {[1] = "a", "b"}; return t[1]`, want: rB("b")},
		{name: "number key normalisation", src: `local t = {}; t[1.0] = "a"; t[2] = "b"; return {t[1], t[4 / 2], #t}`, want: rA(rB("a"), rB("b"), rI(2))},
		{name: "string vs number keys distinct", src: `local t = {}; t[1] = "n"; t["1"] = "s"; return {t[1], t["1"]}`, want: rA(rB("n"), rB("s"))},
		{name: "float key", src: `local t = {}; t[1.5] = "f"; return {t[1.5], #t}`, want: rA(rB("f"), rI(0))},
		{name: "bool and table keys", src: `local k = {}; local t = {[true] = 1, [false] = 2, [k] = 3}; return t[true] + t[false] + t[k]`, want: rI(6)},
		{name: "len append", src: `local t = {}; for i = 1, 5 do t[#t + 1] = i end; return #t`, want: rI(5)},
		{name: "len reverse fill", src: `local t = {}; t[3] = 3; t[2] = 2; t[1] = 1; return #t`, want: rI(3)},
		{name: "len shrink", src: `local t = {1, 2, 3}; t[3] = nil; return #t`, want: rI(2)},
		{name: "len after clear", src: `local t = {1, 2, 3}; t[3] = nil; t[2] = nil; t[1] = nil; return #t`, want: rI(0)},
		{name: "constructor holes", src: `local t = {nil, nil, 3}; return {#t, t[3]}`, want: rA(rI(3), rI(3))},
		{name: "constructor trailing nil", src: `return #{1, nil}`, want: rI(1)},
		{name: "assign nil removes", src: `local t = {a = 1}; t.a = nil; return next(t) == nil`, want: rI(1)},
		{name: "reinsert after removal", src: `local t = {}; t.a = 1; t.b = 2; t.a = nil; t.a = 3; local s = ""; for k, v in pairs(t) do s = s .. k .. v end; return s`, want: rB("a3b2")},
		{name: "many removals compact", src: `local t = {}; for i = 1, 100 do t["k" .. i] = i end; for i = 1, 90 do t["k" .. i] = nil end; t.extra = 1; local n = 0; for k, v in pairs(t) do n = n + 1 end; return {n, t.k95, t.k5 == nil}`, want: rA(rI(11), rI(95), rI(1))},
		{name: "table reference semantics", src: `local a = {}; local b = a; b.x = 1; return a.x`, want: rI(1)},
		{name: "KEYS ARGV", src: `return {KEYS[1], KEYS[2], ARGV[1], #KEYS, #ARGV, KEYS[3] == nil}`, keys: []string{"k1", "k2"}, argv: []string{"v1"}, want: rA(rB("k1"), rB("k2"), rB("v1"), rI(2), rI(1), rI(1))},
		{name: "KEYS are strings", src: `return type(ARGV[1])`, argv: []string{"5"}, want: rB("string")},
		{name: "empty KEYS", src: `return #KEYS + #ARGV`, want: rI(0)},
	})
}

func TestGlobals(t *testing.T) {
	runCases(t, []tcase{
		{name: "read undefined", src: `return foo`, wantErr: "Script attempted to access nonexistent global variable 'foo'"},
		{name: "read undefined line", src: "local a = 1\nreturn a + bar", wantErr: "ERR user_script:2: Script attempted to access nonexistent global variable 'bar'"},
		{name: "call undefined", src: `print("x")`, wantErr: "nonexistent global variable 'print'"},
		{name: "assign new", src: `x = 1`, wantErr: "Script attempted to create global variable 'x'"},
		{name: "assign new in function", src: `local function f() leaked = 1 end; f()`, wantErr: "Script attempted to create global variable 'leaked'"},
		{name: "assign existing ok", src: `KEYS = {"z"}; return KEYS[1]`, want: rB("z")},
		{name: "local shadows global", src: `local tostring = function() return "mine" end; return tostring(1)`, want: rB("mine")},
		{name: "no metatables", src: `return setmetatable({}, {})`, wantErr: "nonexistent global variable 'setmetatable'"},
	})
}

func TestStdlib(t *testing.T) {
	runCases(t, []tcase{
		{name: "tonumber", src: `return {tonumber("10"), tonumber("  0x1f "), tonumber("1e2"), tonumber("-3.9"), tonumber(7)}`, want: rA(rI(10), rI(31), rI(100), rI(-3), rI(7))},
		{name: "tonumber fails", src: `return {tonumber("abc") == nil, tonumber("") == nil, tonumber("1 2") == nil, tonumber({}) == nil, tonumber(nil) == nil, tonumber(true) == nil, tonumber("1e") == nil, tonumber("--1") == nil}`, want: rA(rI(1), rI(1), rI(1), rI(1), rI(1), rI(1), rI(1), rI(1))},
		{name: "tonumber base", src: `return {tonumber("ff", 16), tonumber("101", 2), tonumber("zz", 36), tonumber("7", 8), tonumber("8", 8) == nil, tonumber("10", 10)}`, want: rA(rI(255), rI(5), rI(1295), rI(7), rI(1), rI(10))},
		{name: "tonumber no arg", src: `return tonumber()`, wantErr: "bad argument #1 to 'tonumber' (value expected)"},
		{name: "tostring", src: `return {tostring(1), tostring(1.5), tostring(-0.25), tostring(100), tostring(1e100), tostring(nil), tostring(true), tostring(false), tostring("s")}`, want: rA(rB("1"), rB("1.5"), rB("-0.25"), rB("100"), rB("1e+100"), rB("nil"), rB("true"), rB("false"), rB("s"))},
		{name: "tostring precision", src: `return {tostring(0.1), tostring(1/3), tostring(123456789.123), tostring(2^31), tostring(1e14), tostring(12345678901234567890)}`, want: rA(rB("0.1"), rB("0.33333333333333"), rB("123456789.123"), rB("2147483648"), rB("1e+14"), rB("1.2345678901235e+19"))},
		{name: "tostring table", src: `return tostring({}):sub(1, 7) .. tostring(function() end):sub(1, 10)`, want: rB("table: function: ")},
		{name: "type", src: `return {type(nil), type(1), type("s"), type({}), type(true), type(type), type(function() end)}`, want: rA(rB("nil"), rB("number"), rB("string"), rB("table"), rB("boolean"), rB("function"), rB("function"))},
		{name: "type no arg", src: `return type()`, wantErr: "bad argument #1 to 'type' (value expected)"},
		{name: "unpack", src: `local a, b, c = unpack({1, 2, 3}); return a * 100 + b * 10 + c`, want: rI(123)},
		{name: "unpack range", src: `return {unpack({1, 2, 3, 4, 5}, 2, 4)}`, want: rA(rI(2), rI(3), rI(4))},
		{name: "unpack from", src: `return {unpack({1, 2, 3}, 2)}`, want: rA(rI(2), rI(3))},
		{name: "unpack empty", src: `return select("#", unpack({}))`, want: rI(0)},
		{name: "unpack beyond", src: `return select("#", unpack({1}, 1, 3))`, want: rI(3)},
		{name: "unpack too many", src: `return unpack({}, 1, 1e7)`, wantErr: "too many results to unpack"},
		{name: "unpack non table", src: `return unpack(nil)`, wantErr: "bad argument #1 to 'unpack' (table expected, got nil)"},
		{name: "select", src: `return {select(2, "a", "b", "c")}`, want: rA(rB("b"), rB("c"))},
		{name: "select count", src: `return select("#", 1, nil, 3, nil)`, want: rI(4)},
		{name: "select negative", src: `return {select(-1, "a", "b", "c")}`, want: rA(rB("c"))},
		{name: "select beyond", src: `return select("#", select(5, 1, 2))`, want: rI(0)},
		{name: "select zero", src: `return select(0, 1)`, wantErr: "bad argument #1 to 'select' (index out of range)"},
		{name: "next", src: `local t = {10}; local k, v = next(t); local k2 = next(t, k); return {k, v, k2 == nil}`, want: rA(rI(1), rI(10), rI(1))},
		{name: "next empty", src: `return next({}) == nil`, want: rI(1)},
		{name: "next invalid", src: `return next({}, "nope")`, wantErr: "invalid key to 'next'"},
		{name: "pairs non table", src: `for k in pairs(nil) do end`, wantErr: "bad argument #1 to 'pairs' (table expected, got nil)"},
		{name: "ipairs non table", src: `for k in ipairs("s") do end`, wantErr: "bad argument #1 to 'ipairs' (table expected, got string)"},
		{name: "error string", src: `error("boom")`, want: rE("ERR user_script:1: boom")},
		{name: "error line", src: "local a = 1\n\nerror('bad ' .. a)", want: rE("ERR user_script:3: bad 1")},
		{name: "error level 0", src: `error("raw", 0)`, want: rE("ERR raw")},
		{name: "error table err", src: `error({err = "MYCODE custom"})`, want: rE("MYCODE custom")},
		{name: "error table no err", src: `error({})`, want: rE("ERR unknown error")},
		{name: "error nil", src: `error()`, want: rE("ERR unknown error")},
		{name: "error in function", src: "local function f()\n error('inner')\nend\nf()", want: rE("ERR user_script:2: inner")},
		{name: "pcall ok", src: `local ok, a, b = pcall(function(x) return x, x * 2 end, 4); return {ok, a, b}`, want: rA(rI(1), rI(4), rI(8))},
		{name: "pcall error", src: `local ok, e = pcall(error, "msg", 0); return {ok, e}`, want: rA(rN, rB("msg"))},
		{name: "pcall error position", src: `local ok, e = pcall(function() error("msg") end); return e`, want: rB("user_script:1: msg")},
		{name: "pcall runtime error", src: `local ok, e = pcall(function() local x; return x.y end); return {ok, e}`, want: rA(rN, rB("user_script:1: attempt to index local 'x' (a nil value)"))},
		{name: "pcall error table", src: `local ok, e = pcall(error, {code = 42}); return {ok, e.code}`, want: rA(rN, rI(42))},
		{name: "pcall non function", src: `local ok, e = pcall(5); return {ok, e}`, want: rA(rN, rB("user_script:1: attempt to call a number value"))},
		{name: "pcall nested", src: `local ok, e = pcall(function() local ok2, e2 = pcall(error, "in", 0); error(e2 .. "+out", 0) end); return e`, want: rB("in+out")},
		{name: "pcall then continue", src: `pcall(error, "x"); return "fine"`, want: rB("fine")},
		{name: "assert pass", src: `local a, b = assert(1, "m"); return {a, b}`, want: rA(rI(1), rB("m"))},
		{name: "assert fail", src: `assert(false)`, want: rE("ERR assertion failed!")},
		{name: "assert fail nil msg", src: `assert(nil, "custom msg")`, want: rE("ERR custom msg")},
		{name: "assert in pcall", src: `local ok, e = pcall(assert, 1 == 2, "nope"); return {ok, e}`, want: rA(rN, rB("nope"))},

		{name: "table.insert append", src: `local t = {}; table.insert(t, "a"); table.insert(t, "b"); return t`, want: rA(rB("a"), rB("b"))},
		{name: "table.insert pos", src: `local t = {1, 2, 3}; table.insert(t, 1, 0); table.insert(t, 3, 99); return t`, want: rA(rI(0), rI(1), rI(99), rI(2), rI(3))},
		{name: "table.insert end pos", src: `local t = {1, 2}; table.insert(t, 3, 3); return t`, want: rA(rI(1), rI(2), rI(3))},
		{name: "table.insert false", src: `local t = {}; table.insert(t, false); table.insert(t, true); return t`, want: rA(rN, rI(1))},
		{name: "table.insert wrong args", src: `table.insert({}, 1, 2, 3)`, wantErr: "wrong number of arguments to 'insert'"},
		{name: "table.insert non table", src: `table.insert(nil, 1)`, wantErr: "bad argument #1 to 'insert' (table expected, got nil)"},
		{name: "table.remove last", src: `local t = {1, 2, 3}; local r = table.remove(t); return {r, #t}`, want: rA(rI(3), rI(2))},
		{name: "table.remove pos", src: `local t = {"a", "b", "c"}; local r = table.remove(t, 1); return {r, t[1], t[2], #t}`, want: rA(rB("a"), rB("b"), rB("c"), rI(2))},
		{name: "table.remove empty", src: `local t = {}; return select("#", table.remove(t))`, want: rI(0)},
		{name: "table.remove out of range", src: `local t = {1}; return {table.remove(t, 5) == nil, #t}`, want: rA(rI(1), rI(1))},
		{name: "table.remove ARGV", src: `local e = table.remove(ARGV); return {e, #ARGV}`, argv: []string{"a", "b", "c"}, want: rA(rB("c"), rI(2))},
		{name: "table.concat", src: `return {table.concat({1, 2, "x"}), table.concat({"a", "b", "c"}, ", "), table.concat({}, "x"), table.concat({"a", "b", "c"}, "-", 2, 3)}`, want: rA(rB("12x"), rB("a, b, c"), rB(""), rB("b-c"))},
		{name: "table.concat invalid", src: `return table.concat({1, {}, 3})`, wantErr: "invalid value (at index 2) in table for 'concat'"},
		{name: "table.getn", src: `return table.getn({1, 2, 3})`, want: rI(3)},
		{name: "table.sort", src: `local t = {3, 1, 2}; table.sort(t); local u = {"b", "c", "a"}; table.sort(u, function(a, b) return a > b end); return {t[1], t[2], t[3], u[1], u[2], u[3]}`, want: rA(rI(1), rI(2), rI(3), rB("c"), rB("b"), rB("a"))},

		{name: "math floor ceil", src: `return {math.floor(3.7), math.floor(-3.2), math.ceil(3.2), math.ceil(-3.7), math.floor("2.5")}`, want: rA(rI(3), rI(-4), rI(4), rI(-3), rI(2))},
		{name: "math max min", src: `return {math.max(1, 5, 3), math.min(4, 2, 8), math.max(7), math.min(-1, -2)}`, want: rA(rI(5), rI(2), rI(7), rI(-2))},
		{name: "math abs fmod", src: `return {math.abs(-4), math.abs(4), math.fmod(7, 3), math.fmod(-7, 3)}`, want: rA(rI(4), rI(4), rI(1), rI(-1))},
		{name: "math huge", src: `return {math.huge > 1e308, -math.huge < -1e308, tostring(math.huge)}`, want: rA(rI(1), rI(1), rB("inf"))},
		{name: "math sqrt pow log", src: `return {math.sqrt(16), math.pow(2, 10), math.floor(math.log(math.exp(3)) + 0.5), math.log(1)}`, want: rA(rI(4), rI(1024), rI(3), rI(0))},
		{name: "math bad arg", src: `return math.floor("x")`, wantErr: "bad argument #1 to 'floor' (number expected, got string)"},
		{name: "math missing arg", src: `return math.max()`, wantErr: "bad argument #1 to 'max' (number expected, got no value)"},
	})
}

func TestStringLib(t *testing.T) {
	runCases(t, []tcase{
		{name: "sub", src: `local s = "hello world"; return {s:sub(1, 5), s:sub(7), s:sub(-5), s:sub(-5, -3), s:sub(0), s:sub(3, 2), s:sub(10, 100), s:sub(-100, 2)}`, want: rA(rB("hello"), rB("world"), rB("world"), rB("wor"), rB("hello world"), rB(""), rB("ld"), rB("he"))},
		{name: "sub number subject", src: `return string.sub(12345, 2, 3)`, want: rB("23")},
		{name: "len", src: `return {string.len(""), string.len("abc"), string.len(100)}`, want: rA(rI(0), rI(3), rI(3))},
		{name: "rep", src: `return {string.rep("ab", 3), string.rep("x", 0), string.rep("x", -1), ("-"):rep(2)}`, want: rA(rB("ababab"), rB(""), rB(""), rB("--"))},
		{name: "rep too big", src: `return string.rep("x", 1e12)`, wantErr: "not enough memory"},
		{name: "byte", src: `return {string.byte("A"), string.byte("ABC", 2), ("ABC"):byte(-1), select("#", string.byte("ABC", 1, 3)), select("#", string.byte("", 1))}`, want: rA(rI(65), rI(66), rI(67), rI(3), rI(0))},
		{name: "byte multi", src: `return {string.byte("AB", 1, 2)}`, want: rA(rI(65), rI(66))},
		{name: "char", src: `return {string.char(72, 105), string.char(), #string.char(0, 255)}`, want: rA(rB("Hi"), rB(""), rI(2))},
		{name: "char range", src: `return string.char(256)`, wantErr: "bad argument #1 to 'char' (invalid value)"},
		{name: "upper lower", src: `return {string.upper("aBc1é"), string.lower("AbC1")}`, want: rA(rB("ABC1é"), rB("abc1"))},
		{name: "reverse", src: `return {string.reverse("abc"), (""):reverse()}`, want: rA(rB("cba"), rB(""))},
		{name: "find plain literal", src: `return {string.find("hello world", "wor")}`, want: rA(rI(7), rI(9))},
		{name: "find missing", src: `return string.find("hello", "xyz") == nil`, want: rI(1)},
		{name: "find init", src: `return {string.find("abcabc", "bc", 3)}`, want: rA(rI(5), rI(6))},
		{name: "find negative init", src: `return {string.find("abcabc", "bc", -2)}`, want: rA(rI(5), rI(6))},
		{name: "find plain flag", src: `return {string.find("a.b*c", ".b*", 1, true)}`, want: rA(rI(2), rI(4))},
		{name: "find empty", src: `return {string.find("abc", "")}`, want: rA(rI(1), rI(0))},
		{name: "find empty beyond", src: `return {string.find("abc", "", 10)}`, want: rA(rI(4), rI(3))},
		{name: "find method", src: `local s = "key:123"; local i = s:find(":", 1, true); return s:sub(i + 1)`, want: rB("123")},
		{name: "find magic unsupported", src: `return string.find("abc", "a.c")`, wantErr: "unsupported"},
		{name: "format d", src: `return string.format("%d|%5d|%-5d|%05d|%+d|%d", 42, 42, 42, 42, 42, -7)`, want: rB("42|   42|42   |00042|+42|-7")},
		{name: "format d truncates", src: `return string.format("%d %d", 3.99, "12")`, want: rB("3 12")},
		{name: "format s", src: `return string.format("%s|%5s|%-5s|%.2s|%s", "abc", "ab", "ab", "abcdef", 12)`, want: rB("abc|   ab|ab   |ab|12")},
		{name: "format f", src: `return string.format("%f|%.2f|%8.3f|%.0f|%-8.1f|", 1.5, 3.14159, 2.5, 2.5, 1.25)`, want: rB("1.500000|3.14|   2.500|2|1.2     |")},
		{name: "format g", src: `return string.format("%g|%g|%g|%g|%.3g|%.14g", 100000, 1000000, 0.0001, 0.00001, 3.14159, 0.1)`, want: rB("100000|1e+06|0.0001|1e-05|3.14|0.1")},
		{name: "format e", src: `return string.format("%e|%.2E", 12345.678, 0.00012)`, want: rB("1.234568e+04|1.20E-04")},
		{name: "format x", src: `return string.format("%x|%X|%04x|%#x|%o", 255, 255, 10, 255, 8)`, want: rB("ff|FF|000a|0xff|10")},
		{name: "format x negative", src: `return string.format("%x", -1)`, want: rB("ffffffffffffffff")},
		{name: "format percent", src: `return string.format("100%% %s", "ok")`, want: rB("100% ok")},
		{name: "format c q i u", src: `return string.format("%c%c|%q|%i|%u", 72, 105, 'a"b', 5, 6)`, want: rB(`Hi|"a\"b"|5|6`)},
		{name: "format inf", src: `return string.format("%f|%5.1f|%g", 1/0, -1/0, 0/0)`, want: rB("inf| -inf|nan")},
		{name: "format no args", src: `return string.format("plain")`, want: rB("plain")},
		{name: "format method", src: `return ("%s=%d"):format("k", 1)`, want: rB("k=1")},
		{name: "format missing arg", src: `return string.format("%d")`, wantErr: "bad argument #2 to 'format' (number expected, got no value)"},
		{name: "format bad type", src: `return string.format("%d", "x")`, wantErr: "bad argument #2 to 'format' (number expected, got string)"},
		{name: "format s nil", src: `return string.format("%s", nil)`, wantErr: "bad argument #2 to 'format' (string expected, got nil)"},
		{name: "format bad option", src: `return string.format("%y", 1)`, wantErr: "invalid option '%y' to 'format'"},
		{name: "format trailing percent", src: `return string.format("50%")`, wantErr: "invalid option"},
		{name: "bad string arg", src: `return string.len({})`, wantErr: "bad argument #1 to 'len' (string expected, got table)"},
		{name: "bad int arg", src: `return string.sub("abc", "x")`, wantErr: "bad argument #2 to 'sub' (number expected, got string)"},
	})
}
