// Package mon is the bookkeeping shared by every property driver: seeds and
// tiers, case fingerprints, observations, violations with replay files,
// known-findings matching and the evidence file.
package mon

import (
	"encoding/json"
	"fmt"
	"hash/fnv"
	"math/rand"
	"os"
	"path/filepath"
	"regexp"
	"sort"
	"strconv"
	"strings"
	"sync"
	"sync/atomic"
	"time"
)

// Root is the /verif directory (overridable for tests of the harness itself).
var Root = func() string {
	if r := os.Getenv("VERIF_ROOT"); r != "" {
		return r
	}
	return "/verif"
}()

var clock atomic.Int64

// Stamp returns the next value of the single logical clock shared by drivers and fakeredis.
func Stamp() int64 { return clock.Add(1) }

// TB is the subset of testing.TB the monitor needs.
type TB interface {
	Helper()
	Logf(format string, args ...any)
	Errorf(format string, args ...any)
	Fatalf(format string, args ...any)
	Name() string
}

// Finding is one entry of /verif/known_findings.json.
type Finding struct {
	Property string `json:"property"`
	ID       string `json:"id"`
	Status   string `json:"status"` // "known" or "fixed"
	What     string `json:"what"`
	Class    string `json:"class"`     // violation class the entry applies to
	KeyRegex string `json:"key_regex"` // anchored regexp over the violation key (specific input / call site / history shape)
	Commit   string `json:"commit,omitempty"`
	re       *regexp.Regexp
}

func loadFindings() []Finding {
	b, err := os.ReadFile(filepath.Join(Root, "known_findings.json"))
	if err != nil {
		return nil
	}
	var fs []Finding
	if err := json.Unmarshal(b, &fs); err != nil {
		panic("known_findings.json: " + err.Error())
	}
	for i := range fs {
		fs[i].re = regexp.MustCompile("^(?:" + fs[i].KeyRegex + ")$")
	}
	return fs
}

// Run is one execution of one property's check.
type Run struct {
	t     TB
	Prop  string
	Tier  string
	Seed  int64
	Level string
	rule  string

	start       time.Time
	mu          sync.Mutex
	evals       int64
	fps         map[uint64]struct{}
	samples     []any
	obs         map[string]int64
	violations  int
	vkeys       map[string]struct{}
	knownHits   map[string]int
	inconcl     map[string]int
	assumptions []string
	exhaustive  bool
	extra       map[string]any
	findings    []Finding
	minDistinct int
	finished    bool
}

// Start begins a run. level is "exploration" or "fault_enumeration"; rule describes
// how cases are generated and what makes one distinct and non-trivial.
func Start(t TB, prop, level, rule string) *Run {
	tier := os.Getenv("VERIF_TIER")
	if tier != "thorough" {
		tier = "quick"
	}
	seed := int64(1)
	if s := os.Getenv("VERIF_SEED"); s != "" {
		if v, err := strconv.ParseInt(s, 10, 64); err == nil {
			seed = v
		}
	}
	return &Run{t: t, Prop: prop, Tier: tier, Seed: seed, Level: level, rule: rule, start: time.Now(),
		fps: map[uint64]struct{}{}, obs: map[string]int64{}, vkeys: map[string]struct{}{}, knownHits: map[string]int{},
		inconcl: map[string]int{}, extra: map[string]any{}, findings: loadFindings(), minDistinct: 2}
}

func (r *Run) Quick() bool { return r.Tier == "quick" }

// N picks the case count for the tier.
func (r *Run) N(quick, thorough int) int {
	if r.Quick() {
		return quick
	}
	return thorough
}

// Rand returns a deterministic PRNG for a named stream of this run.
func (r *Run) Rand(stream string) *rand.Rand {
	h := fnv.New64a()
	h.Write([]byte(r.Prop))
	h.Write([]byte{0})
	h.Write([]byte(stream))
	return rand.New(rand.NewSource(int64(h.Sum64()) ^ (r.Seed * 0x1E3779B97F4A7C15)))
}

// Case counts one evaluated case; fp is its fingerprint, counted as distinct non-trivial when nontrivial is true.
func (r *Run) Case(fp string, nontrivial bool) {
	r.mu.Lock()
	r.evals++
	if nontrivial {
		h := fnv.New64a()
		h.Write([]byte(fp))
		r.fps[h.Sum64()] = struct{}{}
	}
	r.mu.Unlock()
}

// Evals adds n evaluations without fingerprints.
func (r *Run) Evals(n int) {
	r.mu.Lock()
	r.evals += int64(n)
	r.mu.Unlock()
}

// Sample keeps up to 6 written-out cases for the evidence file.
func (r *Run) Sample(v any) {
	r.mu.Lock()
	if len(r.samples) < 6 {
		r.samples = append(r.samples, v)
	}
	r.mu.Unlock()
}

func (r *Run) Observe(kind string, n int64) {
	r.mu.Lock()
	r.obs[kind] += n
	r.mu.Unlock()
}

func (r *Run) Observed(kind string) int64 {
	r.mu.Lock()
	defer r.mu.Unlock()
	return r.obs[kind]
}

func (r *Run) Assume(s ...string) {
	r.mu.Lock()
	r.assumptions = append(r.assumptions, s...)
	r.mu.Unlock()
}
func (r *Run) Exhaustive()             { r.exhaustive = true }
func (r *Run) Extra(k string, v any)   { r.mu.Lock(); r.extra[k] = v; r.mu.Unlock() }
func (r *Run) Inconclusive(why string) { r.mu.Lock(); r.inconcl[why]++; r.mu.Unlock() }

// Violations returns the number of unlisted violations so far.
func (r *Run) Violations() int { r.mu.Lock(); defer r.mu.Unlock(); return r.violations }

// Violation reports a violation. class names the kind of failure, key identifies
// the specific input / call site / history shape (matched against known findings),
// witness is stored in the replay file. Identical (class,key) pairs are reported once.
func (r *Run) Violation(class, key string, witness any) {
	r.mu.Lock()
	defer r.mu.Unlock()
	for i := range r.findings {
		f := &r.findings[i]
		if f.Property == r.Prop && f.Status == "known" && f.Class == class && f.re.MatchString(key) {
			if r.knownHits[f.ID] == 0 {
				fmt.Printf("KNOWN-FINDING: property=%s %s [%s] e.g. %s\n", r.Prop, f.What, f.ID, trunc(key, 200))
			}
			r.knownHits[f.ID]++
			return
		}
	}
	id := class + "|" + key
	if _, dup := r.vkeys[id]; dup {
		return
	}
	r.vkeys[id] = struct{}{}
	r.violations++
	if r.violations > 25 {
		if r.violations <= 400 {
			fmt.Printf("VIOLATION-MORE property=%s class=%s key=%s\n", r.Prop, class, trunc(key, 300))
		}
		return
	}
	dir := filepath.Join(Root, "replays")
	_ = os.MkdirAll(dir, 0o755)
	path := filepath.Join(dir, fmt.Sprintf("%s-%s-seed%d-%d.json", r.Prop, r.Tier, r.Seed, r.violations))
	b, err := json.MarshalIndent(map[string]any{
		"property": r.Prop, "tier": r.Tier, "seed": r.Seed, "class": class, "key": key, "witness": witness,
		"test": r.t.Name(),
	}, "", " ")
	if err != nil {
		b = []byte(fmt.Sprintf("{\"property\":%q,\"class\":%q,\"key\":%q,\"witness\":%q}", r.Prop, class, key, fmt.Sprint(witness)))
	}
	_ = os.WriteFile(path, b, 0o644)
	fmt.Printf("VIOLATION property=%s replay=%s\n", r.Prop, path)
	fmt.Printf("  class=%s key=%s\n", class, trunc(key, 400))
	if wb, err := json.Marshal(witness); err == nil {
		fmt.Printf("  witness=%s\n", trunc(string(wb), 600))
	}
}

func trunc(s string, n int) string {
	if len(s) > n {
		return s[:n] + "…"
	}
	return s
}

// Finish writes the evidence file and fails the test on violations or when nothing was observed.
func (r *Run) Finish() {
	r.mu.Lock()
	if r.finished {
		r.mu.Unlock()
		return
	}
	r.finished = true
	distinct := len(r.fps)
	ev := map[string]any{
		"property_id": r.Prop,
		"tier":        r.Tier,
		"seed":        r.Seed,
		"level":       r.Level,
		"wall_s":      time.Since(r.start).Seconds(),
		"violations":  r.violations,
		"assumptions": append([]string{}, r.assumptions...),
	}
	cov := map[string]any{
		"evaluations":         r.evals,
		"distinct_nontrivial": distinct,
		"rule":                r.rule,
		"samples":             r.samples,
		"observations":        r.obs,
	}
	if r.exhaustive {
		cov["exhaustive"] = true
	}
	if len(r.inconcl) > 0 {
		cov["inconclusive"] = r.inconcl
	}
	if len(r.knownHits) > 0 {
		cov["known_findings_hit"] = r.knownHits
	}
	for k, v := range r.extra {
		cov[k] = v
	}
	ev["coverage"] = cov
	violations, evals, nsamples := r.violations, r.evals, len(r.samples)
	// fixed entries never suppress; report the listed known findings that were NOT reproduced, for information only
	var notSeen []string
	for _, f := range r.findings {
		if f.Property == r.Prop && f.Status == "known" && r.knownHits[f.ID] == 0 {
			notSeen = append(notSeen, f.ID)
		}
	}
	sort.Strings(notSeen)
	if len(notSeen) > 0 {
		cov["known_findings_not_reproduced"] = notSeen
	}
	r.mu.Unlock()

	b, err := json.MarshalIndent(ev, "", " ")
	if err != nil {
		r.t.Fatalf("evidence marshal: %v", err)
	}
	dir := filepath.Join(Root, "evidence")
	if d := os.Getenv("VERIF_EVIDENCE_DIR"); d != "" { // mutation rehearsal against a scratch copy: keep /verif/evidence for runs against /repo
		dir = d
	}
	_ = os.MkdirAll(dir, 0o755)
	if err := os.WriteFile(filepath.Join(dir, r.Prop+".json"), b, 0o644); err != nil {
		r.t.Fatalf("evidence write: %v", err)
	}
	fmt.Printf("SUMMARY property=%s tier=%s seed=%d evaluations=%d distinct_nontrivial=%d violations=%d obs=%s\n",
		r.Prop, r.Tier, r.Seed, evals, distinct, violations, obsString(r.obs))
	if violations > 0 {
		r.t.Errorf("%d violation(s)", violations)
		return
	}
	if evals == 0 || distinct < r.minDistinct || nsamples == 0 {
		fmt.Printf("BROKEN property=%s observed nothing (evaluations=%d distinct=%d samples=%d)\n", r.Prop, evals, distinct, nsamples)
		r.t.Errorf("check observed nothing")
	}
}

func obsString(m map[string]int64) string {
	ks := make([]string, 0, len(m))
	for k := range m {
		ks = append(ks, k)
	}
	sort.Strings(ks)
	var sb strings.Builder
	for i, k := range ks {
		if i > 0 {
			sb.WriteByte(',')
		}
		fmt.Fprintf(&sb, "%s=%d", k, m[k])
	}
	return sb.String()
}

// Require fails the run as broken (not a violation) when an expected kind of event was never observed.
func (r *Run) Require(kinds ...string) {
	for _, k := range kinds {
		if r.Observed(k) == 0 {
			fmt.Printf("BROKEN property=%s monitor never observed %q\n", r.Prop, k)
			r.t.Errorf("monitor never observed %q", k)
		}
	}
}
