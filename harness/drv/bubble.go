package drv

import (
	"fmt"
	"os"
	"runtime"
	"strings"
	"testing"
	"testing/synctest"
	"time"
)

// BubbleLimit is the virtual-time budget of one bubble.
var BubbleLimit = 72 * time.Hour

// Bubble runs fn inside a synctest bubble (virtual time; every goroutine started inside belongs to it).
// If the bubble deadlocks - some goroutine of the bubble stays durably blocked after fn returned, or every
// goroutine including fn is blocked - it returns synctest's message and the stacks of the bubble's goroutines.
// This is the deterministic hang / leak detector of DESIGN §1.6: no wall-clock is involved.
func Bubble(t *testing.T, fn func()) (deadlock string, stacks string) {
	defer func() {
		if p := recover(); p != nil {
			msg := fmt.Sprint(p)
			if !strings.Contains(msg, "deadlock") {
				panic(p)
			}
			deadlock = msg
			buf := make([]byte, 4<<20)
			buf = buf[:runtime.Stack(buf, true)]
			// keep the goroutines of THIS bubble (the highest bubble number in the dump; older leaked bubbles may linger)
			var keep []string
			cur := -1
			gs := strings.Split(string(buf), "\n\n")
			for _, g := range gs {
				if n := bubbleID(g); n > cur {
					cur = n
				}
			}
			for _, g := range gs {
				if bubbleID(g) == cur && cur >= 0 {
					keep = append(keep, g)
				}
			}
			stacks = strings.Join(keep, "\n\n")
		}
	}()
	synctest.Test(t, func(t *testing.T) {
		// Runaway guard. If fn blocks for ever while some periodic timer (a keep-alive ping, say) keeps firing, the
		// bubble is never idle: virtual time races ahead and the process would spin until the outer watchdog. After
		// BubbleLimit of VIRTUAL time the guard dumps the bubble's goroutines and ends the process; check.sh reports
		// the crash with the log as witness. This is decided on virtual time, not on the wall clock.
		done := make(chan struct{})
		go func() {
			tm := time.NewTimer(BubbleLimit)
			defer tm.Stop()
			select {
			case <-done:
			case <-tm.C:
				buf := make([]byte, 8<<20)
				buf = buf[:runtime.Stack(buf, true)]
				fmt.Fprintf(os.Stderr, "BUBBLE-RUNAWAY: the bubble's main goroutine is still blocked after %v of virtual time; rueidis frames: %v\n%s\n", BubbleLimit, RueidisFrames(string(buf)), buf)
				panic("drv.Bubble: virtual-time watchdog: main bubble goroutine blocked for ever (see BUBBLE-RUNAWAY above)")
			}
		}()
		fn()
		close(done)
	})
	return "", ""
}

// BubbleGuarded is Bubble for histories that can run into synctest's blind spot: a goroutine waiting for a sync.Mutex is
// not durably blocked, so while one waits for a mutex whose holder sleeps on a timer (rueidis's sentinel client closes a
// connection - up to one second - under its mutex while a refresh wants the same mutex) the bubble's clock stands still
// for ever and the bubble never ends. After wall of REAL time without the bubble ending the goroutines are dumped: if one
// of this bubble's goroutines is waiting for a mutex, the bubble is abandoned (its goroutines stay parked, later bubbles
// are unaffected) and frozen is "mutex-wait" - a limit of the harness, never a verdict; otherwise frozen is "unknown"
// and the dump is returned in stacks. The wall clock decides nothing about the property.
func BubbleGuarded(t *testing.T, fn func(), wall time.Duration) (deadlock, stacks, frozen string) {
	type out struct{ dl, st string }
	ch := make(chan out, 1)
	go func() {
		dl, st := Bubble(t, fn)
		ch <- out{dl, st}
	}()
	select {
	case o := <-ch:
		return o.dl, o.st, ""
	case <-time.After(wall):
	}
	buf := make([]byte, 16<<20)
	buf = buf[:runtime.Stack(buf, true)]
	cur := -1
	gs := strings.Split(string(buf), "\n\n")
	for _, g := range gs {
		if n := bubbleID(g); n > cur {
			cur = n
		}
	}
	var keep []string
	mutex := false
	for _, g := range gs {
		if bubbleID(g) == cur && cur >= 0 {
			keep = append(keep, g)
			if head, _, _ := strings.Cut(g, "\n"); strings.Contains(head, "[sync.Mutex.Lock") || strings.Contains(head, "[sync.RWMutex.") {
				mutex = true
			}
		}
	}
	if mutex {
		return "", strings.Join(keep, "\n\n"), "mutex-wait"
	}
	return "", strings.Join(keep, "\n\n"), "unknown"
}

// RueidisFrames extracts, from a goroutine dump, the goroutines that are inside rueidis code, one summary line
// each: the innermost rueidis function and its position (works for /repo and for scratch copies).
func RueidisFrames(stacks string) []string {
	var out []string
	for _, g := range strings.Split(stacks, "\n\n") {
		lines := strings.Split(g, "\n")
		for i, l := range lines {
			if strings.HasPrefix(l, "github.com/redis/rueidis") && i+1 < len(lines) {
				fn := l
				if j := strings.LastIndexByte(fn, '('); j > 0 {
					fn = fn[:j]
				}
				pos := strings.TrimSpace(lines[i+1])
				if j := strings.IndexByte(pos, ' '); j > 0 {
					pos = pos[:j]
				}
				if j := strings.LastIndexByte(pos, '/'); j >= 0 {
					pos = pos[j+1:]
				}
				out = append(out, fn+" @ "+pos)
				break
			}
		}
	}
	return out
}

// BubbleRT is Bubble with a real-time inspection trigger for code that busy-waits. A goroutine that spins (rueidis's
// connection teardown polls with runtime.Gosched until every caller is gone) is always runnable, so virtual time can
// never advance and neither synctest's deadlock detector nor the virtual-time guard can fire. When the bubble has not
// finished after limit of REAL time, three goroutine dumps are taken one second apart; if the same goroutines of this
// bubble are running/runnable inside rueidis in all of them while the bubble's main goroutine sits in a virtual sleep,
// their frames are returned in frozen: the verdict rests on that observed structure, the wall clock only triggers the
// inspection. The bubble is then abandoned (it cannot be cancelled).
func BubbleRT(t *testing.T, limit time.Duration, fn func()) (deadlock, stacks string, frozen []string) {
	type res struct{ dl, st string }
	done := make(chan res, 1)
	go func() {
		dl, st := Bubble(t, fn)
		done <- res{dl, st}
	}()
	select {
	case r := <-done:
		return r.dl, r.st, nil
	case <-time.After(limit):
	}
	var common map[string]int
	var last string
	for i := 0; i < 3; i++ {
		buf := make([]byte, 8<<20)
		buf = buf[:runtime.Stack(buf, true)]
		last = string(buf)
		cur := map[string]int{}
		for _, g := range strings.Split(last, "\n\n") {
			head, _, _ := strings.Cut(g, "\n")
			if !strings.Contains(head, "synctest bubble") || !(strings.Contains(head, "[running") || strings.Contains(head, "[runnable")) {
				continue
			}
			for _, f := range RueidisFrames(g) {
				cur[f]++
			}
		}
		if common == nil {
			common = cur
		} else {
			for f := range common {
				if cur[f] == 0 {
					delete(common, f)
				}
			}
		}
		select {
		case r := <-done:
			return r.dl, r.st, nil
		case <-time.After(time.Second):
		}
	}
	for f := range common {
		frozen = append(frozen, f)
	}
	if len(frozen) == 0 {
		frozen = []string{"(no rueidis goroutine was runnable in all samples)"}
	}
	return "", last, frozen
}

func bubbleID(g string) int {
	head, _, _ := strings.Cut(g, "\n")
	i := strings.Index(head, "synctest bubble ")
	if i < 0 {
		return -1
	}
	n := 0
	for _, c := range head[i+len("synctest bubble "):] {
		if c < '0' || c > '9' {
			break
		}
		n = n*10 + int(c-'0')
	}
	return n
}
