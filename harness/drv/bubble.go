package drv

import (
	"fmt"
	"runtime"
	"strings"
	"testing"
	"testing/synctest"
)

// Bubble runs fn inside a synctest bubble (virtual time; every goroutine started inside belongs to it).
// If the bubble deadlocks - some goroutine of the bubble stays durably blocked after fn returned, or every
// goroutine including fn is blocked - it returns synctest's message and the stacks of the bubble's goroutines.
// This is the deterministic hang / leak detector of DESIGN §1.6: no wall-clock is involved.
func Bubble(t *testing.T, fn func()) (deadlock string, stacks string) {
	defer func() {
		if p := recover(); p != nil {
			msg := fmt.Sprint(p)
			if !strings.Contains(msg, "deadlock") {
				panic(p)
			}
			deadlock = msg
			buf := make([]byte, 4<<20)
			buf = buf[:runtime.Stack(buf, true)]
			var keep []string
			for _, g := range strings.Split(string(buf), "\n\n") {
				if strings.Contains(g, "synctest bubble") || strings.Contains(g, "bubble ") {
					keep = append(keep, g)
				}
			}
			stacks = strings.Join(keep, "\n\n")
		}
	}()
	synctest.Test(t, func(t *testing.T) { fn() })
	return "", ""
}

// RueidisFrames extracts, from a goroutine dump, the goroutines that are parked inside rueidis code
// (a frame under /repo), one summary line each: the innermost /repo frame.
func RueidisFrames(stacks string) []string {
	var out []string
	for _, g := range strings.Split(stacks, "\n\n") {
		lines := strings.Split(g, "\n")
		for i, l := range lines {
			if strings.HasPrefix(strings.TrimSpace(l), "/repo/") && i > 0 {
				out = append(out, strings.TrimSpace(lines[i-1])+" @ "+strings.TrimSpace(l))
				break
			}
		}
	}
	return out
}
