// Package drv holds helpers shared by the property drivers.
package drv

import (
	"bufio"
	"bytes"
	"context"
	"crypto/tls"
	"fmt"
	"io"
	"math/rand"
	"net"
	"os"
	"os/exec"
	"strings"
	"time"

	"github.com/redis/rueidis"
	"verifh/fakeredis"
	"verifh/resp"
)

// ChunkReader delivers its data in pieces of the given sizes (cycled).
type ChunkReader struct {
	Data  []byte
	Sizes []int
	i     int
}

func (c *ChunkReader) Read(p []byte) (int, error) {
	if len(c.Data) == 0 {
		return 0, io.EOF
	}
	n := c.Sizes[c.i%len(c.Sizes)]
	c.i++
	if n <= 0 {
		n = 1
	}
	if n > len(p) {
		n = len(p)
	}
	if n > len(c.Data) {
		n = len(c.Data)
	}
	copy(p, c.Data[:n])
	c.Data = c.Data[n:]
	return n, nil
}

func SplitPlan(r *rand.Rand, k int) []int {
	switch k % 6 {
	case 0:
		return []int{1 << 20}
	case 1:
		return []int{1}
	case 2:
		return []int{2}
	case 3:
		return []int{3, 7, 1}
	case 4:
		return []int{13}
	default:
		n := 1 + r.Intn(8)
		s := make([]int, n)
		for i := range s {
			s[i] = 1 + r.Intn(40)
		}
		return s
	}
}

// ExpectNode is the VerifNode a faithful decoder must produce for v.
func ExpectNode(v resp.V) rueidis.VerifNode {
	n := rueidis.VerifNode{Typ: v.T}
	if v.Attr != nil {
		a := rueidis.VerifNode{Typ: '|', Values: make([]rueidis.VerifNode, len(v.Attr))}
		for i, e := range v.Attr {
			a.Values[i] = ExpectNode(e)
		}
		n.Attrs = &a
	}
	if v.Null2 {
		n.Typ = '_'
		return n
	}
	switch v.T {
	case '*', '%', '~', '>':
		n.Values = make([]rueidis.VerifNode, len(v.A))
		for i, e := range v.A {
			n.Values[i] = ExpectNode(e)
		}
	case ':', '#':
		n.Int = v.I
	case '_':
	default:
		n.Str = v.S
	}
	return n
}

func NodeEqual(a, b rueidis.VerifNode) bool {
	if a.Typ != b.Typ || a.Str != b.Str || a.Int != b.Int || len(a.Values) != len(b.Values) {
		return false
	}
	if (a.Attrs == nil) != (b.Attrs == nil) {
		return false
	}
	if a.Attrs != nil && !NodeEqual(*a.Attrs, *b.Attrs) {
		return false
	}
	for i := range a.Values {
		if !NodeEqual(a.Values[i], b.Values[i]) {
			return false
		}
	}
	return true
}

func NodeString(n rueidis.VerifNode) string {
	var sb strings.Builder
	var w func(n rueidis.VerifNode)
	w = func(n rueidis.VerifNode) {
		if n.Attrs != nil {
			sb.WriteString("|")
			w(*n.Attrs)
		}
		fmt.Fprintf(&sb, "%c", n.Typ)
		switch {
		case n.Values != nil:
			sb.WriteString("[")
			for i, v := range n.Values {
				if i > 0 {
					sb.WriteString(" ")
				}
				w(v)
			}
			sb.WriteString("]")
		case n.Typ == ':' || n.Typ == '#':
			fmt.Fprintf(&sb, "%d", n.Int)
		default:
			fmt.Fprintf(&sb, "%q", n.Str)
		}
	}
	w(n)
	return sb.String()
}

func DecodeAll(data []byte, sizes []int, bufsize int) ([]rueidis.VerifNode, error) {
	r := bufio.NewReaderSize(&ChunkReader{Data: data, Sizes: sizes}, bufsize)
	var out []rueidis.VerifNode
	for {
		m, err := rueidis.VerifReadNextMessage(r)
		if err != nil {
			if err == io.EOF {
				return out, nil
			}
			return out, err
		}
		out = append(out, rueidis.VerifDump(m))
	}
}

// ChildEnv is set in re-executed child processes (crash isolation, DESIGN §1.8).
const ChildEnv = "VERIF_CHILD"

// RunChild re-executes this test binary running only test name with the given env, returning combined output.
func RunChild(test string, env map[string]string, memLimitMB int) (string, error) {
	cmd := exec.Command(os.Args[0], "-test.run", "^"+test+"$", "-test.count=1", "-test.timeout=0")
	cmd.Env = append(os.Environ(), ChildEnv+"=1", fmt.Sprintf("GOMEMLIMIT=%dMiB", memLimitMB))
	for k, v := range env {
		cmd.Env = append(cmd.Env, k+"="+v)
	}
	var out bytes.Buffer
	cmd.Stdout = &out
	cmd.Stderr = &out
	err := cmd.Run()
	return out.String(), err
}

func IsChild() bool { return os.Getenv(ChildEnv) != "" }

func Hexs(b []byte) string { return fmt.Sprintf("%q", b) }

// Trunc returns at most n bytes of b.
func Trunc(b []byte, n int) []byte {
	if len(b) > n {
		return b[:n]
	}
	return b
}

// Tail returns at most the last n bytes of s.
func Tail(s string, n int) string {
	if len(s) > n {
		return s[len(s)-n:]
	}
	return s
}

// Option returns a ClientOption whose connections go to the fake server.
//
// Outside synctest bubbles (real time) rueidis's own wall-clock limits - Dialer.Timeout (default 5 s, bounds the dial and
// the handshake) and ConnWriteTimeout (default 10 s, also the PONG deadline of the keep-alive ping) - are raised to two
// hours: on a loaded machine they fire although nothing is wrong, break the connection and hand "i/o timeout" /
// "context deadline exceeded" to callers that set no deadline, which no oracle may mistake for a lost reply. Inside a
// bubble time is virtual and load-independent, so the defaults stay. Drivers that set their own values override these.
func Option(s *fakeredis.Server, addrs ...string) rueidis.ClientOption {
	opt := rueidis.ClientOption{
		InitAddress: addrs,
		DialCtxFn: func(ctx context.Context, addr string, _ *net.Dialer, _ *tls.Config) (net.Conn, error) {
			return s.Dial(ctx, addr)
		},
	}
	if !InBubble() {
		opt.ConnWriteTimeout = 2 * time.Hour
		opt.Dialer.Timeout = 2 * time.Hour
	}
	return opt
}

// InBubble reports whether the caller runs inside a synctest bubble (whose fake clock starts at 2000-01-01).
func InBubble() bool { return time.Now().Year() < 2010 }
