#!/bin/bash
# ./check.sh <Cnn> [quick|thorough] [--replay <file>]
# Builds the property's driver from /repo's current working tree (build tag
# verif), runs it under a generous watchdog and turns what it printed into the
# exit code: 0 held, 1 violation (a VIOLATION line was printed), 2 no verdict
# (build failure, watchdog, harness trouble).
set -u
cd "$(dirname "$0")"
ROOT=$(pwd)
export GOFLAGS=-mod=mod GOPROXY=off GOSUMDB=off GOTOOLCHAIN=local
export VERIF_ROOT=$ROOT
GO=go1.26

ID=${1:?usage: check.sh <Cnn> [quick|thorough]}
TIER=${2:-${VERIF_TIER:-quick}}
shift; shift 2>/dev/null || true
REPLAY=""
if [ "${1:-}" = "--replay" ]; then REPLAY=${2:-}; fi
export VERIF_TIER=$TIER
export VERIF_SEED=${VERIF_SEED:-1}
[ -n "$REPLAY" ] && export VERIF_REPLAY=$REPLAY

# one package per property (compile isolation); race detector for the concurrent drivers
PKG=$(echo "$ID" | tr 'A-Z' 'a-z'); RACE=0; WQ=900; WT=7200
case "$ID" in
  C01|C02|C04|C05|C06|C09|C11|C19|C20|C24|C25|C26|C27|C33|C38|C39|C40) RACE=1 ;;
esac
if [ ! -d "$ROOT/harness/props/$PKG" ]; then echo "BROKEN property=$ID no driver package props/$PKG"; exit 2; fi
[ "${VERIF_RACE:-}" = "0" ] && RACE=0
[ "${VERIF_RACE:-}" = "1" ] && RACE=1

BIN=$ROOT/.bin; LOGS=$ROOT/.logs
mkdir -p "$BIN" "$LOGS" "$ROOT/evidence" "$ROOT/replays"
SUF=""; RFLAG=""
if [ $RACE = 1 ]; then SUF="-race"; RFLAG="-race"; fi
EXE=$BIN/$PKG$SUF.test
LOG=$LOGS/$ID-$TIER-seed$VERIF_SEED.log
BLOG=$LOGS/build-$PKG$SUF.log

# VERIF_REPO=<dir>: build against a scratch copy of the repository instead of /repo (mutation rehearsal only;
# registered commands never set it)
MODFLAG=""
EVD=$ROOT/evidence
unset VERIF_EVIDENCE_DIR
if [ -n "${VERIF_REPO:-}" ]; then
  TAG=$(echo "$VERIF_REPO" | md5sum | cut -c1-8)
  MF=$BIN/go-$TAG.mod
  sed "s#=> /repo#=> $VERIF_REPO#g" "$ROOT/harness/go.mod" > "$MF"
  cp "$ROOT/harness/go.sum" "$BIN/go-$TAG.sum"
  MODFLAG="-modfile=$MF"
  EXE=$BIN/$PKG$SUF-$TAG.test
  BLOG=$LOGS/build-$PKG$SUF-$TAG.log
  LOG=$LOGS/$ID-$TIER-seed$VERIF_SEED-$TAG.log
  EVD=$LOGS/evidence-$TAG; mkdir -p "$EVD"
  export VERIF_EVIDENCE_DIR=$EVD
fi

# serialise builds of the same binary (parallel checks share it)
(
  flock 9
  cd "$ROOT/harness" && $GO test $MODFLAG -tags verif $RFLAG -vet=off -c -o "$EXE" ./props/$PKG >"$BLOG" 2>&1
) 9>"$BIN/.lock-$PKG$SUF"
if [ $? -ne 0 ] || [ ! -x "$EXE" ]; then
  echo "BUILD-FAILED property=$ID (see $BLOG)"; tail -n 30 "$BLOG"
  exit 2
fi

W=$WQ; [ "$TIER" = thorough ] && W=$WT
rm -f "$EVD/$ID.json"
cd "$ROOT/harness/props/$PKG"
# A signal-level crash (SIGSEGV / SIGBUS, or an internal CHECK of the race detector's runtime) whose crashing goroutine has no rueidis frame is a crash of the Go runtime or of
# the harness (seen once: runtime.(*timer).modify under time.AfterFunc inside a synctest bubble), not an observation of
# rueidis: the run is repeated, at most twice. A crash with a rueidis frame on the crashing goroutine is a violation (below).
ATTEMPT=0
while :; do
  rm -f "$EVD/$ID.json"
  GORACE="halt_on_error=0" timeout -s QUIT -k 20 $W "$EXE" -test.run "^Test${ID}\$" -test.count=1 -test.timeout=0 >"$LOG" 2>&1
  RC=$?
  if [ $RC -ne 0 ] && [ $ATTEMPT -lt 2 ] && head -n 3 "$LOG" | grep -qE '^(SIGSEGV|SIGBUS|ThreadSanitizer: CHECK failed)' \
     && ! awk '/^goroutine [0-9]+ .*\[running/{f=1} f&&/^$/{exit} f' "$LOG" | grep -q 'github.com/redis/rueidis'; then
    ATTEMPT=$((ATTEMPT+1))
    cp "$LOG" "$LOG.runtime-crash-$ATTEMPT"
    echo "NOTE property=$ID Go runtime / harness crash outside rueidis (kept as $LOG.runtime-crash-$ATTEMPT), running again"
    continue
  fi
  break
done
cd "$ROOT"

grep -E '^(VIOLATION |KNOWN-FINDING|SUMMARY|BROKEN|INCONCLUSIVE|  class=)' "$LOG" | head -n 300
MORE=$(grep -c '^VIOLATION-MORE' "$LOG"); [ "$MORE" != "0" ] && echo "(+$MORE further violations: grep VIOLATION-MORE $LOG)"

if grep -q '^VIOLATION ' "$LOG"; then
  exit 1
fi
if [ $RC -eq 0 ]; then
  if [ ! -s "$EVD/$ID.json" ]; then echo "BROKEN property=$ID no evidence written"; exit 2; fi
  if grep -q 'WARNING: DATA RACE' "$LOG"; then :; else exit 0; fi
fi
if [ $RC -eq 124 ] || [ $RC -eq 137 ]; then
  echo "INCONCLUSIVE property=$ID watchdog fired after ${W}s (log $LOG)"
  exit 2
fi
# race reports: every pair of call chains is matched against the listed known findings (class data-race)
if grep -q 'WARNING: DATA RACE' "$LOG" && ! grep -qE '^(panic:|fatal error:)' "$LOG"; then
  if python3 "$ROOT/tools/race_triage.py" "$ID" "$LOG"; then
    if [ -s "$EVD/$ID.json" ] && ! grep -q '^BROKEN ' "$LOG"; then exit 0; fi
    echo "BROKEN property=$ID run ended early after a listed race report (log $LOG)"; exit 2
  fi
fi
# the process died or a sanitizer spoke outside an oracle: a crash of the code under test is a violation, with the log as witness
if head -n 3 "$LOG" | grep -qE '^(SIGSEGV|SIGBUS|ThreadSanitizer: CHECK failed)' && ! awk '/^goroutine [0-9]+ .*\[running/{f=1} f&&/^$/{exit} f' "$LOG" | grep -q 'github.com/redis/rueidis'; then
  echo "BROKEN property=$ID the Go runtime / harness crashed outside rueidis in three runs in a row (log $LOG)"; exit 2
fi
if grep -qE '^(panic:|fatal error:|WARNING: DATA RACE|SIGSEGV|SIGBUS)|testing: race detected|^unexpected fault address|checkptr' "$LOG"; then
  if grep -qE 'BROKEN ' "$LOG" && ! grep -q 'WARNING: DATA RACE' "$LOG"; then tail -n 40 "$LOG"; exit 2; fi
  REP=$ROOT/replays/$ID-$TIER-seed$VERIF_SEED-crash.log
  cp "$LOG" "$REP"
  echo "VIOLATION property=$ID replay=$REP"
  grep -m3 -E '^(panic:|fatal error:|WARNING: DATA RACE)' "$LOG" | sed 's/^/  /'
  exit 1
fi
echo "BROKEN property=$ID driver exited with $RC without a verdict (log $LOG)"
tail -n 40 "$LOG"
exit 2
