#!/usr/bin/env python3
"""Runs the repository's pinned suite (hooks OFF, default go toolchain) and compares with BASELINE.json stable_pass."""
import json, subprocess, sys, os
base = json.load(open('/root/.vp/BASELINE.json'))
want = set(base['stable_pass'])
mods = [l.strip() for l in open('/w/out/gomods.txt') if l.strip()]
only = sys.argv[1:]  # optional module subset
status = {}
env = dict(os.environ); env['GOFLAGS'] = '-mod=mod'
for k in ('GOTOOLCHAIN',): env.pop(k, None)
for m in mods:
    if only and m not in only: continue
    p = subprocess.Popen(['go', 'test', '-json', '-vet=off', '-count=1', '-timeout', '25m', './...'], cwd=os.path.join('/repo', m), stdout=subprocess.PIPE, stderr=subprocess.STDOUT, text=True, env=env)
    for line in p.stdout:
        try: ev = json.loads(line)
        except Exception: continue
        if ev.get('Test') and ev.get('Action') in ('pass', 'fail', 'skip'):
            status[ev['Package'] + '::' + ev['Test']] = ev['Action']
    p.wait()
pk = None
if only:
    pk = set()
    for m in only:
        pk.add('github.com/redis/rueidis' + ('' if m == '.' else '/' + m.lstrip('./')))
missing = []
for t in sorted(want):
    pkg = t.split('::')[0]
    if pk is not None and not any(pkg == p or (p == 'github.com/redis/rueidis' and False) for p in pk) and not any(pkg.startswith(p + '/') for p in pk if p != 'github.com/redis/rueidis'):
        if not (('github.com/redis/rueidis' in pk) and (pkg == 'github.com/redis/rueidis' or pkg.startswith('github.com/redis/rueidis/internal') or pkg.startswith('github.com/redis/rueidis/rueidislock') or pkg.startswith('github.com/redis/rueidis/hack'))):
            continue
    if status.get(t) != 'pass':
        missing.append((t, status.get(t)))
print('stable_pass wanted:', len(want), 'observed tests:', len(status), 'not passing:', len(missing))
for t, s in missing[:40]: print('  NOT-PASS', t, s)
sys.exit(1 if missing else 0)
