#!/usr/bin/env python3
"""Runs the repository's pinned suite (hooks OFF, default go toolchain) and compares with BASELINE.json stable_pass.
usage: baseline_check.py [module ...]     module = . | om | rueidiscompat | ... (default: all modules of the baseline)
env REPO_DIR=<dir> runs a scratch copy instead of /repo."""
import json, subprocess, sys, os
base = json.load(open('/root/.vp/BASELINE.json'))
want = set(base['stable_pass'])
repo = os.environ.get('REPO_DIR', '/repo')
mods = [l.strip().lstrip('./') or '.' for l in open('/w/out/gomods.txt') if l.strip()]
only = [a.lstrip('./') or '.' for a in sys.argv[1:]]
status = {}
env = dict(os.environ); env['GOFLAGS'] = '-mod=mod'
env.pop('GOTOOLCHAIN', None)
ran = []
for m in mods:
    if only and m not in only: continue
    ran.append(m)
    p = subprocess.Popen(['go', 'test', '-json', '-vet=off', '-count=1', '-timeout', '25m', './...'], cwd=os.path.join(repo, m), stdout=subprocess.PIPE, stderr=subprocess.STDOUT, text=True, env=env)
    for line in p.stdout:
        try: ev = json.loads(line)
        except Exception: continue
        if ev.get('Test') and ev.get('Action') in ('pass', 'fail', 'skip'):
            status[ev['Package'] + '::' + ev['Test']] = ev['Action']
    p.wait()
root = 'github.com/redis/rueidis'
submods = [m for m in mods if m != '.']
def module_of(pkg):
    rel = pkg[len(root):].lstrip('/')
    for m in submods:
        if rel == m or rel.startswith(m + '/'):
            return m
    return '.'
missing = []
considered = 0
for t in sorted(want):
    if module_of(t.split('::')[0]) not in ran: continue
    considered += 1
    if status.get(t) != 'pass':
        missing.append((t, status.get(t)))
print('modules:', ' '.join(ran), '| stable_pass considered:', considered, 'observed tests:', len(status), 'not passing:', len(missing))
for t, s in missing[:40]: print('  NOT-PASS', t, s)
sys.exit(1 if missing else 0)
