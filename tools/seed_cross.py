#!/usr/bin/env python3
"""Runs the checks of related properties against seeded changes (worktrees /tmp/mut/<seed> left by seed_eval.py with the patch applied).
usage: seed_cross.py <seed> ...   -> /tmp/mut/cross/<seed>.json {check: {rc, first}}"""
import json, os, subprocess, sys
SEED_ROOT = __import__('os').environ.get('SEED_ROOT', '/tmp/seed'); MUT_ROOT = __import__('os').environ.get('MUT_ROOT', '/tmp/mut')
G = {
 'pipe': 'C01 C03 C04 C05 C09 C11 C24 C25 C26 C27 C31 C33 C47'.split(),
 'cache': 'C06 C07 C08 C09 C10 C11 C31'.split(),
 'resp': 'C12 C13 C14 C15 C16 C17 C29'.split(),
 'cluster': 'C18 C19 C20 C21 C22 C28 C33'.split(),
}
S = {}
for s in 'C01 C02 C03 C04 C05 C11 C24 C25 C26 C27 C31 C47'.split(): S[s] = 'pipe'
for s in 'C06 C07 C08 C09 C10'.split(): S[s] = 'cache'
for s in 'C12 C13 C14 C15 C16 C17 C29'.split(): S[s] = 'resp'
for s in 'C18 C19 C20 C21 C22 C28 C33'.split(): S[s] = 'cluster'
for seed in sys.argv[1:]:
    wt = f'/tmp/mut/{seed}'
    out = {}
    if seed not in S or not os.path.isdir(wt): continue
    st = subprocess.run('git status --short', shell=True, cwd=wt, capture_output=True, text=True).stdout
    assert ' M ' in st and '??' not in st, (seed, st)
    for chk in G[S[seed]]:
        if chk == seed: continue
        e = dict(os.environ); e['VERIF_REPO'] = wt; e['VERIF_SEED'] = '1'
        try:
            r = subprocess.run(f'./check.sh {chk} quick', shell=True, cwd='/verif', env=e, capture_output=True, text=True, timeout=1500)
            lines = [l.strip() for l in r.stdout.splitlines() if 'class=' in l or l.startswith('VIOLATION') or 'INCONCL' in l or 'BROKEN' in l or 'BUILD' in l]
            cl = [l for l in lines if 'class=' in l]
            out[chk] = {'rc': r.returncode, 'first': (cl[0] if cl else (lines[0] if lines else ''))[:200]}
        except subprocess.TimeoutExpired:
            out[chk] = {'rc': 'timeout', 'first': ''}
        json.dump(out, open(f'/tmp/mut/cross/{seed}.json', 'w'), indent=1)
    print(seed, {k: v['rc'] for k, v in out.items()}, flush=True)
