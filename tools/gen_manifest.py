#!/usr/bin/env python3
"""Regenerates /verif/MANIFEST.json from the table below (one entry per claimed property)."""
import json, os, subprocess, sys

ROOT = os.path.dirname(os.path.dirname(os.path.abspath(__file__)))

# id -> (level, technique, level text, level note, design ref)
CHECKS = {}

def add(pid, level, technique, text, note, ref=None):
    CHECKS[pid] = dict(level=level, technique=technique, text=text, note=note, ref=ref or ("DESIGN.md §3 " + pid))

exec(open(os.path.join(ROOT, "tools", "checks_table.py")).read())

props = [json.loads(l) for l in open(os.path.join(ROOT, "properties.jsonl"))]
ids = [p["id"] for p in props]

NOT_APPLICABLE = {}
na_path = os.path.join(ROOT, "tools", "not_applicable.json")
if os.path.exists(na_path):
    NOT_APPLICABLE = json.load(open(na_path))

def hook_commits():
    try:
        out = subprocess.check_output(["git", "-C", "/repo", "log", "--format=%H %s"], text=True)
    except Exception:
        return []
    return [l.split()[0] for l in out.splitlines() if " verif " in " " + l + " " or "verif hooks" in l or "verif export" in l or l.split(" ", 1)[1].startswith("verif")]

manifest = {
    "version": 1,
    "setup_cmd": "./setup.sh",
    "hooks": {
        "guard": "verif",
        "enable": "go1.26 test -tags verif (GOFLAGS=-mod=mod GOPROXY=off GOSUMDB=off GOTOOLCHAIN=local); the harness module replaces github.com/redis/rueidis and its add-on modules with /repo, so every check compiles /repo's current working tree",
        "baseline_off_cmd": "cd /repo && for m in . mock om rueidisaside rueidiscompat rueidiscompatmock rueidishook rueidislimiter rueidisotel rueidisprob rueidisrdma; do (cd /repo/$m && GOFLAGS=-mod=mod go test -json -vet=off -count=1 -timeout 25m ./...); done",
        "source_commits": hook_commits(),
        "add_only": True,
    },
    "engines": [
        {"name": "mon", "path": "harness/mon", "serves_properties": sorted(CHECKS), "kind_free_text": "run bookkeeping: seeds, case fingerprints, observations, violation/replay files, known-findings matching, evidence writer"},
        {"name": "resp", "path": "harness/resp", "serves_properties": [p for p in ["C12", "C13", "C14", "C15", "C16", "C17"] if p in CHECKS], "kind_free_text": "independent RESP2/RESP3 encoder/decoder and random reply generator (reference implementation for differential monitoring)"},
        {"name": "fakeredis", "path": "harness/fakeredis", "serves_properties": [], "kind_free_text": "in-process Redis-compatible server with execution log and fault plans; the real client talks to it through DialCtxFn"},
        {"name": "minilua", "path": "harness/minilua", "serves_properties": [], "kind_free_text": "Lua 5.1 subset interpreter so the shipped scripts run unmodified inside fakeredis"},
        {"name": "check.sh", "path": "check.sh", "serves_properties": sorted(CHECKS), "kind_free_text": "builds the driver from /repo's working tree with -tags verif (and -race where listed), runs it under a watchdog, maps output to exit codes; crashes and race reports of the code under test become violations"},
    ],
    "checks": [],
    "not_applicable": [],
    "notes": "All checks are runtime monitors: the real rueidis code is executed under generated / hostile workloads and an oracle observes the executions. Evidence files report what was observed, never 'verified'.",
}

for pid in ids:
    if pid in CHECKS:
        c = CHECKS[pid]
        manifest["checks"].append({
            "property_id": pid,
            "quick_cmd": f"./check.sh {pid} quick",
            "thorough_cmd": f"./check.sh {pid} thorough",
            "evidence_file": f"/verif/evidence/{pid}.json",
            "replay_cmd_template": f"./check.sh {pid} quick --replay {{path}}",
            "engine": "check.sh",
            "level_claimed": {"category": c["level"], "text": c["text"], "design_ref": c["ref"]},
            "level_note": c["note"],
            "technique": c["technique"],
        })
    else:
        manifest["not_applicable"].append({"property_id": pid, "reason": NOT_APPLICABLE.get(pid, "no runtime monitor built for this property yet in this round; not claimed")})

json.dump(manifest, open(os.path.join(ROOT, "MANIFEST.json"), "w"), indent=1)
print("claimed", len(manifest["checks"]), "not_applicable", len(manifest["not_applicable"]))
