#!/usr/bin/env python3
"""Prints the DESIGN.md 8.4 table from /verif/seeded/*/meta.json."""
import json, glob, os, re
print("| Seed | File | Change | Needs | Caught by (first violation class / key) |")
print("|---|---|---|---|---|")
def short(s, n):
    s = re.sub(r'\s+', ' ', str(s or '')).replace('|', '/')
    return s if len(s) <= n else s[:n - 1].rsplit(' ', 1)[0] + ' ...'
for d in sorted(glob.glob('/verif/seeded/*/')):
    m = json.load(open(d + 'meta.json'))
    name = os.path.basename(d.rstrip('/'))
    lines = m.get('first_check_result', {}).get('lines') or []
    cls = next((l.strip() for l in lines if 'class=' in l), lines[0] if lines else '')
    print(f"| {name} | {', '.join(re.sub(r'^/tmp/seed2?/C[0-9]+/', '', f) for f in (m.get('files') or []))} | {short(m.get('summary'), 200)} | {short(m.get('needs_to_manifest'), 120)} | {'+'.join(m.get('caught_by') or ['-'])}: `{short(cls, 150)}` |")
