#!/usr/bin/env python3
"""Hand-written mutants (one textual replacement each) run against the property's quick check through VERIF_REPO.
usage: hand_mutants.py [prop|name ...]     scratch worktree: $MUT_WT (default /tmp/mut1/repo, a git worktree of /repo HEAD)"""
import subprocess, sys, json, os
R=os.environ.get('MUT_WT','/tmp/mut1/repo')
muts=[
 ("C01","pipe-abort-no-drain","pipe.go","""abort:
	go func(ch chan RedisResult) {
		<-ch
		p.decrWaitsAndIncrRecvs()
	}(ch)
	return NewErrorResult(ctx.Err())""","""abort:
	p.decrWaitsAndIncrRecvs()
	return NewErrorResult(ctx.Err())"""),
 ("C01","push-message-treated-as-reply","pipe.go","""			if prply, unsub = p.handlePush(msg.values()); !prply {
				continue
			}""","""			if prply, unsub = p.handlePush(msg.values()); !prply && msg.values()[0].string() != "message" {
				continue
			}"""),
 ("C01","flowbuffer-slot-returned-before-send","flowbuffer.go","""	case cmd := <-b.r:
		b.c = &cmd.ch
		one, multi, ch, resps = cmd.one, cmd.multi, cmd.ch, cmd.resps""","""	case cmd := <-b.r:
		b.f <- queuedCmd{ch: cmd.ch}
		one, multi, ch, resps = cmd.one, cmd.multi, cmd.ch, cmd.resps"""),
 ("C06","null-invalidation-ignored","pipe.go","""			if values[1].IsNil() {
				p.cache.Delete(nil)
			} else {""","""			if values[1].IsNil() {
			} else {"""),
 ("C06","disconnect-keeps-store","lru.go","""	c.store = nil
	c.list = nil
	c.mu.Unlock()
}""","""	c.mu.Unlock()
}"""),
 ("C04","background-skips-cache-close","pipe.go","""	if p.cache != nil {
		p.cache.Close(ErrDoCacheAborted)
	}
	verifPoint("conn.disconnected", p.conn)""","""	verifPoint("conn.disconnected", p.conn)"""),
 ("C04","subs-not-closed","pipe.go","""	p.nsubs.Close()
	p.psubs.Close()""","""	p.psubs.Close()"""),
 ("C03","retry-plain-commands","client.go","""		if c.retry && cmd.IsRetryable() && c.isRetryable(err, ctx) {
			if c.retryHandler.WaitOrSkipRetry(ctx, attempts, cmd, err) {
				attempts++
				goto retry
			}
		}
	}
	if resp.NonRedisError() == nil { // not recycle cmds if error, since cmds may be used later in the pipe.""","""		if c.retry && c.isRetryable(err, ctx) {
			if c.retryHandler.WaitOrSkipRetry(ctx, attempts, cmd, err) {
				attempts++
				goto retry
			}
		}
	}
	if resp.NonRedisError() == nil { // not recycle cmds if error, since cmds may be used later in the pipe."""),
 ("C05","cache-wait-ignores-ctx","lru.go","""		select {
		case <-ch:
			return RedisMessage{}, ctx.Err()
		case <-e.ch:
		}""","""		_ = ch
		<-e.ch"""),
 ("C24","store-ignores-error","pool.go","""	if !p.down && v.Error() == nil {
		p.list = append(p.list, v)""","""	if !p.down {
		p.list = append(p.list, v)"""),
 ("C24","idle-cleanup-forgets-size","pool.go","""		p.list[newLen+i] = nil
		p.size--""","""		p.list[newLen+i] = nil"""),
 ("C07","hit-at-the-expiry-instant","lru.go","""	if e != nil && (v.typ == 0 || v.relativePTTL(now) > 0) {""","""	if e != nil && (v.typ == 0 || v.relativePTTL(now) >= 0) {"""),
 ("C07","server-ttl-may-lengthen","lru.go","""				if cpttl < pxat || pxat == 0 {""","""				if pxat == 0 {"""),
 ("C10","update-forgets-size","lru.go","""				c.size += e.size
				ch = e.ch""","""				ch = e.ch"""),
 ("C19","moved-limit-off-by-one","cluster.go","""	case RedirectMove:
		redirects++
		if c.opt.ClusterOption.MaxMovedRedirections > 0 && redirects > c.opt.ClusterOption.MaxMovedRedirections {
			return resp
		}
		ncc := c.redirectOrNew(addr, cc, cmd.Slot(), mode)
	recover1:""","""	case RedirectMove:
		redirects++
		if c.opt.ClusterOption.MaxMovedRedirections > 0 && redirects >= c.opt.ClusterOption.MaxMovedRedirections {
			return resp
		}
		ncc := c.redirectOrNew(addr, cc, cmd.Slot(), mode)
	recover1:"""),
 ("C20","batch-ask-sent-without-asking","cluster.go","""				retries.m[nc] = nr
			}
			if mode == RedirectAsk {
				nr.aIndexes = append(nr.aIndexes, ii)""","""				retries.m[nc] = nr
			}
			if mode == RedirectAsk && hasInit {
				nr.aIndexes = append(nr.aIndexes, ii)"""),
 ("C16","asint64-base-autodetect","message.go","""	return strconv.ParseInt(v, 10, 64)
}

// AsUint64""","""	return strconv.ParseInt(v, 0, 64)
}

// AsUint64"""),
 ("C12","simple-string-aliases-read-buffer","resp.go","""	bs, err := i.ReadBytes('\\n')
	if err != nil {
		return nil, 0, err
	}
	if trim := len(bs) - 2; trim < 0 {""","""	bs, err := i.ReadSlice('\\n')
	if err != nil {
		return nil, 0, err
	}
	if trim := len(bs) - 2; trim < 0 {"""),
 ("C12","chunk-crlf-not-discarded","resp.go","""			if _, err = io.CopyN(&sb, i, length); err != nil {
				return RedisMessage{}, err
			}
			if _, err = i.Discard(2); err != nil {
				return RedisMessage{}, err
			}""","""			if _, err = io.CopyN(&sb, i, length); err != nil {
				return RedisMessage{}, err
			}"""),

]
only=sys.argv[1:]
FIRST_ONLY={"batch-ask-sent-without-asking"}  # pattern occurs in DoMulti's and DoMultiCache's result functions: mutate the first (DoMulti)
for prop,name,f,old,new in muts:
    if only and prop not in only and name not in only: continue
    subprocess.check_call(['git','-C',R,'checkout','-q','--','.'])
    s=open(f'{R}/{f}').read()
    if s.count(old)!=1 and not (name in FIRST_ONLY and s.count(old)>1):
        print(prop,name,"PATTERN-MISMATCH",s.count(old)); continue
    open(f'{R}/{f}','w').write(s.replace(old,new,1))
    b=subprocess.run(['go','build','./...'],cwd=R,env={**{k:v for k,v in __import__('os').environ.items() if k!='GOTOOLCHAIN'},'GOFLAGS':'-mod=mod'},capture_output=True,text=True)
    if b.returncode!=0:
        print(prop,name,"BUILD-FAIL",b.stderr[:200]); continue
    r=subprocess.run(['./check.sh',prop,'quick'],cwd='/verif',env={**__import__('os').environ,'VERIF_REPO':R},capture_output=True,text=True)
    lines=[l for l in r.stdout.splitlines() if 'class=' in l or l.startswith('VIOLATION') or 'INCONCL' in l or 'BROKEN' in l]
    print(prop,name,"rc=%d"%r.returncode, (lines[1] if len(lines)>1 else (lines[0] if lines else ''))[:160])
subprocess.check_call(['git','-C',R,'checkout','-q','--','.'])
