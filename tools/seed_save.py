#!/usr/bin/env python3
"""Stores a confirmed seeded change under /verif/seeded/<name>/ (patch.diff, the demonstration, meta.json).
usage: seed_save.py <name> <property> <caught_by comma list or -> [note]"""
import json, os, shutil, sys, subprocess
name, prop, caught = sys.argv[1], sys.argv[2], sys.argv[3]
note = sys.argv[4] if len(sys.argv) > 4 else ''
src, dst = f'/tmp/seed/{name}', f'/verif/seeded/{name}'
os.makedirs(dst, exist_ok=True)
shutil.copy(f'/tmp/mut/{name}.patch', f'{dst}/patch.diff')
res = json.load(open(f'/tmp/mut/{name}.result.json'))
for d in res.get('demo_files', []):
    shutil.copy(f'{src}/{d}', f'{dst}/{os.path.basename(os.path.dirname(d)) + "__" if os.path.dirname(d) else ""}{os.path.basename(d)}.txt')
m = res.get('meta', {})
suite = {}
if os.path.exists('/tmp/mut/suite_results.txt'):
    for l in open('/tmp/mut/suite_results.txt'):
        if l.startswith(name + ' '):
            suite[l.split('module=')[1].split(' ')[0]] = l.split('::', 1)[1].strip()
meta = {
    'property': prop,
    'summary': m.get('summary'),
    'needs_to_manifest': m.get('needs'),
    'files': m.get('files'),
    'demo_files': [os.path.basename(d) + '.txt (was ' + d + ' in the worktree; renamed so that it is not compiled here)' for d in res.get('demo_files', [])],
    'demo_cmd': res.get('demo_cmd'),
    'confirmed_by_coordinator': {
        'applies_to_repo_head': res.get('applies'), 'builds': res.get('builds'),
        'demo_with_change': res.get('demo_with_change'), 'demo_without_change': res.get('demo_without_change'),
        'pinned_suite': suite or 'see DESIGN.md 8.4',
        'how': 'tools/seed_eval.py: fresh worktree of /repo HEAD, git apply patch.diff, demo run with and without the change, check run with VERIF_REPO=<worktree>; tools/baseline_check.py for the pinned suite',
    },
    'caught_by': [c for c in caught.split(',') if c and c != '-'],
    'first_check_result': {'rc': res.get('check_rc'), 'lines': res.get('check_lines')},
    'note': note,
}
json.dump(meta, open(f'{dst}/meta.json', 'w'), indent=1)
print('saved', dst)
