#!/usr/bin/env python3
"""Stores a confirmed seeded change under /verif/seeded/<name>/ (patch.diff, the demonstration, meta.json).
usage: seed_save.py <name> <property> <caught_by comma list or -> [note]"""
import json, os, shutil, sys, subprocess
SEED_ROOT = __import__('os').environ.get('SEED_ROOT', '/tmp/seed'); MUT_ROOT = __import__('os').environ.get('MUT_ROOT', '/tmp/mut')
name, prop, caught = sys.argv[1], sys.argv[2], sys.argv[3]
note = sys.argv[4] if len(sys.argv) > 4 else ''
src, dst = f'{SEED_ROOT}/{name}', f'/verif/seeded/{name}' + os.environ.get('SEED_SUFFIX', '')
os.makedirs(dst, exist_ok=True)
shutil.copy(f'{MUT_ROOT}/{name}.patch', f'{dst}/patch.diff')
res = json.load(open(f'{MUT_ROOT}/{name}.result.json'))
for d in res.get('demo_files', []):
    shutil.copy(f'{src}/{d}', f'{dst}/{os.path.basename(d)}')
m = res.get('meta', {})
suite = {}
if os.path.exists(f'{MUT_ROOT}/{name}.suite.json'):
    sj = json.load(open(f'{MUT_ROOT}/{name}.suite.json'))
    suite = {'repo_head': sj.get('head'), 'passes': sj.get('suite_passes'), 'modules': sj.get('suite'),
             'tests_rerun_alone_after_a_loaded_first_run': sorted(set(sj.get('retried', []))), 'note': sj.get('note', '')}
meta = {
    'property': prop,
    'summary': m.get('summary'),
    'needs_to_manifest': m.get('needs'),
    'files': m.get('files'),
    'demo_files': [os.path.basename(d) + ' (goes to ' + d + ' in the worktree)' for d in res.get('demo_files', [])],
    'demo_cmd': res.get('demo_cmd'),
    'confirmed_by_coordinator': {
        'applies_to_repo_head': res.get('applies'), 'builds': res.get('builds'),
        'demo_with_change': res.get('demo_with_change'), 'demo_without_change': res.get('demo_without_change'),
        'pinned_suite': suite or 'see DESIGN.md 8.4',
        'how': 'tools/seed_eval.py: fresh worktree of /repo HEAD, git apply patch.diff, demo run with and without the change, check run with VERIF_REPO=<worktree>; tools/seed_suite.py for the pinned suite (hooks off, default toolchain, every module the patch touches, compared with BASELINE.json stable_pass)',
    },
    'caught_by': [c for c in caught.split(',') if c and c != '-'],
    'first_check_result': {'rc': res.get('check_rc'), 'lines': res.get('check_lines')},
    'note': note,
}
json.dump(meta, open(f'{dst}/meta.json', 'w'), indent=1)
print('saved', dst)
