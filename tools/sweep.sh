#!/bin/bash
# usage: tools/sweep.sh <quick|thorough> <seed> [lanes] [ids...]   runs the checks in parallel lanes, one line per check:
#   <id> rc=<exit> <seconds>s <first VIOLATION / KNOWN-FINDING count / INCONCLUSIVE / BROKEN line>
cd "$(dirname "$0")/.."
TIER=${1:-quick}; SEED=${2:-1}; LANES=${3:-4}; shift 3 2>/dev/null
IDS="$@"
[ -z "$IDS" ] && IDS=$(for i in $(seq -w 1 47); do echo C$i; done)
OUT=.logs/sweep-$TIER-seed$SEED.txt; mkdir -p .logs; : > $OUT
echo $IDS | tr ' ' '\n' | xargs -P $LANES -I{} bash -c '
  s=$(date +%s); o=$(VERIF_SEED='$SEED' ./check.sh {} '$TIER' 2>&1); rc=$?; e=$(date +%s)
  v=$(echo "$o" | grep -E "^(VIOLATION|INCONCLUSIVE|BROKEN|BUILD)" | head -2 | tr "\n" " "); k=$(echo "$o" | grep -c "^KNOWN-FINDING")
  echo "{} rc=$rc $((e-s))s known=$k $v" >> '$OUT
sort $OUT
echo "non-zero: $(grep -vc " rc=0 " $OUT)"
