#!/usr/bin/env python3
import json, sys, glob, jsonschema
jsonschema.validate(json.load(open('/verif/MANIFEST.json')), json.load(open('/root/.vp/MANIFEST.schema.json')))
es = json.load(open('/root/.vp/EVIDENCE.schema.json'))
bad = 0
for f in sorted(glob.glob('/verif/evidence/*.json')):
    try:
        jsonschema.validate(json.load(open(f)), es)
    except Exception as e:
        bad += 1
        print("INVALID", f, str(e)[:300])
print("manifest valid; evidence files checked:", len(glob.glob('/verif/evidence/*.json')), "invalid:", bad)
# every claimed check has a committed evidence file whose level equals the manifest's level_claimed.category
import subprocess, os
m = json.load(open('/verif/MANIFEST.json'))
tracked = set(subprocess.run(['git', '-C', '/verif', 'ls-files', 'evidence'], capture_output=True, text=True).stdout.split())
for c in m['checks']:
    ef = c['evidence_file']
    rel = ef[len('/verif/'):] if ef.startswith('/verif/') else ef
    if not os.path.exists('/verif/' + rel):
        print("MISSING evidence", rel); bad += 1; continue
    if rel not in tracked:
        print("UNTRACKED evidence", rel); bad += 1
    ev = json.load(open('/verif/' + rel))
    if ev.get('level') != c['level_claimed']['category']:
        print("LEVEL mismatch", rel, ev.get('level'), c['level_claimed']['category']); bad += 1
sys.exit(1 if bad else 0)
