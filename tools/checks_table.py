# one add(...) per claimed property: add(id, level, technique, level text, level note)
RT = "runtime monitoring: "
add("C01", "exploration", RT + "uid-carrying stress workload on shared connections under -race + synctest virtual-time runs; oracle = reply function F(uid,shape), exactly-once accounting from the server's execution events",
    "2-32 concurrent callers issue every call kind (Do, DoMulti, MULTI/EXEC, DoCache, DoMultiCache, blocking-tagged, Receive) on shared connections across 10 client configurations (ring/flowbuffer, RESP2/3, multiplex, ring scale, AlwaysPipelining, flush delay) with random cancellation, pushes and chunked replies; each reply must be F(own uid) and each successful uid executed exactly once; virtual-time runs add deadline cancellation and detect hung or leaked goroutines. Held on the interleavings the scheduler produced (overlap and wire-order inversion counts are in the evidence), not on all schedules.",
    "Trusted: fakeredis (in-process server) keeps per-connection reply order and answers VERIF.ECHO with F(uid,shape); Go race detector; testing/synctest. Receive calls use channels of their own (see known finding C26-K1). Wires are dialled up front with an uncancellable context.")
add("C08", "exploration", RT + "adversarial command pairs from the reflected builder graph through the real CacheKey and the real built-in / adapter stores",
    "Pairs of distinct cacheable commands (re-split arguments, numeric re-split, empty args, key absorbing the command name, cross-command, MGET siblings) are checked at identity level and behaviourally (Flight a, Update a, Flight b must not hit) on both stores. The separator-less identity is a listed known finding (two precise shapes); any other collision is a violation.",
    "Trusted: reflection reaches every Cache() path; the driver's own argv model (key = argv[1], argv[3] for read-only scripts).")
add("C10", "exploration", RT + "invariant hook under the store's own lock (lru.update.end) + reference LRU model over random operation histories",
    "Random Flight/Flights/Update/Cancel/Delete/expiry histories drive the real lru; at every Update (under its lock) the monitor walks list and map: size == sum of completed entry sizes, size <= max, pending entries never evicted, evicted entries not more recent than retained ones (respecting the documented lazy move-to-back).",
    "Trusted: VerifLRUSnapshotLocked export; the driver's logical clock for recency.")
add("C12", "exploration", RT + "differential monitor: independent RESP encoder -> rueidis decoder under many read splits",
    "Random well-formed RESP2/RESP3 trees are encoded by an independent encoder, decoded by the real readNextMessage/streamTo under 6 split plans and 4 buffer sizes and compared node by node; held on the trees generated.",
    "Trusted: harness/resp encoder (written from the RESP3 spec), the VerifDump export. Attributes are never attached to RESP2-style nulls.")
add("C13", "exploration", RT + "hostile byte sequences decoded in a crash-isolated child process with an address-space limit; oracle = no panic, no process death, bounded allocation per call",
    "Every length-carrying type x 23 hostile length spellings x 7 contexts, all type bytes, truncations, flips, insertions and length edits of valid frames, nesting to depth 20000; each through readNextMessage (two split plans) and streamTo. Allocation (TotalAlloc + stack growth) must stay within 64 x bytes delivered + 4 MiB. Unbounded recursion depth is a listed known finding.",
    "Trusted: runtime.MemStats as allocation measure; a process death is attributed to the last input logged before it.")
add("C14", "exploration", RT + "round trip through the real writer and an independent decoder, plus a live client over net.Pipe",
    "Commands with argument lengths and counts straddling every power of ten (to 10^7 bytes / 10^5 args quick, 10^8 / 10^6 thorough), binary and CRLF payloads, several bufio sizes, back-to-back framing; the live part sends through _backgroundWrite, the sync path and DoStream and compares the multiset received.",
    "Trusted: harness/resp decoder; canonical-form comparison declared in the evidence.")
add("C15", "exploration", RT + "reflection-enumerated accessor calls under recover over decoder-produced and shape-mutated replies",
    "Every zero-argument exported accessor of RedisResult/RedisMessage/RedisError (plus DecodeJSON, DecodeSliceOfJSON, package classifiers) is called on random decoder output, on every single-node mutation of 44 canonical structured replies and on 3000+ error texts; no panic, nil -> IsRedisNil, error reply -> RedisError with the same text, curated wrong-type table -> error.",
    "Trusted: the curated wrong-type table (467 entries); panics are attributed to the innermost rueidis frame.")
add("C16", "exploration", RT + "data -> documented RESP2/RESP3 reply shape -> real decoder -> accessor -> equals data",
    "All conversion and structured helpers are checked in both protocol shapes on random data; shapes are transcribed from the Redis/RediSearch documentation.",
    "Trusted: the transcribed reply shapes; ambiguous RESP2 inputs (numeric FT.SEARCH ids) are excluded and declared.")
add("C17", "exploration", RT + "round trip through CacheMarshal/CacheUnmarshalView incl. every truncation",
    "Random cacheable trees and expiries: marshal length == CacheSize, unmarshal reproduces tree/type/expiry, every proper prefix yields ErrCacheUnmarshal without panic.",
    "Restricted to what the serializer represents (no push frames / attributes), declared in the evidence.")
add("C18", "exploration", RT + "independent bitwise CRC16 + hash-tag reference against Completed.Slot(), incl. exhaustive small key spaces and reflected multi-key builders",
    "All 1- and 2-byte keys and all strings over {,},x up to length 6 exhaustively, random binary keys, 40 hand-written and 204 reflected multi-key builders: slot equals the reference; a cluster builder panics iff slots differ; a non-cluster builder never panics.",
    "Trusted: the reference implementation (self-checked against the spec's examples).")
add("C22", "exploration", RT + "reference selector from the doc comments; exhaustive small lists, random large lists, concurrent callers",
    "Every list of 0-6 nodes x 3 AZ labels x client AZ exhaustively, random lists to 400 nodes, nil/empty lists, 8 goroutines on one selector: result is -1 or valid, in the documented priority class, and rotates.",
    "Rotation is required to visit every candidate only for classes of <= 8 members (the code caps matches at 8; the doc promises no more).")
add("C32", "exploration", RT + "exhaustive reflection walk of all 575 roots / 6222 edges reading the tags of built commands; oracle = hand-written command-semantics table",
    "Every root and option path is built and its tags (read-only, Cache(), blocking, subscribe/unsubscribe) are compared with a conservative reference table from the Redis/module documentation; commands absent from the table are reported unclassified, never violations. AI.MODELEXECUTE is a listed known finding.",
    "Trusted: the reference table (only commands that certainly write / block are listed).")
add("C33", "exploration", RT + "twin build over the reflected builder graph + wire-frame monitor under the C01 stress workload with -race",
    "Every builder edge and 250k random walks are built twice with disjoint values: argv must differ exactly at caller positions with canonical text (ints base 10, floats shortest, time units per option). Under stress with 15-30% abandoned calls every frame the server receives must equal the issued argv.",
    "Trusted: the time-unit table (Ex/Px/Exat/Pxat), fakeredis frame logging.")
add("C43", "exploration", RT + "exhaustive enumeration of (entry path x method x hook behaviour) with counting hook and fake inner clients",
    "78 combinations enumerated completely (client, Dedicated, Dedicate, Nodes()[a] and its dedicated forms x every request method x hook answers/delegates): hook fired exactly once with the caller's arguments, result returned unchanged, inner client reached exactly once on delegation.",
    "Finite space, exhaustive=true.")
add("C44", "exploration", RT + "reference option mapping over generated URLs with pairwise distinct component values; every exported leaf of ClientOption compared by reflection",
    "66k URLs from random component subsets over 5 schemes, IPv4/IPv6/name hosts with and without port, all documented parameters; 31 invalid values must be rejected.",
    "Trusted: the reference mapping written from ParseURL's doc comment and the README.")
add("C45", "exploration", RT + "bit-level round trip over structured float grids, all NaN payload classes, byte strings, JSON vs encoding/json",
    "Sign x every exponent x structured fractions for float32/64 (all 2^32 float32 patterns in thorough), vector lengths to 65537, byte strings to 1 MiB, JSON values of every kind.",
    "Values encoding/json rejects are outside the statement and only recorded.")
add("C46", "exploration", RT + "scripted page source recording every cursor and yield; all small page shapes exhaustively plus random scans",
    "Yielded sequence == concatenation prefix; cursors 0 then each returned cursor; no fetch after cursor 0, a failure or a consumer stop; Err() exposes the page error; Iter2 yields consecutive pairs.",
    "Iter2 judged on even-length pages.")
add("C03", "fault_enumeration", RT + "fault enumeration in synctest bubbles; oracle = executions per uid counted in the server's execution log",
    "client kind x queue x ConnLifetime x AlwaysPipelining x fault on one command (close before/after exec, cut reply, silent, slow reply/exec, MOVED/ASK/REDIRECT) x batch shape x position, 2100 histories of 40 virtual seconds: every VERIF.WRITE uid must be executed at most once. The lifetime-expiry re-send was repaired; the standalone EnableRedirect whole-batch re-send is a listed known finding.",
    "Trusted: fakeredis logs one exec event per execution (also inside EXEC); redirect replies are injected without executing.")
add("C04", "fault_enumeration", RT + "fault enumeration in synctest bubbles with deadlock detection as the hang oracle",
    "failure {EOF, silent server (keep-alive ping + write timeout), cut in the middle of a frame, client.Close} x pending mix of nine call kinds x queue shape x AlwaysPipelining: every pending call returns within 8 virtual seconds, held commands never succeed, the next call is served on a fresh connection, calls after Close get ErrClosing and reach no server, no rueidis goroutine stays parked.",
    "A blocking command on a silent (not failed) pool connection is left waiting by design and only counted. Virtual time: KeepAlive 1 s, ConnWriteTimeout 2 s.")
add("C05", "fault_enumeration", RT + "virtual-time scenarios per wait path; oracle on return instants",
    "wait path {pipeline sync/queued, DoMulti, blocking-pool wait, DoStream pool wait, cache-flight waiter (DoCache/DoMultiCache/MGET), retry back-off, slow re-dial} x deadline (fixed grid + seeded values) / manual cancel / already-done context x queue x AlwaysPipelining: return instant <= deadline (cancel: == the cancel instant), done contexts send nothing (server log).",
    "'shortly after the deadline' is decided as 'not after the deadline instant' in virtual time.")
add("C06", "exploration", RT + "client hooks (processed invalidations / disconnects per connection) + offline check of every cache hit against the server's wire order, under -race",
    "8-16 readers of four cached-call kinds against writers with unique versions, FLUSHALL, expiry, table evictions and connection kills in OPTIN/OPTOUT/BCAST, static TTL, both stores, 1-4 wires: every hit must be a reply to that read on a live connection placed after the last covering invalidation the client had processed when the call started (about 39k hits checked per quick run).",
    "Trusted: fakeredis queues replies and invalidation pushes in execution order as Redis does; unique values identify the write a read observed.")
add("C24", "exploration", RT + "the real pool driven with counting wires in synctest bubbles + hook hand-shake for the cancellation/broadcast window + end-to-end connection counting",
    "442 pool histories (cap 1-4, 2-40 goroutines, deadlines/cancellations, failing dials, broken wires, cleanup timer, Close at a random point): live connections <= cap at every dial, exclusive holders, size == idle == live at quiescence, done-context waiters return by their deadline, only closed wires after Close; the broadcast-before-wait window is forced with the pool.acquire hooks; a real client's pool connections are counted at the dial/Close boundary.",
    "Both defects found (uncounted placeholder decrementing the size, broadcast without the lock) were repaired.")
add("C41", "exploration", RT + "differential execution: the same random adapter program run directly, through Pipeline and through TxPipeline on fresh servers, plus wire-log checks",
    "Programs over ~108 implemented call kinds and every other Pipeliner method (522): Cmder i carries the type/value/error of direct call i, Exec's error is the first error, TxPipeline sends exactly MULTI, commands, EXEC on one connection, WATCH conflicts and nil EXEC give TxFailedErr, Discard drops everything, pipelines are reusable.",
    "Typed reply conversions are exercised only for commands fakeredis implements.")
add("C42", "exploration", RT + "argv received by the server compared with a hand transcription of go-redis v9's argument construction (343 of 522 methods)",
    "For each referenced method random arguments incl. option-struct corners are passed to the adapter; the single command that reaches fakeredis must equal the reference after normalising keyword case, numeric spellings and SET option order. Weaker than the statement by construction: go-redis itself is not available offline; 179 methods have no reference and are listed in the evidence.",
    "Trusted: the transcription (tables in props/c42); disagreements were adjudicated against Redis command syntax. Three pinned divergences are listed known findings.")
