# one add(...) per claimed property: add(id, level, technique, level text, level note)
add("C12", "exploration", "runtime differential monitor: independent RESP encoder -> rueidis decoder under many read splits",
    "Random well-formed RESP2/RESP3 trees are encoded by an independent encoder, decoded by the real readNextMessage/streamTo under 6 split plans and 4 buffer sizes and compared node by node; held on the trees generated, not a proof over all inputs.",
    "Trusted: harness/resp encoder (written from the RESP3 spec), the VerifDump export wrapper. Attributes are never attached to RESP2-style nulls (not well-formed RESP3).")
