#!/usr/bin/env python3
"""Triage of Go race-detector reports in a check's log.
usage: race_triage.py <property> <log>
Every report is reduced to the pair of innermost rueidis call chains (two frames each). Pairs listed in
known_findings.json (class "data-race", property "<id>" or "*") print one KNOWN-FINDING line; any other pair is
printed as UNLISTED-RACE and the exit status is 1."""
import json, re, sys, os
prop, log = sys.argv[1], sys.argv[2]
root = os.path.dirname(os.path.dirname(os.path.abspath(__file__)))
kf = [f for f in json.load(open(os.path.join(root, 'known_findings.json'))) if f.get('class') == 'data-race' and f.get('status') == 'known' and f['property'] in (prop, '*')]
text = open(log, errors='replace').read()
blocks = re.split(r'^==================\n', text, flags=re.M)
pairs = {}
for b in blocks:
    if 'WARNING: DATA RACE' not in b: continue
    stacks = re.split(r'\n\n', b)
    chains = []
    for st in stacks[:2]:
        fr = [l.strip() for l in st.splitlines() if l.startswith('  github.com/redis/rueidis')]
        fr = [re.sub(r'\(\)$', '', f.replace('github.com/redis/rueidis', '')) for f in fr][:2]
        chains.append('<'.join(fr) if fr else '(harness)')
    key = ' || '.join(sorted(chains))
    pairs[key] = pairs.get(key, 0) + 1
bad = 0
for key, n in sorted(pairs.items()):
    hit = next((f for f in kf if re.fullmatch(f['key_regex'], key)), None)
    if hit:
        print(f"KNOWN-FINDING: property={prop} {hit['what']} [{hit['id']}] ({n} report(s): {key})")
    else:
        bad += 1
        print(f"UNLISTED-RACE property={prop} reports={n} pair={key}")
sys.exit(1 if bad else 0)
