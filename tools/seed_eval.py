#!/usr/bin/env python3
"""Confirms a seeded change (from /tmp/seed/<name>) on the current /repo HEAD and runs the property's check against it.
usage: seed_eval.py <seed-dir-name> <property> [--suite]"""
import json, os, subprocess, sys, shutil, glob
SEED_ROOT = __import__('os').environ.get('SEED_ROOT', '/tmp/seed'); MUT_ROOT = __import__('os').environ.get('MUT_ROOT', '/tmp/mut')
name, prop = sys.argv[1], sys.argv[2]
suite = '--suite' in sys.argv
src = f'{SEED_ROOT}/{name}'
wt = f'{MUT_ROOT}/{name}'
env = {k: v for k, v in os.environ.items() if k != 'GOTOOLCHAIN'}
env['GOFLAGS'] = '-mod=mod'
def sh(cmd, cwd=None, timeout=3600, e=env):
    r = subprocess.run(cmd, shell=True, cwd=cwd, env=e, capture_output=True, text=True, timeout=timeout)
    return r.returncode, (r.stdout + r.stderr)
sh(f'git -C /repo worktree remove --force {wt}')
shutil.rmtree(wt, ignore_errors=True)
rc, out = sh(f'git -C /repo worktree add -q {wt} HEAD')
assert rc == 0, out
res = {'seed': name, 'property': prop}
rc, out = sh(f'git apply --3way {src}/patch.diff', cwd=wt)
if rc != 0:
    rc, out = sh(f'git apply {src}/patch.diff', cwd=wt)
res['applies'] = rc == 0
if rc != 0:
    res['apply_error'] = out[-500:]
    print(json.dumps(res)); sys.exit(0)
sh('git reset -q', cwd=wt)
sh('git diff > %s/%s.patch' % (MUT_ROOT, name), cwd=wt)
# demo files: untracked *_test.go in the seed worktree
_, untracked = sh('git ls-files --others --exclude-standard', cwd=src)
demos = [f for f in untracked.split() if f.endswith('_test.go')]
meta = json.load(open(f'{src}/meta.json')) if os.path.exists(f'{src}/meta.json') else {}
res['meta'] = meta
for d in demos:
    os.makedirs(os.path.dirname(f'{wt}/{d}') or wt, exist_ok=True)
    shutil.copy(f'{src}/{d}', f'{wt}/{d}')
res['demo_files'] = demos
rc, out = sh('go build ./... ', cwd=wt)
res['builds'] = rc == 0
demo_cmd = meta.get('demo_cmd', '')
# normalise the demo command to run inside our worktree
demo_cmd = demo_cmd.replace(src, wt)
if 'cd ' not in demo_cmd and demos:
    d = os.path.dirname(demos[0])
res['demo_cmd'] = demo_cmd
if demo_cmd:
    rc1, o1 = sh(demo_cmd, cwd=wt, timeout=900)
    res['demo_with_change'] = 'FAIL' if rc1 != 0 else 'pass'
    sh('git apply -R %s/%s.patch' % (MUT_ROOT, name), cwd=wt)
    rc2, o2 = sh(demo_cmd, cwd=wt, timeout=900)
    res['demo_without_change'] = 'pass' if rc2 == 0 else 'FAIL'
    sh('git apply %s/%s.patch' % (MUT_ROOT, name), cwd=wt)
    res['demo_tail'] = o1[-300:]
# remove demo files before running the check / suite
for d in demos:
    os.remove(f'{wt}/{d}')
e2 = dict(os.environ); e2['VERIF_REPO'] = wt
for seed in ('1',):
    e2['VERIF_SEED'] = seed
    rc, out = sh(f'./check.sh {prop} quick', cwd='/verif', timeout=3000, e=e2)
    lines = [l for l in out.splitlines() if l.startswith('VIOLATION') or 'class=' in l or 'INCONCL' in l or 'BROKEN' in l or 'BUILD' in l]
    res['check_rc'] = rc
    res['check_lines'] = lines[:6]
if suite:
    mods = set()
    for f in meta.get('files', []):
        top = f.split('/')[0]
        mods.add(top if os.path.exists(f'/repo/{top}/go.mod') else '.')
    for m in mods or {'.'}:
        ee = dict(env); ee['REPO_DIR'] = wt
        rc, out = sh(f'python3 /tmp/seed/tools/baseline_check.py {m}', timeout=3000, e=ee)
        res.setdefault('suite', {})[m] = out.strip().splitlines()[0] if out.strip() else ''
json.dump(res, open(f'{MUT_ROOT}/{name}.result.json', 'w'), indent=1)
print(json.dumps({k: res[k] for k in res if k not in ('meta', 'demo_tail')}))
