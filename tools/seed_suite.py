#!/usr/bin/env python3
"""Confirms that the repository's pinned suite still passes with a seeded change applied.
usage: seed_suite.py <seed-name> ...
For each seed: fresh worktree /tmp/mut/suite-<name> at /repo HEAD, apply /tmp/seed/<name>/patch.diff (tracked files only,
no demonstration test), run the pinned suite of every module the patch touches (hooks off, default toolchain), compare with
BASELINE.json stable_pass; tests that did not pass are re-run alone up to twice (timing-sensitive tests under load).
Result: /tmp/mut/<name>.suite.json; the worktree is removed."""
import json, os, subprocess, sys, shutil, re
SEED_ROOT = __import__('os').environ.get('SEED_ROOT', '/tmp/seed'); MUT_ROOT = __import__('os').environ.get('MUT_ROOT', '/tmp/mut')
base = json.load(open('/root/.vp/BASELINE.json'))
want = set(base['stable_pass'])
env = {k: v for k, v in os.environ.items() if k not in ('GOTOOLCHAIN', 'GOPROXY', 'GOSUMDB')}
env['GOFLAGS'] = '-mod=mod'
root = 'github.com/redis/rueidis'
mods_all = [l.strip().lstrip('./') or '.' for l in open('/w/out/gomods.txt') if l.strip()]
def sh(cmd, cwd=None, timeout=3600):
    r = subprocess.run(cmd, shell=True, cwd=cwd, env=env, capture_output=True, text=True, timeout=timeout)
    return r.returncode, r.stdout + r.stderr
def module_of(pkg):
    rel = pkg[len(root):].lstrip('/')
    for m in mods_all:
        if m != '.' and (rel == m or rel.startswith(m + '/')):
            return m
    return '.'
def run_suite(wt, m, run=None, pkgs='./...'):
    cmd = ['go', 'test', '-json', '-vet=off', '-count=1', '-timeout', '25m']
    if run: cmd += ['-run', run]
    cmd += [pkgs]
    p = subprocess.Popen(cmd, cwd=os.path.join(wt, m), stdout=subprocess.PIPE, stderr=subprocess.STDOUT, text=True, env=env)
    st = {}
    for line in p.stdout:
        try: ev = json.loads(line)
        except Exception: continue
        if ev.get('Test') and ev.get('Action') in ('pass', 'fail', 'skip'):
            st[ev['Package'] + '::' + ev['Test']] = ev['Action']
    p.wait()
    return st
for name in sys.argv[1:]:
    src = f'{SEED_ROOT}/{name}'
    wt = f'{MUT_ROOT}/suite-{name}'
    sh(f'git -C /repo worktree remove --force {wt}'); shutil.rmtree(wt, ignore_errors=True)
    rc, out = sh(f'git -C /repo worktree add -q {wt} HEAD'); assert rc == 0, out
    res = {'seed': name, 'head': sh('git -C /repo rev-parse --short HEAD')[1].strip()}
    rc, out = sh(f'git apply {src}/patch.diff', cwd=wt)
    if rc != 0:
        rc, out = sh(f'git apply --3way {src}/patch.diff', cwd=wt); sh('git reset -q', cwd=wt)
    res['applies'] = rc == 0
    if rc == 0:
        _, files = sh('git diff --name-only', cwd=wt)
        files = files.split()
        res['files'] = files
        mods = set()
        for f in files:
            top = f.split('/')[0]
            mods.add(top if os.path.exists(f'{wt}/{top}/go.mod') else '.')
        res['modules'] = sorted(mods)
        rc, out = sh('go build ./...', cwd=wt); res['builds'] = rc == 0
        bad_all = []
        for m in sorted(mods):
            st = run_suite(wt, m)
            considered = [t for t in want if module_of(t.split('::')[0]) == m]
            bad = [t for t in considered if st.get(t) != 'pass']
            for attempt in range(2):
                if not bad: break
                still = []
                bypkg = {}
                for t in bad: bypkg.setdefault(t.split('::')[0], []).append(t.split('::')[1])
                for pkg, tests in bypkg.items():
                    tops = sorted({t.split('/')[0] for t in tests})
                    rel = pkg[len(root):].lstrip('/')
                    rel = rel[len(m):].lstrip('/') if m != '.' else rel
                    st2 = run_suite(wt, m, run='^(' + '|'.join(re.escape(x) for x in tops) + ')$', pkgs='./' + rel if rel else '.')
                    for t in tests:
                        if st2.get(pkg + '::' + t) != 'pass': still.append(pkg + '::' + t)
                res.setdefault('retried', []).extend(bad)
                bad = still
            res.setdefault('suite', {})[m] = {'stable_pass_considered': len(considered), 'observed': len(st), 'not_passing': bad}
            bad_all += bad
        res['suite_passes'] = not bad_all
    json.dump(res, open(f'{MUT_ROOT}/{name}.suite.json', 'w'), indent=1)
    print(name, 'applies', res.get('applies'), 'builds', res.get('builds'), 'modules', res.get('modules'), 'suite_passes', res.get('suite_passes'), 'retried', len(res.get('retried', [])), flush=True)
    sh(f'git -C /repo worktree remove --force {wt}'); shutil.rmtree(wt, ignore_errors=True)
